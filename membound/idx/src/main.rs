//! membound-idx: bounded index operation sequences x (dim, M, capacity, k/ef) on the real
//! HnswVectorIndex / HnswBackend, compiled with AddressSanitizer and debug assertions (std's
//! ub_checks turn out-of-range get_unchecked / from_raw_parts into aborts).
use kyrodb_engine::config::DistanceMetric;
use kyrodb_engine::{HnswBackend, HnswVectorIndex};
use std::sync::atomic::AtomicBool;
use std::sync::Arc;

fn vecf(dim: usize, seed: u32) -> Vec<f32> {
    (0..dim).map(|i| (((i as u32).wrapping_mul(2654435761).wrapping_add(seed.wrapping_mul(40503)) % 2001) as f32) / 1000.0 - 1.0 + 0.001).collect()
}

/// vecf, L2-normalised when the metric needs unit vectors (the cosine index refuses anything else
/// up front, which would keep every batch away from the construction paths)
fn vecm(metric: DistanceMetric, dim: usize, seed: u32) -> Vec<f32> {
    let mut v = vecf(dim, seed);
    if matches!(metric, DistanceMetric::Cosine | DistanceMetric::InnerProduct) {
        let n = v.iter().map(|x| x * x).sum::<f32>().sqrt();
        if n > 0.0 {
            v.iter_mut().for_each(|x| *x /= n);
        }
    }
    v
}

#[derive(Clone, Copy, Debug)]
enum Op {
    Add,
    AddDupVec,
    AddDupId,
    Search,
    SearchBigK,
    SearchCancelled,
    /// queries of the wrong length (dim-1, dim+1, dim+16 = one more full SIMD block, 5*dim+3):
    /// nothing below the index's own check looks at the query length again
    SearchWrongLen,
}

fn serde_json_lite(v: &[String]) -> String {
    format!("[{}]", v.iter().map(|s| format!("{:?}", s)).collect::<Vec<_>>().join(","))
}

fn main() {
    let depth: usize = std::env::var("MEMBOUND_DEPTH").ok().and_then(|s| s.parse().ok()).unwrap_or(4);
    let thorough = std::env::var("MEMBOUND_THOROUGH").is_ok();
    let cancel_only = std::env::var("MEMBOUND_ONLY").map(|v| v == "cancel").unwrap_or(false);
    let dims: Vec<usize> = if cancel_only { vec![] } else if thorough { vec![1, 3, 8, 17, 130] } else { vec![1, 3, 17, 130] };
    let ms: Vec<usize> = if thorough { vec![4, 5, 16, 64] } else { vec![5, 16] };
    let caps: Vec<usize> = if thorough { vec![1, 2, 8, 4096] } else { vec![1, 2, 8] };
    let ops = [Op::Add, Op::AddDupVec, Op::AddDupId, Op::Search, Op::SearchBigK, Op::SearchCancelled, Op::SearchWrongLen];
    let mut sequences = 0u64;
    let mut calls = 0u64;
    let mut configs = 0u64;
    for &dim in &dims {
        for &m in &ms {
            for &cap in &caps {
                for metric in [DistanceMetric::Euclidean, DistanceMetric::Cosine] {
                    configs += 1;
                    // all op sequences of length `depth`
                    let n = ops.len();
                    let total = n.pow(depth as u32);
                    for code in 0..total {
                        sequences += 1;
                        let mut idx = match HnswVectorIndex::new_with_params(dim, cap, metric, m, (m * 2).max(16), true) {
                            Ok(i) => i,
                            Err(_) => break,
                        };
                        let mut c = code;
                        let mut next_id = 0u64;
                        let mut last_vec = vecf(dim, 1);
                        for _ in 0..depth {
                            let op = ops[c % n];
                            c /= n;
                            calls += 1;
                            match op {
                                Op::Add => {
                                    last_vec = vecf(dim, next_id as u32 + 2);
                                    let _ = idx.add_vector(next_id, &last_vec);
                                    next_id += 1;
                                }
                                Op::AddDupVec => {
                                    let _ = idx.add_vector(next_id, &last_vec);
                                    next_id += 1;
                                }
                                Op::AddDupId => {
                                    let _ = idx.add_vector(next_id.saturating_sub(1), &vecf(dim, 77));
                                }
                                Op::Search => {
                                    let _ = idx.knn_search(&vecf(dim, 5), 1);
                                    let _ = idx.knn_search_with_ef(&vecf(dim, 6), 10, Some(1));
                                }
                                Op::SearchBigK => {
                                    let _ = idx.knn_search_with_ef(&vecf(dim, 7), 10_000, Some(10_000));
                                }
                                Op::SearchCancelled => {
                                    let flag = AtomicBool::new(true);
                                    let _ = idx.knn_search_with_ef_cancel(&vecf(dim, 8), 10, Some(10), Some(&flag));
                                }
                                Op::SearchWrongLen => {
                                    for l in [dim.saturating_sub(1), dim + 1, dim + 16, 5 * dim + 3] {
                                        // well formed apart from its length (unit norm over the full
                                        // length, so the cosine normalisation check lets it through)
                                        let mut q = vec![0.0f32; l];
                                        if l > 0 {
                                            q[0] = 1.0;
                                        }
                                        // (a panic here is a verdict too: with debug assertions on, the
                                        // kernels' length precondition fires before the over-read)
                                        let _ = idx.knn_search(&q, 3);
                                    }
                                }
                            }
                        }
                        idx.complete_sequential_inserts();
                        let _ = idx.knn_search(&vecf(dim, 9), 3);
                    }
                }
            }
        }
    }
    // batch shapes: every row-length pattern of <= 3 rows over {dim, dim-1, dim+1, 0} (plus a NaN
    // row) through parallel_insert_batch, on an empty and on a non-empty index, then searches with
    // well-formed queries. The ANN backend sizes its records from the first vector it receives, so
    // a malformed row that slips through must not reach the distance kernels.
    let mut batch_shapes = 0u64;
    for &dim in &dims {
        let lens: Vec<usize> = vec![dim, dim.saturating_sub(1), dim + 1, 0];
        let mut patterns: Vec<Vec<usize>> = Vec::new();
        for &a in &lens {
            patterns.push(vec![a]);
            for &b in &lens {
                patterns.push(vec![a, b]);
                for &c in &lens {
                    patterns.push(vec![a, b, c]);
                }
            }
        }
        for metric in [DistanceMetric::Euclidean, DistanceMetric::Cosine] {
            for &m in &ms {
                for pre in [false, true] {
                    for (pi, pat) in patterns.iter().enumerate() {
                        for nan_row in [false, true] {
                            if nan_row && pi % 7 != 0 {
                                continue;
                            }
                            batch_shapes += 1;
                            let Ok(mut idx) = HnswVectorIndex::new_with_params(dim, 8, metric, m, (m * 2).max(16), true) else { continue };
                            if pre {
                                let _ = idx.add_vector(100, &vecm(metric, dim, 3));
                            }
                            let rows: Vec<Vec<f32>> = pat
                                .iter()
                                .enumerate()
                                .map(|(j, &l)| {
                                    let mut v = vecm(metric, l, 10 + j as u32);
                                    if nan_row && j == 0 && !v.is_empty() {
                                        v[0] = f32::NAN;
                                    }
                                    v
                                })
                                .collect();
                            let batch: Vec<(&[f32], usize)> = rows.iter().enumerate().map(|(j, r)| (r.as_slice(), j)).collect();
                            let _ = idx.parallel_insert_batch(&batch);
                            idx.complete_sequential_inserts();
                            calls += 1;
                            let _ = idx.knn_search(&vecm(metric, dim, 9), 3);
                            let _ = idx.knn_search_with_ef(&vecm(metric, dim, 7), 10_000, Some(10_000));
                            let _ = idx.add_vector(50, &vecm(metric, dim, 4));
                            let _ = idx.knn_search(&vecm(metric, dim, 5), 2);
                        }
                    }
                }
            }
        }
    }
    // ... and batches at / above the index's SEQUENTIAL_BATCH_THRESHOLD (100 rows: the parallel
    // construction path): one malformed row (short, long, empty, NaN) at the head, in the middle or
    // at the tail of 100 / 131 rows, on an empty and on a non-empty index, then searches and a
    // further insert. A row that slips past the pre-scan reaches the distance kernels from
    // several threads at once.
    let mut big_batches = 0u64;
    for &dim in &dims {
        for metric in [DistanceMetric::Euclidean, DistanceMetric::Cosine] {
            for &rows_n in &[100usize, 131] {
                for pre in [false, true] {
                    for bad_at in [None, Some(0usize), Some(rows_n / 2), Some(rows_n - 1)] {
                        for bad_kind in 0..4u8 {
                            if bad_at.is_none() && bad_kind != 0 {
                                continue;
                            }
                            big_batches += 1;
                            let Ok(mut idx) = HnswVectorIndex::new_with_params(dim, rows_n + 8, metric, 16, 64, true) else { continue };
                            if pre {
                                let _ = idx.add_vector(100_000, &vecm(metric, dim, 3));
                            }
                            let rows: Vec<Vec<f32>> = (0..rows_n)
                                .map(|j| {
                                    if Some(j) == bad_at {
                                        match bad_kind {
                                            0 => vecm(metric, dim.saturating_sub(1), 10 + j as u32),
                                            1 => vecm(metric, dim + 1, 10 + j as u32),
                                            2 => Vec::new(),
                                            _ => {
                                                let mut v = vecm(metric, dim, 10 + j as u32);
                                                v[0] = f32::NAN;
                                                v
                                            }
                                        }
                                    } else {
                                        vecm(metric, dim, 10 + j as u32)
                                    }
                                })
                                .collect();
                            let batch: Vec<(&[f32], usize)> = rows.iter().enumerate().map(|(j, r)| (r.as_slice(), j)).collect();
                            let _ = idx.parallel_insert_batch(&batch);
                            idx.complete_sequential_inserts();
                            calls += 1;
                            let _ = idx.knn_search(&vecm(metric, dim, 9), 3);
                            let _ = idx.knn_search_with_ef(&vecm(metric, dim, 7), 10_000, Some(10_000));
                            let _ = idx.add_vector(50_000, &vecm(metric, dim, 4));
                            let _ = idx.knn_search(&vecm(metric, dim, 5), 2);
                        }
                    }
                }
            }
        }
    }
    // cancellation at EVERY point (hook: kyrodb_engine::verif_hooks, --cfg kyrodb_verif): for each
    // index and query, a fault-free search counts the cancellation points it passes; then the
    // search is repeated once per point n with the flag raised exactly at its n-th point. Every
    // cancelled search must be memory-safe (ASan), return either nothing or a prefix-sound list,
    // and — the index being unchanged — the SAME query repeated right afterwards on the same
    // thread (twice) must return exactly the baseline answer.
    let mut cancel_points_total = 0u64;
    let mut cancel_runs = 0u64;
    let mut cancel_diffs: Vec<String> = Vec::new();
    {
        use kyrodb_engine::verif_hooks::{arm_cancel_at, cancel_points_seen};
        let sizes: Vec<usize> = if thorough { vec![5, 40, 300, 1500] } else { vec![5, 40, 300] };
        for &dim in &[3usize, 17] {
            for metric in [DistanceMetric::Euclidean, DistanceMetric::Cosine] {
                for &n in &sizes {
                    let mut idx = HnswVectorIndex::new_with_params(dim, n + 4, metric, 16, 200, true).expect("index");
                    for i in 0..n {
                        let _ = idx.add_vector(i as u64, &vecf(dim, i as u32 + 11));
                    }
                    idx.complete_sequential_inserts();
                    let queries: Vec<Vec<f32>> = (0..if thorough { 6 } else { 3 }).map(|j| vecf(dim, 9000 + j)).collect();
                    for (k, ef) in [(1usize, None), (10, Some(64usize))] {
                        for q in &queries {
                            let key = |r: &Vec<kyrodb_engine::SearchResult>| r.iter().map(|x| (x.doc_id, x.distance.to_bits())).collect::<Vec<_>>();
                            let flag = AtomicBool::new(false);
                            arm_cancel_at(0);
                            let base = idx.knn_search_with_ef_cancel(q, k, ef, Some(&flag)).unwrap_or_default();
                            let points = cancel_points_seen();
                            cancel_points_total += points;
                            let base_key = key(&base);
                            for p in 1..=points {
                                cancel_runs += 1;
                                let flag = AtomicBool::new(false);
                                arm_cancel_at(p);
                                let _cancelled = idx.knn_search_with_ef_cancel(q, k, ef, Some(&flag));
                                arm_cancel_at(0);
                                for rep in 0..2 {
                                    let again = idx.knn_search_with_ef_cancel(q, k, ef, None).unwrap_or_default();
                                    if key(&again) != base_key && cancel_diffs.len() < 5 {
                                        cancel_diffs.push(format!("dim {dim} n {n} k {k} ef {ef:?}: search cancelled at point {p}/{points}, repeat #{rep} returned {:?}, baseline {:?}", again.iter().map(|x| x.doc_id).collect::<Vec<_>>(), base.iter().map(|x| x.doc_id).collect::<Vec<_>>()));
                                    }
                                }
                            }
                        }
                    }
                }
            }
        }
    }
    // backend level: inserts, overwrites, deletes, tombstone compaction, batch search, concurrent readers
    let mut backend_runs = 0u64;
    for &dim in if cancel_only { &[][..] } else { &[3usize, 17, 130][..] } {
        for metric in [DistanceMetric::Euclidean, DistanceMetric::InnerProduct] {
            backend_runs += 1;
            let b = Arc::new(HnswBackend::new(dim, metric, vec![], vec![], 12).unwrap());
            let norm = |mut v: Vec<f32>| {
                let n = v.iter().map(|x| x * x).sum::<f32>().sqrt();
                v.iter_mut().for_each(|x| *x /= n);
                v
            };
            for i in 0..10u64 {
                let _ = b.insert(i % 5, norm(vecf(dim, i as u32)), Default::default());
            }
            for i in 0..3u64 {
                let _ = b.delete(i);
            }
            for i in 20..30u64 {
                let _ = b.insert(i, norm(vecf(dim, i as u32)), Default::default()); // forces tombstone compaction
            }
            let readers: Vec<_> = (0..3)
                .map(|t| {
                    let b = b.clone();
                    std::thread::spawn(move || {
                        for i in 0..50u32 {
                            let q = vecf(dim, i + t);
                            let _ = b.knn_search(&q, 5);
                            let _ = b.knn_search_batch(&[q.clone(), vecf(dim, i + 9)], 3, Some(8));
                        }
                    })
                })
                .collect();
            for i in 30..34u64 {
                let _ = b.insert(i % 3 + 40, norm(vecf(dim, i as u32)), Default::default());
            }
            for r in readers {
                r.join().unwrap();
            }
        }
    }
    println!("{{\"configs\":{configs},\"sequences\":{sequences},\"calls\":{calls},\"depth\":{depth},\"backend_runs\":{backend_runs},\"batch_shapes\":{batch_shapes},\"threshold_batches\":{big_batches},\"cancel_points\":{cancel_points_total},\"cancelled_searches\":{cancel_runs},\"repeat_after_cancel_differs\":{}}}", serde_json_lite(&cancel_diffs));
    if !cancel_diffs.is_empty() && cancel_only {
        // C16's determinism clause (bin/check C16 runs this binary with MEMBOUND_ONLY=cancel)
        eprintln!("REPEAT-AFTER-CANCEL-DIFFERS: {}", cancel_diffs[0]);
        std::process::exit(3);
    }
}
