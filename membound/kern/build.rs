// Copies /repo/engine/src/simd.rs into src/gen/ and appends a child module exposing the private
// per-ISA kernels.
use std::fs;
fn main() {
    let src = "/repo/engine/src/simd.rs";
    println!("cargo:rerun-if-changed={src}");
    println!("cargo:rerun-if-changed=src/tail.rs");
    let mut s = fs::read_to_string(src).expect("read simd.rs");
    s.push_str("\n\n// ===== appended by /verif/membound/kern/build.rs =====\n");
    s.push_str(&fs::read_to_string("src/tail.rs").unwrap());
    fs::create_dir_all("src/gen").unwrap();
    let out = "src/gen/simd.rs";
    if fs::read_to_string(out).map(|o| o != s).unwrap_or(true) {
        fs::write(out, s).unwrap();
    }
}
