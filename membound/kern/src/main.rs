//! membound-kern: every available SIMD kernel x function x length 0..=130 x start offset 0..=3 on
//! exact-size heap buffers under AddressSanitizer; results compared with the scalar kernel.
//! Prints one JSON line with the counts; a sanitizer report aborts the process (non-zero exit).
#![allow(dead_code, unused_imports, clippy::all)]

#[path = "gen/simd.rs"]
mod simd;

use simd::verif_kernels::*;

fn exact(len: usize, off: usize, seed: u32) -> Vec<f32> {
    // an exact-size allocation: capacity == len, so one element past the end is poisoned
    let mut v: Vec<f32> = Vec::with_capacity(len + off);
    for i in 0..(len + off) {
        let x = ((i as u32).wrapping_mul(2654435761).wrapping_add(seed) % 2001) as f32 / 1000.0 - 1.0;
        v.push(x);
    }
    v.shrink_to_fit();
    v
}

fn close(a: f32, b: f32) -> bool {
    (a - b).abs() <= 1e-3 * a.abs().max(b.abs()).max(1.0)
}

fn main() {
    let max_len: usize = std::env::var("MEMBOUND_MAX_LEN").ok().and_then(|s| s.parse().ok()).unwrap_or(130);
    let sc = scalar();
    let mut isas = available();
    isas.push(dispatched());
    let mut calls = 0u64;
    let mut mismatches = Vec::new();
    for isa in &isas {
        for len in 0..=max_len {
            for off in 0..=3usize {
                let a = exact(len, off, 17);
                let b = exact(len, off, 91);
                let (sa, sb) = (&a[off..], &b[off..]);
                calls += 4;
                let d = (isa.dot)(sa, sb);
                let s = (isa.sumsq)(sa);
                let l = (isa.l2sq)(sa, sb);
                let (dn, na, nb) = (isa.dotnorms)(sa, sb);
                let ok = close(d, (sc.dot)(sa, sb)) && close(s, (sc.sumsq)(sa)) && close(l, (sc.l2sq)(sa, sb)) && {
                    let (d2, a2, b2) = (sc.dotnorms)(sa, sb);
                    close(dn, d2) && close(na, a2) && close(nb, b2)
                };
                if !ok && mismatches.len() < 5 {
                    mismatches.push(format!("{} len={len} off={off}", isa.name));
                }
            }
        }
    }
    println!("{{\"isas\":{:?},\"calls\":{calls},\"max_len\":{max_len},\"mismatches\":{:?}}}", isas.iter().map(|i| i.name).collect::<Vec<_>>(), mismatches);
    if !mismatches.is_empty() {
        std::process::exit(1);
    }
}
