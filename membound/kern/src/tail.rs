pub mod verif_kernels {
    #![allow(dead_code)]
    use super::*;
    pub type Bin = fn(&[f32], &[f32]) -> f32;
    pub type Un = fn(&[f32]) -> f32;
    pub type Dn = fn(&[f32], &[f32]) -> (f32, f32, f32);
    pub struct Isa {
        pub name: &'static str,
        pub dot: Bin,
        pub sumsq: Un,
        pub l2sq: Bin,
        pub dotnorms: Dn,
    }
    pub fn scalar() -> Isa {
        Isa { name: "scalar", dot: dot_f32_scalar_entry, sumsq: sum_squares_f32_scalar_entry, l2sq: l2_distance_sq_f32_scalar_entry, dotnorms: dot_and_norms_f32_scalar_entry }
    }
    #[cfg(target_arch = "x86_64")]
    pub fn available() -> Vec<Isa> {
        let mut v = vec![scalar()];
        if std::is_x86_feature_detected!("sse2") {
            v.push(Isa { name: "sse2", dot: dot_f32_sse2_entry, sumsq: sum_squares_f32_sse2_entry, l2sq: l2_distance_sq_f32_sse2_entry, dotnorms: dot_and_norms_f32_sse2_entry });
        }
        if std::is_x86_feature_detected!("avx2") && std::is_x86_feature_detected!("fma") {
            v.push(Isa { name: "avx2+fma", dot: dot_f32_avx2_entry, sumsq: sum_squares_f32_avx2_entry, l2sq: l2_distance_sq_f32_avx2_entry, dotnorms: dot_and_norms_f32_avx2_entry });
        }
        if std::is_x86_feature_detected!("avx512f") && std::is_x86_feature_detected!("fma") {
            v.push(Isa { name: "avx512f", dot: dot_f32_avx512_entry, sumsq: sum_squares_f32_avx512_entry, l2sq: l2_distance_sq_f32_avx512_entry, dotnorms: dot_and_norms_f32_avx512_entry });
        }
        v
    }
    pub fn dispatched() -> Isa {
        Isa { name: "dispatched", dot: dot_f32, sumsq: sum_squares_f32, l2sq: l2_distance_sq_f32, dotnorms: |a, b| { let k = resolved_f32_kernels(); (k.dot_and_norms)(a, b) } }
    }
}
