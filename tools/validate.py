#!/usr/bin/env python3-vt
"""Validate MANIFEST.json and every evidence file against the schemas."""
import json, sys, glob, jsonschema
ok = True
m = json.load(open('/verif/MANIFEST.json'))
jsonschema.validate(m, json.load(open('/root/.vp/MANIFEST.schema.json')))
props = [json.loads(l)['id'] for l in open('/verif/properties.jsonl')]
claimed = {c['property_id'] for c in m['checks']}
na = {c['property_id'] for c in m.get('not_applicable', [])}
for p in props:
    if p not in claimed and p not in na:
        print("property neither claimed nor not_applicable:", p); ok = False
    if p in claimed and p in na:
        print("property both claimed and not_applicable:", p); ok = False
es = json.load(open('/root/.vp/EVIDENCE.schema.json'))
for c in m['checks']:
    f = '/verif/' + c['evidence_file']
    try:
        e = json.load(open(f))
        jsonschema.validate(e, es)
        if e['level'] != c['level_claimed']['category']:
            print("level mismatch", f, e['level'], c['level_claimed']['category']); ok = False
    except FileNotFoundError:
        print("missing evidence", f)
    except Exception as ex:
        print("invalid evidence", f, str(ex)[:300]); ok = False
print("validate:", "ok" if ok else "FAILED")
sys.exit(0 if ok else 1)
