#!/bin/bash
# Thorough tiers of the seqmc / crashmc / schedmc checks WITHOUT depending on /repo's working
# tree or on /verif/target (so seeded changes can be tried in /repo meanwhile): builds the harness
# against a scratch worktree of /repo's HEAD into /verif/target-thor and runs from there, with a
# private copy of the srvmc binary for the server-level slices. Evidence goes to /tmp/ev-thor.
# usage: tools/thorough_hermetic.sh [ids...]
cd "$(dirname "$0")/.."
IDS="${@:-C03 C13 C01 C05 C08 C11 C12 C18 C19 C09 C20 C07 C06 C04 C02}"
S=/tmp/repo-thor
git -C /repo worktree list | grep -q "$S" || git -C /repo worktree add --detach $S HEAD -q
git -C $S checkout -q --detach $(git -C /repo rev-parse HEAD); git -C $S checkout -- .
export CARGO_TARGET_DIR=/verif/target-thor CARGO_NET_OFFLINE=true
( cd harness && cargo build --release --offline -p seqmc -p crashmc -p schedmc --config "paths=[\"$S/engine\"]" ) > /tmp/thor_build.log 2>&1 || { echo "build failed"; tail -5 /tmp/thor_build.log; exit 2; }
cp /verif/target/release/srvmc /verif/target-thor/srvmc-private
for id in $IDS; do
  case "$id" in
    C02|C04|C20|C06|C07|C11|C18|C19|C12|C16) E=seqmc ;;
    C01|C03|C13) E=crashmc ;;
    C05|C08|C09) E=schedmc ;;
    *) echo "THOROUGH $id: not hermetic"; continue ;;
  esac
  t0=$(date +%s)
  out=$(LD_PRELOAD=/verif/shim/kvshim.so KVSHIM_CLOCK=1 KVSHIM_RAND=1 VERIF_TIER=thorough SRVMC_BIN=/verif/target-thor/srvmc-private VERIF_EVIDENCE_DIR=/tmp/ev-thor VERIF_REPLAY_DIR=/tmp/replays-thor timeout 4h /verif/target-thor/release/$E $id thorough 2>&1); rc=$?
  t1=$(date +%s)
  echo "THOROUGH $id rc=$rc secs=$((t1-t0)) :: $(echo "$out" | grep -v '^KNOWN' | tail -1 | cut -c1-260)"
  echo "$out" | grep -E "^VIOLATION|machinery" | head -5
done
