#!/bin/bash
# usage: try_seed.sh <seed-name> <check ids...>   — applies /verif/seeded/<name>/patch.diff to /repo,
# runs the given quick checks, reverts. Prints one line per check with the exit code.
NAME=$1; shift
cd /repo || exit 2
if [ -n "$(git status --porcelain --untracked-files=no)" ]; then echo "/repo has uncommitted changes"; exit 2; fi
git apply -3 /verif/seeded/$NAME/patch.diff 2>/tmp/try_seed.apply.log || git apply /verif/seeded/$NAME/patch.diff || { echo "apply failed"; cat /tmp/try_seed.apply.log; git checkout -- .; exit 2; }
git reset -q 2>/dev/null
for c in "$@"; do
  out=$(cd /verif && VERIF_EVIDENCE_DIR=/tmp/ev-seed VERIF_REPLAY_DIR=/tmp/replays-seed bin/check $c quick 2>&1); rc=$?
  echo "SEED $NAME CHECK $c rc=$rc :: $(echo "$out" | grep -E "^VIOLATION" | head -2 | tr '\n' ' ') $(echo "$out" | grep -E "distinct new signatures" | cut -c1-300)"
done
git checkout -- . ; git status --porcelain --untracked-files=no | head -3
