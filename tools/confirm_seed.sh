#!/bin/bash
# Confirm a seeded change produced by a sub-agent, in its scratch worktree:
#   demo fails with the change, passes without it, existing suite passes with it.
# usage: confirm_seed.sh <ID> <worktree> <seed-name>; writes /verif/seeded/<seed-name>/{patch.diff,demo...,meta.json,confirm.log}
set -u
ID=$1; WT=$2; NAME=${3:-$1}
OUT=$WT/seeded_out
DEST=/verif/seeded/$NAME
LOG=/tmp/confirm-$NAME.log
exec >"$LOG" 2>&1
cd "$WT" || exit 2
git checkout -q -- . ; git clean -fdq -e seeded_out -e target
DEMO_CMD=$(python3 -c "import json;print(json.load(open('$OUT/meta.json'))['demo_cmd'])")
echo "demo_cmd: $DEMO_CMD"
# strip any 'git apply' / 'cd' prefix from the demo command: keep the last cargo/test invocation
RUN=$(echo "$DEMO_CMD" | sed 's/.*&& *\(cargo [^&]*\)$/\1/')
echo "run: $RUN"
git apply "$OUT/patch.diff" "$OUT/demo_patch.diff" || { echo "CONFIRM: apply failed"; exit 1; }
( eval "$RUN" ) >/tmp/confirm-$NAME.with.log 2>&1; RC_WITH=$?
echo "demo with change: rc=$RC_WITH"
git apply -R "$OUT/patch.diff" || { echo "CONFIRM: revert failed"; exit 1; }
( eval "$RUN" ) >/tmp/confirm-$NAME.without.log 2>&1; RC_WITHOUT=$?
echo "demo without change: rc=$RC_WITHOUT"
git apply -R "$OUT/demo_patch.diff"; git clean -fdq -e seeded_out -e target
git apply "$OUT/patch.diff"
cargo test --workspace --offline --no-fail-fast >/tmp/confirm-$NAME.suite.log 2>&1; RC_SUITE=$?
FAILED=$(grep -c "^test .* FAILED" /tmp/confirm-$NAME.suite.log)
PASSED=$(grep "^test result:" /tmp/confirm-$NAME.suite.log | awk '{s+=$4} END {print s}')
echo "suite with change: rc=$RC_SUITE failed=$FAILED passed=$PASSED"
git checkout -q -- . ; git clean -fdq -e seeded_out -e target
if [ $RC_WITH -ne 0 ] && [ $RC_WITHOUT -eq 0 ] && [ $RC_SUITE -eq 0 ] && [ "$FAILED" = "0" ]; then
  mkdir -p "$DEST"
  cp "$OUT/patch.diff" "$OUT/demo_patch.diff" "$DEST/"
  for f in "$OUT"/*.rs; do [ -f "$f" ] && cp "$f" "$DEST/"; done
  python3 - <<PY
import json
m=json.load(open('$OUT/meta.json'))
m['confirmed_by_main']={'demo_rc_with_change':$RC_WITH,'demo_rc_without_change':$RC_WITHOUT,'suite_rc_with_change':$RC_SUITE,'suite_tests_passed':int('$PASSED' or 0),'suite_tests_failed':int('$FAILED'),'commands':['git apply patch.diff demo_patch.diff; $RUN','git apply -R patch.diff; $RUN','git apply patch.diff; cargo test --workspace --offline --no-fail-fast']}
json.dump(m,open('$DEST/meta.json','w'),indent=1)
PY
  echo "CONFIRM: OK -> $DEST"
else
  echo "CONFIRM: REJECTED"
fi
