#!/bin/bash
# Runs every confirmed seeded change in /verif/seeded against the quick checks that should see it
# and writes seeded/MATRIX.md. /repo must be clean; nothing else may use /repo meanwhile.
cd /verif
OUT=seeded/MATRIX.md
TMP=$(mktemp)
echo "| seeded change | check | exit | first new signature |" > $TMP
echo "|---|---|---|---|" >> $TMP
for d in seeded/*/; do
  n=$(basename $d)
  [ -f $d/patch.diff ] || continue
  id=${n%%-*}
  case "$n" in
    C01-*) checks="C01 C02" ;;
    C15-finite*) checks="C15 C03" ;;
    C15-not*) checks="C15 C11" ;;
    C09-compaction*) checks="C09 C05" ;;
    C16-cancelled*) checks="C16" ;;
    C04-version*|C05-version*) checks="C04 C05" ;;
    *) checks="$id" ;;
  esac
  cd /repo
  if [ -n "$(git status --porcelain --untracked-files=no)" ]; then echo "/repo dirty"; exit 2; fi
  # plain apply first; 3-way only if needed and only if it merges without conflict
  if ! git apply /verif/$d/patch.diff 2>/dev/null; then
    git reset -q; git checkout -- .
    if ! git apply -3 /verif/$d/patch.diff 2>/dev/null || [ -n "$(git diff --name-only --diff-filter=U)" ]; then
      git reset -q; git checkout -- .
      echo "| $n | - | - | patch no longer applies to the current tree (code changed by a later fix) |" >> $TMP
      cd /verif; continue
    fi
  fi
  git reset -q 2>/dev/null
  cd /verif
  for c in $checks; do
    out=$(VERIF_EVIDENCE_DIR=/tmp/ev-seed VERIF_REPLAY_DIR=/tmp/replays-seed bin/check $c quick 2>&1); rc=$?
    sig=$(echo "$out" | grep -E "distinct new signatures" | sed 's/.*signatures: {//; s/}$//' | cut -d, -f1 | tr -d '"' | cut -c1-110)
    echo "| $n | $c | $rc | $sig |" >> $TMP
  done
  git -C /repo checkout -- .
done
mv $TMP $OUT
echo done
