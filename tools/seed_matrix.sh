#!/bin/bash
# Runs every confirmed seeded change in /verif/seeded against the quick checks that should see it
# and writes seeded/MATRIX.md.
#   tools/seed_matrix.sh hermetic   seeds whose checks are seqmc / crashmc / schedmc only: applied in
#                                   the scratch worktree /tmp/repo-mx, harness built against it into
#                                   /verif/target-mx (never touches /repo) -> seeded/.matrix.hermetic
#   tools/seed_matrix.sh repo       the rest (server binary, ASan workspace, real-binary slices):
#                                   applied to /repo, bin/check, reverted (/repo must be clean and
#                                   nothing else may use it meanwhile)          -> seeded/.matrix.repo
#   tools/seed_matrix.sh merge      seeded/MATRIX.md from the two parts
cd /verif
MODE=${1:-merge}
checks_for() {
  n=$1; id=${n%%-*}
  case "$n" in
    C01-header-only*) echo "C01" ;;
    C01-*) echo "C01 C02" ;;
    C15-finite*) echo "C15 C03" ;;
    C15-not*) echo "C15 C11" ;;
    C15-bulkload-slots*) echo "C15 C14" ;;
    C09-compaction-takes*) echo "C09 C05" ;;
    C16-compaction-keys*) echo "C06" ;;
    C16-cancelled*) echo "C16" ;;
    C04-version*|C05-version*) echo "C04 C05" ;;
    *) echo "$id" ;;
  esac
}
needs_repo() {
  n=$1
  grep -q "kyrodb_server.rs" seeded/$n/patch.diff && return 0
  for c in $(checks_for $n); do case "$c" in C10|C14|C15|C16|C17) return 0 ;; esac; done
  return 1
}
if [ "$MODE" = "merge" ]; then
  { echo "| seeded change | check | exit | first new signature |"; echo "|---|---|---|---|"; cat seeded/.matrix.hermetic seeded/.matrix.repo 2>/dev/null | sort; } > seeded/MATRIX.md
  echo "merged: $(grep -c '^| C' seeded/MATRIX.md) rows"; exit 0
fi
OUT=seeded/.matrix.$MODE
# incremental: rows of seeds already in the part file are kept (pass "fresh" as 2nd argument to redo all)
if [ "${2:-}" = "fresh" ] || [ ! -f $OUT ]; then : > $OUT.tmp; else cp $OUT $OUT.tmp; fi
for d in seeded/*/; do
  n=$(basename $d)
  [ -f $d/patch.diff ] || continue
  grep -q "^| $n |" $OUT.tmp && continue
  if needs_repo $n; then [ "$MODE" = "repo" ] || continue; else [ "$MODE" = "hermetic" ] || continue; fi
  checks=$(checks_for $n)
  if [ "$MODE" = "hermetic" ]; then
    S=/tmp/repo-mx
    git -C /repo worktree list | grep -q "$S" || git -C /repo worktree add --detach $S HEAD -q
    git -C $S checkout -q --detach $(git -C /repo rev-parse HEAD) 2>/dev/null; git -C $S checkout -- . ; git -C $S clean -fdq -e target
    if ! git -C $S apply /verif/$d/patch.diff 2>/dev/null; then
      git -C $S reset -q; git -C $S checkout -- .
      if ! git -C $S apply -3 /verif/$d/patch.diff 2>/dev/null || [ -n "$(git -C $S diff --name-only --diff-filter=U)" ]; then
        git -C $S reset -q; git -C $S checkout -- .
        echo "| $n | - | - | patch no longer applies to the current tree (code changed by a later fix) |" >> $OUT.tmp; continue
      fi
    fi
    git -C $S reset -q 2>/dev/null
    for c in $checks; do
      case "$c" in C02|C04|C20|C06|C07|C11|C18|C19|C12) E=seqmc ;; C01|C03|C13) E=crashmc ;; C05|C08|C09) E=schedmc ;; esac
      ( cd /verif/harness && CARGO_TARGET_DIR=/verif/target-mx cargo build --release --offline -p $E --config "paths=[\"$S/engine\"]" ) >/tmp/seed_matrix.build.log 2>&1 || { echo "| $n | $c | build-failed | |" >> $OUT.tmp; continue; }
      out=$(LD_PRELOAD=/verif/shim/kvshim.so KVSHIM_CLOCK=1 KVSHIM_RAND=1 VERIF_TIER=quick SRVMC_BIN=/verif/target/release/srvmc VERIF_EVIDENCE_DIR=/tmp/ev-mx VERIF_REPLAY_DIR=/tmp/replays-mx /verif/target-mx/release/$E $c quick 2>&1); rc=$?
      sig=$(echo "$out" | grep -E "distinct new signatures" | sed 's/.*signatures: {//; s/}$//' | cut -d, -f1 | tr -d '"' | cut -c1-110)
      echo "| $n | $c | $rc | $sig |" >> $OUT.tmp
    done
    git -C $S checkout -- .
  else
    cd /repo
    if [ -n "$(git status --porcelain --untracked-files=no)" ]; then echo "/repo dirty"; exit 2; fi
    if ! git apply /verif/$d/patch.diff 2>/dev/null; then
      git reset -q; git checkout -- .
      if ! git apply -3 /verif/$d/patch.diff 2>/dev/null || [ -n "$(git diff --name-only --diff-filter=U)" ]; then
        git reset -q; git checkout -- .
        echo "| $n | - | - | patch no longer applies to the current tree (code changed by a later fix) |" >> /verif/$OUT.tmp
        cd /verif; continue
      fi
    fi
    git reset -q 2>/dev/null
    cd /verif
    for c in $checks; do
      out=$(VERIF_EVIDENCE_DIR=/tmp/ev-seed VERIF_REPLAY_DIR=/tmp/replays-seed bin/check $c quick 2>&1); rc=$?
      sig=$(echo "$out" | grep -E "distinct new signatures" | sed 's/.*signatures: {//; s/}$//' | cut -d, -f1 | tr -d '"' | cut -c1-110)
      echo "| $n | $c | $rc | $sig |" >> $OUT.tmp
    done
    git -C /repo checkout -- .
  fi
done
mv $OUT.tmp $OUT
echo "done $MODE: $(wc -l < $OUT) rows"
