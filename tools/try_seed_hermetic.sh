#!/bin/bash
# usage: try_seed_hermetic.sh <patch-dir-under-/tmp/preseed-or-/verif/seeded> <check ids...>
# Tests a seeded change WITHOUT touching /repo: applies it in the scratch worktree /tmp/repo-seed,
# builds the harness against that copy (cargo `paths` override) into /verif/target-seed and runs
# the quick checks from there. Only for seqmc / crashmc / schedmc checks (srvmc and membound
# generate sources from /repo at build time).
NAME=$1; shift
P=/tmp/preseed/$NAME/patch.diff; [ -f $P ] || P=/verif/seeded/$NAME/patch.diff
S=/tmp/repo-seed
git -C /repo worktree list | grep -q "$S" || git -C /repo worktree add --detach $S HEAD -q
git -C $S checkout -q --detach $(git -C /repo rev-parse HEAD) 2>/dev/null
git -C $S checkout -- . ; git -C $S clean -fdq -e target
git -C $S apply -3 $P 2>/dev/null || git -C $S apply $P || { echo "apply failed"; exit 2; }
git -C $S reset -q
for c in "$@"; do
  case "$c" in
    C02|C04|C20|C06|C07|C11|C18|C19|C12|C16) E=seqmc ;;
    C01|C03|C13) E=crashmc ;;
    C05|C08|C09) E=schedmc ;;
    *) echo "SEED $NAME CHECK $c: not hermetic (srvmc/membound)"; continue ;;
  esac
  ( cd /verif/harness && CARGO_TARGET_DIR=/verif/target-seed cargo build --release --offline -p $E --config "paths=[\"$S/engine\"]" ) >/tmp/try_seed_hermetic.build.log 2>&1 || { echo "SEED $NAME CHECK $c: build failed"; tail -5 /tmp/try_seed_hermetic.build.log; continue; }
  out=$(cd /verif && LD_PRELOAD=/verif/shim/kvshim.so KVSHIM_CLOCK=1 KVSHIM_RAND=1 VERIF_TIER=quick SRVMC_BIN=/verif/target/release/srvmc VERIF_EVIDENCE_DIR=/tmp/ev-seed VERIF_REPLAY_DIR=/tmp/replays-seed /verif/target-seed/release/$E $c quick 2>&1); rc=$?
  echo "SEED $NAME CHECK $c rc=$rc :: $(echo "$out" | grep -E "^VIOLATION" | head -2 | tr '\n' ' ') $(echo "$out" | grep -E "distinct new signatures" | cut -c1-300)"
done
git -C $S checkout -- .
