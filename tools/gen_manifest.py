#!/usr/bin/env python3
"""Generate /verif/MANIFEST.json from the table below (single source of truth for the checks)."""
import json

PROPS = [json.loads(l)['id'] for l in open('/verif/properties.jsonl')]

# id -> dict(engine, category, technique, text, note, design_ref)
CHECKS = {
    "C02": dict(
        engine="seqmc", category="model_checking", design_ref="DESIGN.md 3.2",
        technique="explicit enumeration of all operation histories up to a depth bound x configuration grid on the real HnswBackend, each compared step by step with a reference map; restart checks at every RESTART letter and at the end",
        text="Every history of length <= depth over a 9-letter alphabet (forced id collisions, overwrite, delete, batch delete with duplicates, metadata merge/replace, manual snapshot, restart) is executed on the real persistent backend for every configuration in the grid; at every restart the recovered collection must equal the live one bit-for-bit and the reference map. Bounded-exhaustive, no sampling.",
        note="Trusted: the reference map, kvshim's logical REALTIME clock (only makes file ids distinct), tmpfs as the file system. Bounds: ids {1,2}, 3 vectors, depth 5 (quick) / 6 (thorough).",
    ),
}

CHECKS["C01"] = dict(
    engine="crashmc", category="fault_enumeration", design_ref="DESIGN.md 3.1",
    technique="exhaustive crash-state enumeration: every history h.o up to a depth bound, o's file-system effects recorded by an LD_PRELOAD shim, every effect-prefix (kill), torn write prefix, power-loss loss pattern and crash-inside-recovery state materialised and recovered with the real engine, compared with the reference map of acknowledged operations",
    text="For every configuration in a small grid and every history of length <= depth over a 9-letter alphabet (plus the very first open), the last operation runs under kvshim recording and every crash state of it is enumerated: kill after each effect prefix, all torn prefixes of the next write, every combination of per-file / per-directory unsynced-suffix loss (power loss, fsync=always), and a second-level crash at every effect boundary inside the recovery itself; each state is recovered by the real strict start-up path and must yield model(acked) or model(acked+in-flight). The periodic-fsync clause is decided the same way under a logical clock on (gap, op) histories. Bounded-exhaustive; caps are reported.",
    note="Trusted: kvshim's interposition covers every mutating fs call of the engine (open/write/fsync/fdatasync/ftruncate/rename/unlink), the power-loss model stated in the property, the in-harness copy of the server's recover-or-fresh decision, tmpfs. Bounds: depth 3 quick / 4 thorough, ids {1,2}, 4-8 configurations. Known findings (partial batch delete, periodic idle tail never flushed) are listed in known_findings.txt.",
)

CHECKS["C03"] = dict(
    engine="crashmc", category="fault_enumeration", design_ref="DESIGN.md 3.3",
    technique="exhaustive single (and, thorough, double) fault injection at the libc boundary: for every prefix history and write op, the n-th fs call x errno x short-write length, plus every invalid-input class; live and recovered state compared with the reference map",
    text="For every configuration, every prefix history up to the depth bound and every write operation, a fault-free run counts the file-system calls the operation issues under the data directory; then every call index x errno {ENOSPC,EIO,EDQUOT,EINTR,EACCES} is failed in turn, every write is additionally shortened with the continuation failing, and (thorough) a second fault is placed 1..6 calls after the first so that it lands in the engine's own rollback/retry. Every invalid-input class (wrong dimension, zero, NaN, +-Inf, overflow, f32::MAX, subnormal, tiny, index full) is applied to new and existing ids. After each call: Err => live and recovered collection equal the pre-call state; Ok => equal the model after the call; a follow-up valid write obeys the same oracle.",
    note="Trusted: kvshim's fault injection (errno / short count returned at the libc symbol), logical clock for retry back-off, tmpfs. Write paths covered: HnswBackend insert/delete/batch_delete/update_metadata/create_snapshot (TieredEngine and server paths are covered by C15's refused-input checks). Bounds: prefix depth 2 quick / 3 thorough.",
)
CHECKS["C13"] = dict(
    engine="crashmc", category="fault_enumeration", design_ref="DESIGN.md 3.13",
    technique="complete single-fault enumeration over clean-shutdown data directories: every file x (every bit flip, every truncation length, deletion), each recovered with strict HnswBackend::recover",
    text="Clean-shutdown directories are produced by a fixed list of histories (several sessions, two snapshots, rotated and compacted segments). Files are a few hundred bytes, so the single-fault space is enumerated completely: every bit of every byte, every truncation length, and deletion, for MANIFEST, every snapshot and every WAL segment. Strict recovery must refuse or reproduce the pre-damage dump exactly; outcomes on the newest segment that equal a plain truncation of that segment are the excluded torn-tail case. Faults on which start-up aborts or panics are counted as refusals.",
    note="Trusted: the directories are representative (a fixed list of seven shapes incl. a wide-vector one, the same in both tiers), single faults only. Findings are signed by (file role, fault kind, structural field, symptom); known findings in known_findings.txt (torn-tail tolerance on non-newest segments, MANIFEST without checksum).",
)

CHECKS["C04"] = dict(
    engine="seqmc", category="model_checking", design_ref="DESIGN.md 3.4",
    technique="explicit enumeration of all TieredEngine operation histories up to a depth bound x cache-strategy/capacity grid, including adversarial pokes; after every step every read flavour is compared with a reference map",
    text="All histories of length <= depth over a 20-letter alphabet (insert/overwrite/delete/batch delete/metadata merge+replace/bulk load that bypasses the hot tier/forced and threshold drain/one background-task tick on a paused clock/two searches/seven adversarial pokes planting stale, same-version-different-payload and token-mismatching entries in L1a and the hot tier) are run on the real TieredEngine for each configuration (LRU, learned, learned+semantic, A/B x L1a capacity x hot-tier soft/hard limits). After every step query, get_document_with_metadata, get_embedding_cache_aware, get_metadata, exists and bulk_query (with and without embeddings) are issued for every id and must equal the reference map; drains and ticks must leave the canonical store unchanged.",
    note="Trusted: reference map; pokes use the public CacheStrategy/HotTier handles. Bounds: ids {1,2,3}, depth 3 quick / 4 thorough, 8 / 48 configurations. Known finding: drain 'repairs' a hot-only mirror into the canonical store.",
)
CHECKS["C20"] = dict(
    engine="seqmc", category="model_checking", design_ref="DESIGN.md 3.20",
    technique="same exhaustive history x configuration exploration as C04 with a size-bound invariant evaluated after every operation",
    text="On every state reached by the C04 exploration (capacities {1,2,8}, hard limits {1,2,4,8}, all four strategies) the document cache never exceeds its capacity (sum of both halves for A/B), the query-result cache never exceeds its capacity, and the hot tier never exceeds its hard limit when an insert has just returned; evicted/drained content staying readable is the C04 read oracle evaluated in the same run.",
    note="Trusted: size accessors cache_size(), QueryHashCache::len(), HotTier::len(). Same bounds as C04.",
)

CHECKS["C06"] = dict(
    engine="seqmc", category="model_checking", design_ref="DESIGN.md 3.6",
    technique="exhaustive histories x dimension (SIMD tails) x metric x input scale, then every lattice query x k x ef x entry point, against an f64 brute-force oracle",
    text="For every metric, dimension {3,9,17,33} (thorough: 1,3,7,8,9,15,16,17,33) and input scale (unit / un-normalised), all histories of the depth bound over inserts/overwrites/deletes/forced drain of ids 1-3, plus a 95 %-tombstone history and its continuation through tombstone compaction, are executed; after each, every lattice query x k {1,2,(3),1000} x ef {default,1,10000} goes through knn_search, knn_search_batch, HnswBackend::knn_search and knn_search_with_timeouts. Each answer must have <= k distinct live documents, true distances (f64 reference, 1e-4 relative), non-decreasing order, and contain every live recent-write-tier document strictly closer than the k-th result.",
    note="Trusted: f64 brute force; alphabet vectors avoid the engine's [0.98,1.02] pass-through band. Collections <= 40 documents. Degraded timed responses are only checked for soundness.",
)
CHECKS["C11"] = dict(
    engine="seqmc", category="model_checking", design_ref="DESIGN.md 3.11",
    technique="exhaustive small-scope enumeration of filter trees x value classes x metadata histories against an independent reference evaluator",
    text="(A) every filter tree of depth <= 2 over all leaves (Exact / In / Range with four operators and missing bound over 16 value classes incl. +-0, +-inf, NaN, '+1', ' 1', '', non-ASCII, 300 chars; empty forms) - thorough adds depth 3 over representative leaves - on a 17-document collection covering every class, fresh, after maintenance (overwrite/merge/replace/delete/re-insert), after forced tombstone compaction and after snapshot+recovery; (B) all histories up to the depth over three ids with capacity-3 index and restarts, all leaves + representative trees after each step; (C) all TieredEngine histories up to the depth (incl. bulk load bypassing the hot tier) followed by batch_delete_by_metadata_filter: exactly the matching set is removed and its size returned.",
    note="Trusted: the independent reference evaluator (cross-checked against metadata_filter::matches on every (filter, metadata) pair: 0 disagreements). Depth 3 quick / 4 thorough for histories.",
)
CHECKS["C18"] = dict(
    engine="seqmc", category="exploration", design_ref="DESIGN.md 3.18",
    technique="exhaustive configuration matrix (full cross product of the safety-relevant settings x three delivery routes) through the real KyroDbConfig::load + validate against an independent safety predicate",
    text="Every row of environment x fsync x snapshot interval {0,>0} x recovery mode x cache strategy x auth x rate limit x observability auth x fresh-start flag x TLS x bind host (31k rows quick, 84k thorough, plus a second remaining-settings variant) is delivered as TOML file, YAML file and KYRODB__ environment overrides; if load+validate accepts, the independent predicate transcribed from the property must call the row safe, and the three routes must agree. Accepted/rejected counts per environment are reported so the check is visibly not vacuous.",
    note="Trusted: the safety predicate (incl. its notion of loopback). The 'server refuses to start' clause is covered by the real server main() being `load(...)?; validate()?` (exercised by the srvmc real-binary slice when built).",
)
CHECKS["C19"] = dict(
    engine="seqmc", category="model_checking", design_ref="DESIGN.md 3.19",
    technique="exhaustive enumeration of all (clock advance | call) sequences up to a depth on the real RateLimiter under a logical clock, against an exact integer token-bucket model plus an all-window bound",
    text="All 5^depth sequences over {advance 1/4 s, 1 s, 10 s, call t1, call t2} for four (tenant rates, global rate) configurations run on the real RateLimiter with time served by kvshim's logical monotonic clock; every admit decision must equal an exact quarter-token integer model, every sub-window of every trace must satisfy admitted <= capacity + rate*length per tenant and globally, and a refusal by the global limit must leave the tenant's available tokens unchanged.",
    note="Trusted: logical clock (dyadic steps keep the f64 implementation exact), the integer model. Depth 8 quick / 10 thorough. The concurrent clause is decided by schedmc (C19 concurrent section) once registered.",
)

CHECKS["C07"] = dict(
    engine="seqmc", category="model_checking", design_ref="DESIGN.md 3.7",
    technique="exhaustive search/write histories on the real TieredEngine with a fresh-top-k oracle on every cache hit; exhaustive (query, inserted vector, boundary) lattice for the pruning bound; exhaustive k and scope pairs",
    text="(1) all 12^depth histories per metric x dimension {2,33,40} mixing scoped searches with inserts, overwrites that move a document, a new closer document, delete, metadata update, bulk load and drain: every answer whose path is CacheHit must be a valid fresh top-k of the reference map (no deleted document, no pre-overwrite distance, no omitted strictly closer document). (2) for every pair of a {0,1,32,33}-supported lattice in dimension 40 x metric x five cached boundaries straddling the exact distance, an entry the write can affect must be removed by invalidate_for_insert. (3) every ordered k pair and scope pair at three similarity thresholds: never served for a larger k or another scope. (4) store-after-invalidate race: schedmc section.",
    note="Trusted: f64 brute force, similarity threshold 1.0 in part 1 (similarity hits are approximate by design). Depth 4 quick / 5 thorough.",
)

CHECKS["C05"] = dict(
    engine="schedmc", category="model_checking", design_ref="DESIGN.md 3.5",
    technique="stateless preemption-bounded exhaustive schedule exploration (CHESS style) of real engine threads under a controlled scheduler, with a brute-force linearizability checker over the recorded call/return history",
    text="Two- and three-thread programs (writer: insert / delete / overwrite pair / insert-delete / delete-insert; other: point read, read with metadata, bulk read, existence probe, cache-aware read, read pairs, competing writes) run as real OS threads on a fresh TieredEngine from four initial states; the scheduler owns every lock acquisition (parking_lot replaced by pl-shim) and enumerates every schedule with at most 1 (quick) / 2 (thorough) preemptions. Each execution's history is checked per document by brute force against a sequential map, reads with metadata must pair vector and metadata of one write, and a sequential epilogue (reads, forced drain, reads) must equal the final state of some linearization and be unchanged by the drain.",
    note="Trusted: pl-shim lock model, scheduling points = lock acquisitions (atomics not interleaved), the boolean returned by delete and writes that return Err are not constrained (the property speaks about reads). Known finding: drain resurrects a document after insert||delete.",
)
CHECKS["C08"] = dict(
    engine="schedmc", category="model_checking", design_ref="DESIGN.md 3.8",
    technique="stateless preemption-bounded exhaustive schedule exploration of real threads under a writer-preferring RwLock model; deadlock = unfinished threads with none enabled; triples derived from lock-order cycles",
    text="Every unordered pair of a 17-operation TieredEngine catalogue from four initial states, writer pairs/triples on a persistent engine with a full index + tombstone (compaction path) and with a snapshot after every write, and every multiset of three operations of the HotTier / VectorCache / QueryHashCache / LearnedCacheStrategy catalogues are executed as real threads; all schedules with <= 1 (quick) / 2 (thorough) preemptions (2 for component triples) are enumerated; any state in which some thread is unfinished and none is enabled is a deadlock. Single-operation lock traces give the lock-order graph; opposite orders generate extra engine-level triples.",
    note="Trusted: pl-shim's model of parking_lot's RwLock (writer claims the bit, readers queue behind it), scheduling points = lock acquisitions; rayon/tokio helper threads are not scheduled; the Spin stage of the design was not built (triples come from the lock-order graph instead).",
)
CHECKS["C09"] = dict(
    engine="schedmc", category="model_checking", design_ref="DESIGN.md 3.9",
    technique="stateless preemption-bounded exhaustive schedule exploration of writer threads racing snapshot threads on a real persistent HnswBackend; oracle recover(dir) == final live dump",
    text="Programs of one or two writer threads (insert, overwrite, delete, metadata update, batch delete; with automatic snapshot triggers, rotation threshold 1 byte, capacity 3 or 64) against one or two threads calling create_snapshot once or twice; every schedule with <= 1 (quick) / 2 (thorough) preemptions; after all calls returned the live dump is taken, the backend dropped and strict recovery must succeed and reproduce the live dump bit for bit.",
    note="Trusted: pl-shim lock model; the windows inside create_snapshot are delimited by its lock acquisitions (index.read(), manifest_lock).",
)

CHECKS["C10"] = dict(
    engine="srvmc", category="model_checking", design_ref="DESIGN.md 3.10",
    technique="exhaustive enumeration of RPC sequences by two tenants on the real in-process gRPC handlers (kyrodb_server.rs compiled as a module with an appended driver), non-interference decided by a projection differential",
    text="All 46^3 sequences over 23 RPC forms x 2 tenants (Insert incl. spoofed reserved keys and namespaces, BulkInsert, BulkLoadHnsw, Query, BulkQuery, Search with hostile filters naming the other tenant / NOT / OR / legacy filters, BulkSearch, UpdateMetadata incl. replace-with-spoof, Delete, BatchDelete by ids and by match-everything / other-tenant filters, FlushHotTier) with colliding local ids and identical vectors are executed on a fresh server; for each tenant every response must be identical to the response in the run where the other tenant's requests are deleted (found flags, ids, vectors, metadata, counts, total_found, deleted counts), no response may carry a reserved key or a global id, per-tenant /usage must be unaffected, scope=all is refused to non-admins and a request without tenant context is refused.",
    note="Trusted: the driver attaches the TenantContext the API-key interceptor of main() would attach; latency / execution path / flush count are not compared. Known finding: Search/BulkSearch post-filter tenants after the global top-k.",
)
CHECKS["C14"] = dict(
    engine="srvmc", category="model_checking", design_ref="DESIGN.md 3.14",
    technique="exhaustive RPC sequences near the quota limit on the real handlers with the private counter read through the appended child module, plus preemption-bounded exhaustive schedules of concurrent RPC pairs under ksched",
    text="Sequential: all 16^3 (quick) / 16^4 (thorough) sequences of one tenant with max_vectors=2 over Insert new/duplicate/NaN/wrong-dimension, Delete present/absent, BatchDelete with duplicates and by filter, BulkInsert with a rejected item and across the limit, BulkLoadHnsw with an in-batch duplicate and over the limit, UpdateMetadata, FlushHotTier and Restart (persistent engine + start-up recount); after every step counter == live documents of the tenant <= limit and a valid new-id Insert is refused only at the limit. Concurrent: 25 programs of 2-3 RPCs on the same id from three setups, every schedule with <= 1 / 2 preemptions; after join counter == live <= limit.",
    note="Trusted: Restart transcribes main()'s recount; unary handlers run with now_or_never under the scheduler.",
)
CHECKS["C15"] = dict(
    engine="srvmc", category="exploration", design_ref="DESIGN.md 3.15",
    technique="exhaustive boundary-value grid per RPC field, singly and in all streams of length <= 3, on the real handlers of a persistent server and as raw frames through the tower stack (panic containment layer + generated server)",
    text="Per RPC the cross product of per-field boundary lists (vector classes, id classes, k, ef, filter forms incl. 200/201-deep NOT and 10^4-value IN, namespace, metadata incl. reserved-key spoof, batch sizes 0/1/10000/10001) and every BulkInsert / BulkLoadHnsw stream of length <= 3 over nine item classes; an answer must come back within the horizon, a refused request leaves the canonical census unchanged, an accepted one is stored exactly as given, no non-finite vector is ever stored on any write path, a following valid insert succeeds, and the census after restart equals the live one. Every single request plus truncated / mis-sized / corrupted frames also go through the tower stack and must produce a grpc-status.",
    note="Trusted: in-process driver (auth on, one tenant), Restart = TieredEngine::recover. Grid, not all inputs.",
)

CHECKS["C12"] = dict(
    engine="seqmc", category="model_checking", design_ref="DESIGN.md 3.12",
    technique="exhaustive backup/restore histories on the real BackupManager / RestoreManager / recover under a logical clock with virtual mtimes; complete single-byte tampering enumeration; clear-guard matrix; exhaustive retention timelines x policies",
    text="(1) all histories of the depth bound over writes, SNAP, RESTART, FULL and INCREMENTAL backups (rotation threshold 1 byte so snapshots compact segments between backups): every backup taken is restored by id and by point-in-time into an empty directory, recovered, and must equal the reference map as of that backup. (2) for a full+incremental chain every byte of every archive and metadata file is overwritten (two or four patterns) and every truncation tried; restoring over a target with sentinel files and clearing allowed must either be rejected with the target byte-identical or yield the expected collection. (3) non-empty target x allow_clear x BACKUP_ALLOW_CLEAR values x restore route: cleared only with confirmation. (4) every timeline of 2-3 (thorough 4) backups over five age classes x every parent assignment x 32 policies: retained set closed under parent_id, nothing younger than min_age deleted.",
    note="Trusted: kvshim logical clock + virtual mtime (statx), reference map. Known finding: archive member names are not covered by the backup checksum.",
)
CHECKS["C16"] = dict(
    engine="seqmc", category="exploration", design_ref="DESIGN.md 3.16",
    technique="exhaustive enumeration of a fixed grid (family x metric x dimension x size x build route) with fixed seeds against an f64 brute force",
    text="For every cell of the fixed grid (9 cells at size 500 quick; 108 cells up to 5000 vectors thorough) the same live set is reached by four routes (online inserts, bulk build, 60 % delete + forced tombstone compaction, snapshot + recovery rebuild); 200 queries each: recall@10 >= 0.80 per route, route difference <= 0.10, and every query repeated from another thread returns bit-identical distances and the same documents outside exact ties. The build is deterministic, so the numbers are reproducible.",
    note="This is a complete enumeration of a FIXED grid with FIXED seeds; it says nothing about recall on other datasets (no bounded exhaustive space implies a statistical floor). Weakest fit of the technique, stated as such.",
)
CHECKS["C17"] = dict(
    engine="membound", category="exploration", design_ref="DESIGN.md 3.17",
    technique="exhaustive kernel x function x length x offset grid and all bounded index operation sequences executed on the real code under AddressSanitizer with std ub_checks",
    text="Every available ISA kernel (scalar, SSE2, AVX2+FMA, AVX-512F, plus the dispatched entry points; private kernels reached by compiling simd.rs with an appended child module) x {dot, sum_squares, l2_sq, dot_and_norms} x length 0..130 x start offset 0..3 on exact-size heap buffers, and every operation sequence of depth 4 (thorough 6) over {add, add duplicate vector, add duplicate id, search, search with k=ef=10000, pre-cancelled search} x dim {1,3,(8),17,130} x M x capacity x metric on HnswVectorIndex, plus HnswBackend runs with overwrites, deletes, forced tombstone compaction, batch search and free-running readers; all compiled with -Zsanitizer=address and debug assertions. Any sanitizer report, ub_check abort or kernel/scalar mismatch is a violation.",
    note="Trusted: AddressSanitizer + ub_checks as oracle. Cancellation is enumerated at the engine's own cancellation checks through the kyrodb_verif hook; concurrent readers are free-running (not exhaustive), under ASan and in the separate ThreadSanitizer pass.",
)


# Additions made while the checks were strengthened against seeded changes (see DESIGN.md section 6).
ADDENDA = {
    "C01": "Server level: the REAL server binary (srvmc re-executed as kyrodb_server main()) runs under kvshim kill mode on an empty directory while a client drives a 7-operation write history over gRPC (snapshot every 2 mutations, 300-byte rotation); for n = 1, 2, ... until a run survives, the process dies right before its n-th file-system call under the data directory (second pass: after writing half of it when it is a write); the real binary is then restarted on what is left and must serve the acknowledged operations (+ optionally the one in flight); it is also killed during that start-up before its k-th call for every k, and the next start-up must serve the same collection.",
    "C12": "Two large-member histories (dimension 64, 400-550 documents, with and without rotation: files of 100-250 KiB, several 64 KiB archive chunks) are backed up (full, incrementals across a snapshot, sibling incremental) and every backup restored by id and by point in time. The tamper part restores each altered backup set by id AND through the point-in-time path.",
    "C11": "18 value classes incl. a 300-byte string and two numeric literals longer than 32 bytes.",
    "C03": "The quick tier includes the capacity-3 configuration (index-full refusals incl. overwrite / update / delete at capacity, with and without a tombstone) and cosine with hnsw.disable_normalization_check = true. A 300-document batch delete (appended frame by frame) is put under a fault at every one of its file-system calls and under mid-batch short writes: a failed call must leave none of its delete records behind.",
    "C02": "Numeric-grid section: metric x dim {2,3,8,17,48} x two persistence configurations, a fixed lattice of un-normalised vectors over seven magnitudes with signed-zero components, restart mid-way (WAL replay), snapshot, two restarts, overwrites, restart; every restart compares live and recovered dumps bit for bit.",
    "C04": "Each history is run twice: reading after every step and 'quiet' (reads only after the last step, every length 2..depth), because a read scrubs the stale copy it finds; the alphabet includes empty-metadata bulk load / overwrite / replace. Every quiet history that contains an adversarial poke is replayed four more times with get_document_with_metadata / get_embedding_cache_aware / get_metadata / bulk_query as the FIRST reader of every id (the battery otherwise starts with query, which scrubs what it finds). The grid includes tiny-index configurations (hnsw capacity 3: every few writes run tombstone compaction under whatever the caches and the recent-write tier still hold) and hard limits below the soft drain threshold.",
    "C20": "A dedicated query-result-cache section enumerates all histories of depth 5 (6) over five distinct queries, boundary-crossing inserts, overwrite, delete and drain for capacity {1,2} x two metrics. The grid includes tiny-index configurations (tombstone compaction every few writes) and configurations whose hard limit lies below the soft drain threshold.",
    "C05": "Compaction family: from a full index with a tombstone in slot 0, an insert of a new id (tombstone compaction renumbers internal ids) races reads / delete / overwrite / metadata update of id 1 in both thread orders with <= 2 preemptions. Server level: Query (with embedding) and BulkQuery through the real in-process gRPC handlers x four writer programs x three initial states, every schedule with <= 2 (3) preemptions: the vector and the metadata of one response belong to the same write. The server-level slice also starts from the state where id 1 is absent and runs with and without authentication (64 programs).",
    "C06": "Alphabet includes bulk loads that bypass the recent-write tier. Because a search that meets a stale mirror scrubs it, each history is replayed on three more fresh engines whose queries (k=1000 first) go through one entry point only (first-touch pass). Large-batch section: batch sizes 33, 71, chunk+1 and 3*chunk+7 (chunk = the cold tier's max(32, 8 x rayon threads) queries per lock hold) through TieredEngine and HnswBackend batch search; every item is sound for ITS query and carries the distances of a single search for it. Concurrent slice (beyond the sequential quantifier): one searcher (knn_search, knn_search_batch, HnswBackend::knn_search, HnswBackend::knn_search_batch) x one writer whose insert / overwrite hits a full capacity-3 index with a tombstone in slot 0 and so runs tombstone compaction, every schedule with <= 2 (3) preemptions under ksched; every returned (document, distance) pair must be the true distance to a version of that document that existed during the race.",
    "C07": "Histories start from the empty state and from two populated states. Part 4: the store-after-invalidate race — one searcher x one or two writers from populated states, every schedule with <= 2 (3) preemptions under the ksched scheduler; after join a repeated search served from the cache must be a valid fresh top-k of the engine's canonical store. Part 5: with the cold tier circuit breaker open (three rejected requests) a timed search answers from the recent-write tier alone; that degraded answer must not be stored: the sync and batch paths are asked next and a cache hit must be a valid fresh top-k (3 metrics x k 1..3 x near / far recent write).",
    "C08": "The catalogue has 24 operations incl. delete-by-filter / ids_for_metadata_filter through the index path and through the reference-matcher scan fallback, and delete by closure. Learned worlds carry the production access logger; the catalogue adds one predictor-training cycle (body of the training task's loop on the real objects), log_served_search_accesses and the non-forced flush.",
    "C09": "Tombstone-compaction family: a capacity-3 index that is full with a tombstone in slot 0, insert of a new id (runs compact_tombstones) racing delete / metadata update / overwrite / batch delete / snapshot in both thread orders with <= 2 preemptions; the live collection must equal the outcome of some serial order of the acknowledged writes, and strict recovery must reproduce it.",
    "C13": "Server level: the REAL server binary (srvmc re-executed as kyrodb_server's main()) produces the directory over gRPC + SIGTERM, then is started on every single-fault copy (file x deletion / truncation to 0 and half / bit flip first, middle, last byte): it must exit before its port opens or serve exactly the pre-damage collection. Every directory shape runs in both tiers, each built from the same logical instant; a wide-vector directory has a snapshot and a non-newest WAL segment larger than the readers' 8 KiB buffers (quick: every bit / length in the refill windows and at both file ends, a stride elsewhere; thorough: every bit and length).",
    "C14": "Request-shape section: every id list of length <= 3 over {1,2,3,absent} (all adjacent / non-adjacent repeat patterns) as BatchDelete(ids), BulkInsert and BulkLoadHnsw from every population of <= 3 documents with max_vectors = 3, followed by a refill that probes the limit. Server level: through the REAL binary a tenant at max_vectors is refused, may overwrite, is admitted after one delete and refused again, on first boot and after each of two restarts (main()'s start-up recount).",
    "C10": "Server level: the REAL binary with authentication on — {no key, unknown, disabled, empty, Bearer unknown} x 9 RPCs must be UNAUTHENTICATED and change nothing; two tenants (one with two keys) using identical local ids and vectors see only their own documents through Query / BulkQuery / Search on first boot and after two restarts, with a tenant added to the key file in between (interceptor, persistent tenant map). Namespace section: one tenant, all sequences of depth 3 (4) over 16 write letters that move ids between namespaces while spoofing __namespace__ / __tenant_idx__ through every write RPC (UpdateMetadata on documents with and without a namespace) and selector-carrying updates / deletes; after every step Query, BulkQuery and Search under four selectors are compared with a reference model of document namespaces. The RPC alphabet includes an Insert with a tenant-local id of 2^32 + 1 (must be refused as out of range; added to the tenant base it would land in the next tenant id range).",
    "C15": "14 structurally malformed filters are sent bare as BatchDelete{filter}: answered; refused => unchanged; accepted => only documents the engine's reference matcher selects are removed; census after restart equals the live one. Streams include refused rows on the id of a valid row, with the acknowledged-rows oracle (the count the response reports must be the number of rows that explain the collection); long BulkSearch streams (127..300 requests, one wrong-dimension request at the 128-request batch boundary): n answers, answer i belongs to request i; the repeats section carries the most heavily oversampled filter shapes (NOT, IN(8), OR(4), range) at k 501 / 999 / 1000.",
    "C16": "Data, deleted fillers and queries come from one pool (same distribution); tight cluster-major family above the 1024-vector exhaustive-ef regime; the online route inserts in a shuffled arrival order; the heavy-delete route is also measured BEFORE compaction with 30 / 45 / 60 % of the slots tombstoned (held to the 0.80 floor only). Determinism after a cancelled search: with the --cfg kyrodb_verif hook every cancellation point of every search of a small index grid is enumerated; the same query repeated twice right after the cancelled search must return exactly the baseline answer.",
    "C17": "Cancellation at every cancellation point (hook-enumerated) under AddressSanitizer. Free-running ThreadSanitizer pass (instrumented std) over HnswBackend / TieredEngine scenarios as a complementary, non-exhaustive detector. Batch shapes: every row-length pattern of <= 3 rows over {dim, dim-1, dim+1, 0} (and a NaN row) through parallel_insert_batch on an empty and a non-empty index, followed by well-formed searches. Batches at / above the 100-row construction threshold with one malformed row at head / middle / tail. The ThreadSanitizer pass runs with suppressions for crossbeam-deque's documented push / steal race and a report counts only if one of five immediate reruns shows the same site.",
    "C18": "On the one-step frontier (rows that are safe or violate exactly one condition) every single deviation of a remaining setting (65 deviations covering all other configuration fields, incl. http_host loopback / non-loopback) x three routes; every row additionally as environment overrides on top of the four configuration templates shipped in the repository. Server level: the REAL binary launched per (environment, violated condition) x route must exit non-zero before its port opens; safe baselines must start.",
    "C19": "Concurrent clause: 342 programs (6 configurations x 3 warm-up prefixes x 19 thread shapes of 2-3 callers) on the real RateLimiter, every schedule with <= 2 (3) preemptions under ksched; after join admitted <= burst + rate x measured interval per tenant and globally, tokens left in every bucket equal capacity - admitted up to the refill the interval allows, and a refused call implies an exhausted budget. Server level: the REAL binary with authentication and rate limiting on (server default max_qps_per_connection 5, global 1000) takes 40 back-to-back Query calls from three tenants (explicit max_qps 5; max_qps 0 = server default, twice), twice with an idle 1.3 s in between, the interval measured around each burst on the caller clock: admitted <= burst + rate x interval + 1, and the first request of an idle tenant is admitted.",
}
TECH_ADD = {
    "C07": "; plus preemption-bounded exhaustive schedule exploration (ksched) of search || write for the store-after-invalidate race",
    "C13": "; plus the same single-fault classes through the real server binary's start-up on directories the real server produced",
    "C18": "; plus one-step remaining-setting deviations, shipped templates + environment route, and the real binary's exit status per violated condition",
    "C19": "; plus preemption-bounded exhaustive schedule exploration (ksched) of 2-3 concurrent callers with exact budget accounting",
    "C09": "; live collection checked against all serial orders of the acknowledged writes",
}
for _k, _v in ADDENDA.items():
    CHECKS[_k]["text"] += " " + _v
for _k, _v in TECH_ADD.items():
    CHECKS[_k]["technique"] += _v
CHECKS["C19"]["note"] = CHECKS["C19"]["note"].replace(" The concurrent clause is decided by schedmc (C19 concurrent section) once registered.", " The concurrent section runs on the real monotonic clock with bounds that use the measured interval.")
CHECKS["C18"]["note"] = CHECKS["C18"]["note"].replace("The 'server refuses to start' clause is covered by the real server main() being `load(...)?; validate()?` (exercised by the srvmc real-binary slice when built).", "'Refuses to start' = the real binary exits non-zero before its gRPC port accepts a connection.")

# properties not claimed (yet): id -> reason
NOT_APPLICABLE = {}

ENGINES = {
    "seqmc": ("harness/seqmc", "exhaustive enumeration of operation histories x configuration grids on the real engine against reference models"),
    "crashmc": ("harness/crashmc", "exhaustive crash-point / power-loss / single-fault enumeration over file-system effect logs recorded by the kvshim LD_PRELOAD shim, recovered with the real engine"),
    "schedmc": ("harness/schedmc", "stateless preemption-bounded exploration of real engine threads under the ksched scheduler (parking_lot replaced by pl-shim)"),
    "srvmc": ("harness/srvmc", "the real gRPC handlers compiled in-process (kyrodb_server.rs included as a module) driven by exhaustive RPC sequences; re-executed with SRVMC_AS_SERVER=1 it is the real server binary for the C13/C18 server-level slices"),
    "membound": ("membound", "exhaustive kernel x length x offset grid and bounded index op sequences under AddressSanitizer"),
}


def main():
    checks = []
    for pid in PROPS:
        c = CHECKS.get(pid)
        if not c:
            continue
        entry = {
            "property_id": pid,
            "quick_cmd": f"bin/check {pid} quick",
            "thorough_cmd": f"bin/check {pid} thorough",
            "evidence_file": f"evidence/{pid}.json",
            "replay_cmd_template": f"bin/check {pid} --replay {{path}}",
            "engine": c["engine"],
            "technique": c["technique"],
            "level_claimed": {"category": c["category"], "text": c["text"], "design_ref": c["design_ref"]},
            "level_note": c["note"],
        }
        checks.append(entry)
    na = []
    for pid in PROPS:
        if pid in CHECKS:
            continue
        reason = NOT_APPLICABLE.get(pid, "check not built yet (work in progress; DESIGN.md describes the planned bounded-exhaustive check)")
        na.append({"property_id": pid, "reason": reason})
    used = sorted({c["engine"] for c in CHECKS.values()})
    engines = []
    for e in used:
        path, kind = ENGINES[e]
        engines.append({"name": e, "path": path, "serves_properties": [p for p in PROPS if p in CHECKS and CHECKS[p]["engine"] == e], "kind_free_text": kind})
    hooks_commits = []
    try:
        hooks_commits = [l.strip() for l in open('/verif/hook_commits.txt') if l.strip() and not l.startswith('#')]
    except FileNotFoundError:
        pass
    m = {
        "version": 1,
        "setup_cmd": "bin/setup",
        "hooks": {
            "guard": "kyrodb_verif",
            "enable": "--cfg kyrodb_verif (set in /verif/membound/.cargo/config.toml rustflags, the AddressSanitizer workspace): compiles engine/src/verif_hooks.rs and the guarded call in ann_backend::cancellation_requested(), which lets the harness raise a search's cancellation flag at its n-th cancellation point (C17 'cancellation at any point', C16 determinism after a cancelled search). Everything else needs no source hook: parking_lot is replaced through [patch.crates-io] in /verif/harness (pl-shim), the server binary is compiled in-process by build.rs inclusion, and file system / clock / randomness are owned by the LD_PRELOAD shim /verif/shim/kvshim.so",
            "baseline_off_cmd": "cd /repo && cargo test --workspace --no-fail-fast --offline",
            "source_commits": hooks_commits,
            "add_only": True,
        },
        "engines": engines,
        "checks": checks,
        "not_applicable": na,
        "notes": "bin/check <ID> <tier> rebuilds the harness workspace (path dependency on /repo/engine, so the current working tree is what is explored) and runs the deciding engine. Exit 0 held / 1 VIOLATION / 2 machinery error. Known findings: known_findings.txt.",
    }
    json.dump(m, open('/verif/MANIFEST.json', 'w'), indent=1)
    print("MANIFEST.json written:", len(checks), "checks,", len(na), "not claimed")


if __name__ == "__main__":
    main()
