#!/usr/bin/env python3
"""C17 driver: builds /verif/membound with AddressSanitizer (nightly) against /repo's working tree
and runs the kernel grid and the bounded index operation sequences. A sanitizer report, an abort
(ub_checks / debug assertion) or a kernel-vs-scalar mismatch is a violation."""
import json, os, subprocess, sys, time

def run_retry(cmd, **kw):
    """subprocess.run, retrying while the binary is momentarily missing / being written by a
    concurrent build of the same workspace (bin/check C16 also builds membound-idx)."""
    t0 = time.time()
    while True:
        try:
            return subprocess.run(cmd, **kw)
        except (FileNotFoundError, OSError) as ex:
            if time.time() - t0 > 30 or (not isinstance(ex, FileNotFoundError) and getattr(ex, "errno", 0) != 26):
                raise
            time.sleep(0.2)

def main():
    tier = sys.argv[1] if len(sys.argv) > 1 else os.environ.get("VERIF_TIER", "quick")
    if "--replay" in sys.argv:
        print("C17 replay: the saved sanitizer report names the kernel / sequence; re-run bin/check C17")
        return 0
    t0 = time.time()
    env = dict(os.environ)
    for k in ("LD_PRELOAD", "KVSHIM_CLOCK", "KVSHIM_RAND"):
        env.pop(k, None)
    env["CARGO_NET_OFFLINE"] = "true"
    b = subprocess.run(["cargo", "+nightly", "build", "--release", "--offline", "-p", "membound-kern", "-p", "membound-idx"],
                       cwd="/verif/membound", env=env, capture_output=True, text=True)
    if b.returncode != 0:
        sys.stderr.write("C17: ASan build failed (machinery error)\n" + b.stderr[-3000:])
        return 2
    bindir = "/verif/target-asan/x86_64-unknown-linux-gnu/release"
    env["ASAN_OPTIONS"] = "detect_leaks=0:abort_on_error=0:halt_on_error=1"
    runs = []
    kenv = dict(env); kenv["MEMBOUND_MAX_LEN"] = "130" if tier != "thorough" else "260"
    runs.append(("kernels", [bindir + "/membound-kern"], kenv))
    ienv = dict(env); ienv["MEMBOUND_DEPTH"] = "4" if tier != "thorough" else "6"
    if tier == "thorough":
        ienv["MEMBOUND_THOROUGH"] = "1"
    runs.append(("index", [bindir + "/membound-idx"], ienv))
    # complementary free-running ThreadSanitizer pass (instrumented std via -Zbuild-std)
    tb = subprocess.run(["cargo", "+nightly", "build", "--release", "--offline"], cwd="/verif/racecheck", env={k: v for k, v in env.items() if k != "ASAN_OPTIONS"}, capture_output=True, text=True)
    if tb.returncode != 0:
        sys.stderr.write("C17: TSan build failed (machinery error)\n" + tb.stderr[-3000:])
        return 2
    tenv = dict(env); tenv.pop("ASAN_OPTIONS", None)
    tenv["TSAN_OPTIONS"] = "halt_on_error=0 report_signal_unsafe=0 suppressions=/verif/racecheck/tsan.supp"
    tenv["RACECHECK_ROUNDS"] = "600" if tier != "thorough" else "6000"
    runs.append(("tsan", ["/verif/target-tsan/x86_64-unknown-linux-gnu/release/racecheck"], tenv))
    results = {}
    violations = []
    unreproduced = []
    def tsan_sites(stderr):
        return sorted(set(l.split("ThreadSanitizer: ", 1)[1].strip() for l in stderr.splitlines() if l.startswith("SUMMARY: ThreadSanitizer: ")))
    for name, cmd, e in runs:
        r = run_retry(cmd, env=e, capture_output=True, text=True)
        if name == "tsan" and "WARNING: ThreadSanitizer" in r.stderr and "panicked at" not in r.stderr:
            # A free-running pass has no schedule to replay, so "the same schedule fails every time"
            # becomes: the same race site must show up again. The scenarios hammer the same few
            # objects from 7 threads for hundreds of rounds, so a real race recurs in nearly every
            # run; a report that five further runs do not repeat is kept in the evidence file (full
            # text under replays/) but is not a verdict.
            first = r
            sites = set(tsan_sites(first.stderr))
            again = None
            for _ in range(5):
                r2 = run_retry(cmd, env=e, capture_output=True, text=True)
                if sites & set(tsan_sites(r2.stderr)) or "panicked at" in r2.stderr or (r2.returncode not in (0, 66)):
                    again = r2
                    break
            if again is None:
                repdir0 = os.environ.get("VERIF_REPLAY_DIR", "/verif/replays")
                os.makedirs(repdir0, exist_ok=True)
                path0 = f"{repdir0}/C17_tsan_unreproduced_{int(time.time())}.txt"
                open(path0, "w").write(first.stderr[:400000])
                unreproduced.append({"sites": sorted(sites), "full_report": path0, "reruns_without_it": 5})
                r = subprocess.CompletedProcess(cmd, 0, first.stdout, "")
            else:
                r = again
        out = r.stdout.strip().splitlines()
        try:
            results[name] = json.loads(out[-1]) if out else {}
        except Exception:
            results[name] = {}
        if r.returncode != 0 or "AddressSanitizer" in r.stderr or "ThreadSanitizer" in r.stderr or "unsafe precondition" in r.stderr:
            kind = "tsan-data-race" if "ThreadSanitizer" in r.stderr else "panic" if (name == "tsan" and "panicked at" in r.stderr) else "asan-report" if "AddressSanitizer" in r.stderr else ("ub-check-abort" if "unsafe precondition" in r.stderr else ("kernel-mismatch" if results[name].get("mismatches") else "abnormal-exit"))
            # structural signature: first frame inside the engine sources
            frame = ""
            for line in r.stderr.splitlines():
                if "/repo/engine/src/" in line or "gen/simd.rs" in line:
                    frame = line.strip().split(" in ")[-1][:120]
                    break
            violations.append((f"C17|{name}|{kind}", {"engine": "membound", "check": "C17", "part": name, "exit": r.returncode, "first_engine_frame": frame, "stderr_head": r.stderr[:12000], "stderr_tail": r.stderr[-4000:], "stdout": r.stdout[-500:]}))
    # report
    known = {}
    try:
        for line in open(os.environ.get("VERIF_KNOWN_FINDINGS", "/verif/known_findings.txt")):
            line = line.strip()
            if line.startswith("known:") and "property=C17" in line:
                head, _, what = line[6:].partition("::")
                for tok in head.split():
                    if tok.startswith("signature="):
                        known[tok[10:]] = what.strip()
    except FileNotFoundError:
        pass
    rc = 0
    nviol = 0
    repdir = os.environ.get("VERIF_REPLAY_DIR", "/verif/replays")
    os.makedirs(repdir, exist_ok=True)
    for i, (sig, case) in enumerate(violations):
        if sig in known:
            print(f"KNOWN-FINDING: property=C17 {sig} :: {known[sig]}")
            continue
        nviol += 1
        path = f"{repdir}/C17_{i}.json"
        json.dump({"property": "C17", "signature": sig, "case": case}, open(path, "w"), indent=1)
        print(f"VIOLATION property=C17 replay={path}")
        rc = 1
    k = results.get("kernels", {}); ix = results.get("index", {})
    evaluations = int(k.get("calls", 0)) + int(ix.get("calls", 0))
    ev = {
        "property_id": "C17", "tier": "thorough" if tier == "thorough" else "quick", "seed": int(os.environ.get("VERIF_SEED", "0") or 0),
        "level": "exploration",
        "coverage": {
            "evaluations": evaluations,
            "distinct_nontrivial": int(ix.get("sequences", 0)) + len(k.get("isas", [])) * (int(k.get("max_len", 0)) + 1) * 4,
            "rule": "kernels: every available ISA (scalar, SSE2, AVX2+FMA, AVX-512F where the CPU has it, plus the runtime-dispatched entry points) x {dot, sum_squares, l2_sq, dot_and_norms} x length 0..max_len x start offset 0..3 on exact-size heap buffers, compared with the scalar kernel; index: every operation sequence of the depth bound over {add, add duplicate vector, add duplicate id, search, search with k=ef=10000, pre-cancelled search} x dim x M x capacity x metric on HnswVectorIndex; every row-length pattern of <= 3 rows over {dim, dim-1, dim+1, 0} (and a NaN row) through parallel_insert_batch on an empty and a non-empty index followed by well-formed searches; cancellation at EVERY cancellation point of every search of a (dim, metric, size, k/ef) grid, enumerated with the --cfg kyrodb_verif hook (the n-th cancellation check raises the caller's flag), each cancelled search followed by two uncancelled repeats; plus HnswBackend runs with overwrites, deletes, forced tombstone compaction, batch search and free-running concurrent readers; everything compiled with -Zsanitizer=address and debug assertions (std ub_checks); distinct_nontrivial = index sequences + (ISA x length x offset) kernel points",
            "samples": [{"kernel": "avx2+fma dot len=33 off=1"}, {"index_sequence": ["Add", "AddDupVec", "SearchBigK", "AddDupId"], "dim": 17, "M": 5, "capacity": 2}],
            "exhaustive": True,
            "kernels": k, "index": ix,
            "tsan_free_running_pass": dict(results.get("tsan", {}), reports_not_reproduced_by_five_reruns=unreproduced, suppressions="crossbeam-deque push/steal (the Chase-Lev deque's documented benign race inside rayon; racecheck/tsan.supp)", note="complementary detector, NOT exhaustive: 7 free-running threads per scenario (writers incl. tombstone compaction on tiny capacities, searches, point / bulk / filtered reads, snapshots, drains) on HnswBackend (with and without persistence) and TieredEngine with the production parking_lot, compiled with -Zsanitizer=thread and an instrumented std; schedules are whatever the OS produces. It backs the assumption of the lock-granularity schedule explorers (C05/C07/C08/C09/C14/C19) that no shared memory is touched outside a lock"),
        },
        "assumptions": ["AddressSanitizer + std ub_checks are the oracle: an out-of-bounds, use-after-free or violated unsafe precondition aborts the run; reads of initialised-but-wrong in-bounds memory are not detected",
                        "cancellation points are the engine's own checks (cancellation_requested); the hook raises the flag AT a check, which is where another thread's store would become visible; concurrent readers run free (not exhaustive) — under ASan in the index part and under ThreadSanitizer in the separate free-running pass",
                        "the engine's own SIMD dispatch picks the best ISA of this CPU; the other ISAs are reached through the appended child module of simd.rs"],
        "wall_s": time.time() - t0, "violations": nviol,
    }
    evdir = os.environ.get("VERIF_EVIDENCE_DIR", "/verif/evidence")
    os.makedirs(evdir, exist_ok=True)
    json.dump(ev, open(f"{evdir}/C17.json", "w"), indent=1)
    print(f"C17 {tier}: kernel_calls={k.get('calls')} isas={k.get('isas')} index_sequences={ix.get('sequences')} index_calls={ix.get('calls')} violations={nviol}")
    return rc

if __name__ == "__main__":
    sys.exit(main())
