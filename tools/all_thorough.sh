#!/bin/bash
# Runs every thorough tier sequentially (hours). Usage: tools/all_thorough.sh [ids...]
cd "$(dirname "$0")/.."
IDS="${@:-C02 C01 C03 C13 C05 C08 C09 C10 C14 C15 C11 C12 C18 C19 C07 C06 C04 C20 C16 C17}"
for id in $IDS; do
  t0=$(date +%s)
  out=$(timeout 4h bin/check $id thorough 2>&1); rc=$?
  t1=$(date +%s)
  echo "THOROUGH $id rc=$rc secs=$((t1-t0)) :: $(echo "$out" | grep -v '^KNOWN' | tail -1 | cut -c1-260)"
  echo "$out" | grep -E "^VIOLATION|machinery" | head -5
done
