// kvshim: LD_PRELOAD shim that lets the verification harness own the file system effects,
// the clock and the randomness of a process running the unmodified KyroDB engine.
//
//  * effect log     : one record per completed file-system effect under a configured root
//  * fault injection: fail / shorten the n-th matching call (two independent slots)
//  * logical clock  : CLOCK_REALTIME and/or CLOCK_MONOTONIC served from a counter
//  * deterministic getrandom
//
// All forwarding uses raw syscalls, so nothing here re-enters an interposed symbol.
#define _GNU_SOURCE
#include <dirent.h>
#include <errno.h>
#include <fcntl.h>
#include <pthread.h>
#include <stdarg.h>
#include <stdint.h>
#include <stdio.h>
#include <stdlib.h>
#include <string.h>
#include <sys/stat.h>
#include <sys/syscall.h>
#include <sys/types.h>
#include <sys/uio.h>
#include <time.h>
#include <unistd.h>

enum {
  K_CREATE = 1,
  K_TRUNC_OPEN = 2,
  K_WRITE = 3,
  K_FSYNC = 4,
  K_FDATASYNC = 5,
  K_FTRUNCATE = 6,
  K_RENAME = 7,
  K_UNLINK = 8,
  K_MKDIR = 9,
  K_FSYNC_DIR = 10,
  K_RMDIR = 11,
};

// fault classes (bit mask)
enum {
  C_WRITE = 1,
  C_FSYNC = 2,
  C_FDATASYNC = 4,
  C_FTRUNCATE = 8,
  C_RENAME = 16,
  C_OPEN = 32,
  C_UNLINK = 64,
  C_MKDIR = 128,
  C_FSYNC_DIR = 256,
};

static pthread_mutex_t g_mu = PTHREAD_MUTEX_INITIALIZER;
static char g_root[4096];
static size_t g_root_len = 0;
static int g_log_on = 0;
static uint8_t *g_log = NULL;
static size_t g_log_len = 0, g_log_cap = 0;
static uint64_t g_seq = 0;

struct fault {
  int armed;
  int classes;
  long nth;  // fires when the countdown reaches 1
  int err;
  long short_len;  // >=0: write only this many bytes and report a short write (no error)
  int fired;
  int fired_class;
};
static struct fault g_fault[2];
static long g_class_calls = 0;  // calls under root matching g_count_classes since last clear
#define TRACE_CAP 8192
static int g_call_trace[TRACE_CAP];  // class of every fault_check call since last clear
static long g_call_trace_n = 0;
#define C_AFTER_SLOT0 0x1000  // slot 1 only starts counting once slot 0 has fired
static int g_count_classes = 0x1ff;

// clock
static int g_clock_mode = 0;  // bit0: REALTIME logical, bit1: MONOTONIC logical
static int64_t g_rt_ns = 1700000000LL * 1000000000LL;
static int64_t g_mono_ns = 1000LL * 1000000000LL;
static int64_t g_rt_tick = 1000;  // ns per call
static int64_t g_mono_tick = 0;

// randomness
static int g_rand_mode = 0;
static uint64_t g_rand_epoch = 0;
static uint64_t g_rand_calls = 0;

// ---- virtual mtime: last logical modification time per inode (files under the root) ----
#define MT_CAP 8192
static uint64_t g_mt_ino[MT_CAP];
static int64_t g_mt_ns[MT_CAP];
static int g_mtime_mode = 0;
static void mt_touch(uint64_t ino) {
  if (!g_mtime_mode || !ino) return;
  uint64_t h = (ino * 0x9e3779b97f4a7c15ULL) % MT_CAP;
  for (int i = 0; i < MT_CAP; i++) {
    uint64_t k = (h + i) % MT_CAP;
    if (g_mt_ino[k] == ino || g_mt_ino[k] == 0) {
      g_mt_ino[k] = ino;
      g_mt_ns[k] = g_rt_ns;
      return;
    }
  }
}
static int64_t mt_get(uint64_t ino) {
  if (!ino) return -1;
  uint64_t h = (ino * 0x9e3779b97f4a7c15ULL) % MT_CAP;
  for (int i = 0; i < MT_CAP; i++) {
    uint64_t k = (h + i) % MT_CAP;
    if (g_mt_ino[k] == ino) return g_mt_ns[k];
    if (g_mt_ino[k] == 0) return -1;
  }
  return -1;
}

static int under_root(const char *p) {
  if (g_root_len == 0 || !p) return 0;
  if (strncmp(p, g_root, g_root_len) != 0) return 0;
  return p[g_root_len] == '/' || p[g_root_len] == 0;
}

static int fd_path(int fd, char *buf, size_t cap) {
  char link[64];
  snprintf(link, sizeof link, "/proc/self/fd/%d", fd);
  long n = syscall(SYS_readlink, link, buf, cap - 1);
  if (n <= 0) return 0;
  buf[n] = 0;
  // deleted files show up as "path (deleted)"
  return 1;
}

static void abs_path(int dirfd, const char *p, char *out, size_t cap) {
  if (!p) {
    out[0] = 0;
    return;
  }
  if (p[0] == '/') {
    snprintf(out, cap, "%s", p);
    return;
  }
  char base[4096];
  if (dirfd == AT_FDCWD) {
    if (syscall(SYS_getcwd, base, sizeof base) <= 0) base[0] = 0;
  } else if (!fd_path(dirfd, base, sizeof base)) {
    base[0] = 0;
  }
  snprintf(out, cap, "%s/%s", base, p);
}

static void log_rec(uint32_t kind, uint64_t ino, int64_t off, int64_t aux, const char *p1,
                    const char *p2, const void *data, size_t dlen) {
  if (!g_log_on) return;
  uint32_t l1 = p1 ? (uint32_t)strlen(p1) : 0, l2 = p2 ? (uint32_t)strlen(p2) : 0;
  size_t total = 4 + 4 + 8 + 8 + 8 + 8 + 8 + 4 + 4 + 4 + l1 + l2 + dlen;
  if (g_log_len + total > g_log_cap) {
    size_t nc = g_log_cap ? g_log_cap * 2 : (1 << 16);
    while (nc < g_log_len + total) nc *= 2;
    g_log = realloc(g_log, nc);
    g_log_cap = nc;
  }
  uint8_t *w = g_log + g_log_len;
  uint32_t t32 = (uint32_t)total;
  uint64_t seq = ++g_seq;
  int64_t now = g_rt_ns;
  uint32_t dl = (uint32_t)dlen;
  memcpy(w, &t32, 4); w += 4;
  memcpy(w, &kind, 4); w += 4;
  memcpy(w, &seq, 8); w += 8;
  memcpy(w, &ino, 8); w += 8;
  memcpy(w, &off, 8); w += 8;
  memcpy(w, &aux, 8); w += 8;
  memcpy(w, &now, 8); w += 8;
  memcpy(w, &l1, 4); w += 4;
  memcpy(w, &l2, 4); w += 4;
  memcpy(w, &dl, 4); w += 4;
  if (l1) { memcpy(w, p1, l1); w += l1; }
  if (l2) { memcpy(w, p2, l2); w += l2; }
  if (dlen) { memcpy(w, data, dlen); w += dlen; }
  g_log_len += total;
}

static int role_code(const char *p) {
  if (!p) return 0;
  const char *b = strrchr(p, '/');
  b = b ? b + 1 : p;
  if (!strncmp(b, "wal_", 4)) return 1;
  if (!strncmp(b, "MANIFEST", 8)) return 2;
  if (!strncmp(b, "snapshot_", 9)) return 3;
  return 4;
}
static const char *g_cur_path = NULL;  // set by callers (under g_mu) before fault_check

// returns: 0 no fault; 1 fail with *err; 2 short write of *slen bytes
// kill mode (environment only, for processes the harness does not share an address space with):
// KVSHIM_KILL_AT=n makes the process die, as by SIGKILL, right BEFORE its n-th file-system call
// under the root takes effect; with KVSHIM_KILL_TORN=1 a write is cut in half first. A note
// "<n> <class> <role>" is left in KVSHIM_KILL_NOTE (a path outside the root).
static long g_kill_at = 0;
static int g_kill_torn = 0;
static long g_fs_calls = 0;
static char g_kill_note[1024];

static void kill_note(int cls, const char *path) {
  if (!g_kill_note[0]) return;
  char b[256];
  int n = snprintf(b, sizeof b, "%ld %d %d\n", g_fs_calls, cls, role_code(path));
  int fd = (int)syscall(SYS_openat, AT_FDCWD, g_kill_note, O_CREAT | O_WRONLY | O_TRUNC, 0644);
  if (fd >= 0) {
    (void)!syscall(SYS_write, fd, b, (size_t)n);
    syscall(SYS_close, fd);
  }
}

static int fault_check(int cls, int *err, long *slen) {
  g_fs_calls++;
  if (g_kill_at > 0 && g_fs_calls == g_kill_at) {
    kill_note(cls, g_cur_path);
    if (g_kill_torn && cls == C_WRITE) return 3;  // the caller writes half, then dies
    syscall(SYS_exit_group, 137);
  }
  if (cls & g_count_classes) g_class_calls++;
  if (g_call_trace_n < TRACE_CAP) g_call_trace[g_call_trace_n] = cls | (role_code(g_cur_path) << 16);
  g_cur_path = NULL;
  g_call_trace_n++;
  for (int i = 0; i < 2; i++) {
    struct fault *f = &g_fault[i];
    if (!f->armed || !(f->classes & cls)) continue;
    if (i == 1 && (f->classes & C_AFTER_SLOT0) && !g_fault[0].fired) continue;
    if (f->nth > 1) {
      f->nth--;
      continue;
    }
    f->armed = 0;
    f->fired = 1;
    f->fired_class = cls;
    if (f->short_len >= 0 && cls == C_WRITE) {
      *slen = f->short_len;
      return 2;
    }
    *err = f->err;
    return 1;
  }
  return 0;
}

// ---------------------------------------------------------------------------------------------
// control interface (looked up with dlsym by the harness)
// ---------------------------------------------------------------------------------------------
long kvshim_set_root(const char *p) {
  pthread_mutex_lock(&g_mu);
  if (!p) {
    g_root_len = 0;
    g_root[0] = 0;
  } else {
    snprintf(g_root, sizeof g_root, "%s", p);
    g_root_len = strlen(g_root);
    while (g_root_len > 1 && g_root[g_root_len - 1] == '/') g_root[--g_root_len] = 0;
  }
  pthread_mutex_unlock(&g_mu);
  return 0;
}

const uint8_t *kvshim_log_ptr(size_t *len) {
  *len = g_log_len;
  return g_log;
}

long kvshim_fault_arm(long slot, long classes, long nth, long err, long short_len) {
  if (slot < 0 || slot > 1) return -1;
  pthread_mutex_lock(&g_mu);
  g_fault[slot].armed = 1;
  g_fault[slot].classes = (int)classes;
  g_fault[slot].nth = nth;
  g_fault[slot].err = (int)err;
  g_fault[slot].short_len = short_len;
  g_fault[slot].fired = 0;
  g_fault[slot].fired_class = 0;
  pthread_mutex_unlock(&g_mu);
  return 0;
}

long kvshim_ctl(long cmd, long a, long b) {
  long r = 0;
  (void)b;
  pthread_mutex_lock(&g_mu);
  switch (cmd) {
    case 1: g_log_on = 1; break;
    case 2: g_log_on = 0; break;
    case 3: g_log_len = 0; g_seq = 0; g_class_calls = 0; g_call_trace_n = 0; break;
    case 4: g_clock_mode = (int)a; break;
    case 5: g_rt_ns += a; g_mono_ns += a; break;
    case 6: g_rt_ns = a; break;
    case 8: g_fault[0].armed = g_fault[1].armed = 0; g_fault[0].fired = g_fault[1].fired = 0; break;
    case 9: g_rand_mode = (int)a; break;
    case 10: g_rand_epoch = (uint64_t)a; g_rand_calls = 0; break;
    case 11: r = g_class_calls; break;
    case 12: r = (a >= 0 && a <= 1) ? (g_fault[a].fired ? g_fault[a].fired_class : 0) : -1; break;
    case 13: r = (long)g_rt_ns; break;
    case 14: g_rt_tick = a; g_mono_tick = b; break;
    case 15: g_count_classes = (int)a; g_class_calls = 0; break;
    case 16: r = (long)g_mono_ns; break;
    case 17: r = (a >= 0 && a < g_call_trace_n && a < TRACE_CAP) ? g_call_trace[a] : -1; break;
    case 20: g_mtime_mode = (int)a; if (!a) memset(g_mt_ino, 0, sizeof g_mt_ino); break;
    case 18: r = g_call_trace_n; break;
    case 19: g_call_trace_n = 0; g_class_calls = 0; break;
    default: r = -1;
  }
  pthread_mutex_unlock(&g_mu);
  return r;
}

__attribute__((constructor)) static void kvshim_init(void) {
  const char *r = getenv("KVSHIM_ROOT");
  if (r) kvshim_set_root(r);
  const char *c = getenv("KVSHIM_CLOCK");
  if (c) g_clock_mode = atoi(c);
  const char *rd = getenv("KVSHIM_RAND");
  if (rd) g_rand_mode = atoi(rd);
  const char *t0 = getenv("KVSHIM_RT_START_S");
  if (t0) g_rt_ns = atoll(t0) * 1000000000LL;
  const char *ka = getenv("KVSHIM_KILL_AT");
  if (ka) g_kill_at = atol(ka);
  const char *kt = getenv("KVSHIM_KILL_TORN");
  if (kt) g_kill_torn = atoi(kt);
  const char *kn = getenv("KVSHIM_KILL_NOTE");
  if (kn) snprintf(g_kill_note, sizeof g_kill_note, "%s", kn);
}

// ---------------------------------------------------------------------------------------------
// file system
// ---------------------------------------------------------------------------------------------
static int do_open(int dirfd, const char *path, int flags, mode_t mode) {
  char ap[4096];
  int tracked = 0, existed = 0;
  if (g_root_len) {
    abs_path(dirfd, path, ap, sizeof ap);
    tracked = under_root(ap);
  }
  if (tracked && (flags & (O_CREAT | O_TRUNC))) {
    struct stat st;
    existed = syscall(SYS_newfstatat, AT_FDCWD, ap, &st, 0) == 0;
    pthread_mutex_lock(&g_mu);
    int err = 0;
    long sl = 0;
    g_cur_path = ap; int f = fault_check(C_OPEN, &err, &sl);
    pthread_mutex_unlock(&g_mu);
    if (f == 1) {
      errno = err;
      return -1;
    }
  }
  long fd = syscall(SYS_openat, dirfd, path, flags, mode);
  if (fd >= 0 && tracked && (flags & (O_CREAT | O_TRUNC))) {
    struct stat st;
    uint64_t ino = 0;
    if (syscall(SYS_fstat, (int)fd, &st) == 0) ino = st.st_ino;
    pthread_mutex_lock(&g_mu);
    mt_touch(ino);
    if (!existed && (flags & O_CREAT))
      log_rec(K_CREATE, ino, 0, 0, ap, NULL, NULL, 0);
    else if (existed && (flags & O_TRUNC))
      log_rec(K_TRUNC_OPEN, ino, 0, 0, ap, NULL, NULL, 0);
    pthread_mutex_unlock(&g_mu);
  }
  return (int)fd;
}

int open(const char *path, int flags, ...) {
  mode_t mode = 0;
  if (flags & (O_CREAT | O_TMPFILE)) {
    va_list ap;
    va_start(ap, flags);
    mode = va_arg(ap, mode_t);
    va_end(ap);
  }
  return do_open(AT_FDCWD, path, flags, mode);
}
int open64(const char *path, int flags, ...) {
  mode_t mode = 0;
  if (flags & (O_CREAT | O_TMPFILE)) {
    va_list ap;
    va_start(ap, flags);
    mode = va_arg(ap, mode_t);
    va_end(ap);
  }
  return do_open(AT_FDCWD, path, flags | O_LARGEFILE, mode);
}
int openat(int dirfd, const char *path, int flags, ...) {
  mode_t mode = 0;
  if (flags & (O_CREAT | O_TMPFILE)) {
    va_list ap;
    va_start(ap, flags);
    mode = va_arg(ap, mode_t);
    va_end(ap);
  }
  return do_open(dirfd, path, flags, mode);
}
int openat64(int dirfd, const char *path, int flags, ...) {
  mode_t mode = 0;
  if (flags & (O_CREAT | O_TMPFILE)) {
    va_list ap;
    va_start(ap, flags);
    mode = va_arg(ap, mode_t);
    va_end(ap);
  }
  return do_open(dirfd, path, flags | O_LARGEFILE, mode);
}
int creat(const char *path, mode_t mode) { return do_open(AT_FDCWD, path, O_CREAT | O_WRONLY | O_TRUNC, mode); }
int creat64(const char *path, mode_t mode) { return do_open(AT_FDCWD, path, O_CREAT | O_WRONLY | O_TRUNC | O_LARGEFILE, mode); }

static ssize_t do_write(int fd, const void *buf, size_t n, int64_t at_off, int positional) {
  char p[4096];
  int tracked = 0;
  if (g_root_len && fd > 2 && fd_path(fd, p, sizeof p)) tracked = under_root(p);
  if (!tracked) {
    if (positional) return syscall(SYS_pwrite64, fd, buf, n, at_off);
    return syscall(SYS_write, fd, buf, n);
  }
  int err = 0;
  long sl = -1;
  pthread_mutex_lock(&g_mu);
  g_cur_path = p; int f = fault_check(C_WRITE, &err, &sl);
  pthread_mutex_unlock(&g_mu);
  if (f == 1) {
    errno = err;
    return -1;
  }
  if (f == 3) {
    size_t half = n / 2;
    if (half > 0) {
      if (positional) (void)!syscall(SYS_pwrite64, fd, buf, half, at_off);
      else (void)!syscall(SYS_write, fd, buf, half);
    }
    syscall(SYS_exit_group, 137);
  }
  size_t want = n;
  if (f == 2) {
    if ((size_t)sl < want) want = (size_t)sl;
    if (want == 0) {
      // a zero-length "short write" is reported by Rust as WriteZero; model it as such
      return 0;
    }
  }
  struct stat st;
  uint64_t ino = 0;
  int64_t off = 0;
  if (syscall(SYS_fstat, fd, &st) == 0) ino = st.st_ino;
  if (positional) {
    off = at_off;
  } else {
    long fl = syscall(SYS_fcntl, fd, F_GETFL);
    if (fl >= 0 && (fl & O_APPEND))
      off = st.st_size;
    else
      off = syscall(SYS_lseek, fd, 0, SEEK_CUR);
  }
  ssize_t r = positional ? syscall(SYS_pwrite64, fd, buf, want, at_off) : syscall(SYS_write, fd, buf, want);
  if (r > 0) {
    pthread_mutex_lock(&g_mu);
    mt_touch(ino);
    log_rec(K_WRITE, ino, off, 0, p, NULL, buf, (size_t)r);
    pthread_mutex_unlock(&g_mu);
  }
  return r;
}

ssize_t write(int fd, const void *buf, size_t n) { return do_write(fd, buf, n, 0, 0); }
ssize_t pwrite(int fd, const void *buf, size_t n, off_t off) { return do_write(fd, buf, n, off, 1); }
ssize_t pwrite64(int fd, const void *buf, size_t n, off64_t off) { return do_write(fd, buf, n, off, 1); }
ssize_t writev(int fd, const struct iovec *iov, int cnt) {
  char p[4096];
  int tracked = 0;
  if (g_root_len && fd > 2 && fd_path(fd, p, sizeof p)) tracked = under_root(p);
  if (!tracked) return syscall(SYS_writev, fd, iov, cnt);
  // serialise as individual writes of the first non-empty buffer (a legal short writev)
  for (int i = 0; i < cnt; i++)
    if (iov[i].iov_len) return do_write(fd, iov[i].iov_base, iov[i].iov_len, 0, 0);
  return 0;
}

static int do_sync(int fd, int data_only) {
  char p[4096];
  int tracked = 0;
  if (g_root_len && fd > 2 && fd_path(fd, p, sizeof p)) tracked = under_root(p);
  if (!tracked) return (int)syscall(data_only ? SYS_fdatasync : SYS_fsync, fd);
  struct stat st;
  uint64_t ino = 0;
  int isdir = 0;
  if (syscall(SYS_fstat, fd, &st) == 0) {
    ino = st.st_ino;
    isdir = S_ISDIR(st.st_mode);
  }
  int err = 0;
  long sl = -1;
  pthread_mutex_lock(&g_mu);
  g_cur_path = isdir ? "/" : p; int f = fault_check(isdir ? C_FSYNC_DIR : (data_only ? C_FDATASYNC : C_FSYNC), &err, &sl);
  pthread_mutex_unlock(&g_mu);
  if (f == 1) {
    errno = err;
    return -1;
  }
  int r = (int)syscall(data_only ? SYS_fdatasync : SYS_fsync, fd);
  if (r == 0) {
    pthread_mutex_lock(&g_mu);
    log_rec(isdir ? K_FSYNC_DIR : (data_only ? K_FDATASYNC : K_FSYNC), ino, 0, 0, p, NULL, NULL, 0);
    pthread_mutex_unlock(&g_mu);
  }
  return r;
}
int fsync(int fd) { return do_sync(fd, 0); }
int fdatasync(int fd) { return do_sync(fd, 1); }

static int do_ftruncate(int fd, int64_t len) {
  char p[4096];
  int tracked = 0;
  if (g_root_len && fd > 2 && fd_path(fd, p, sizeof p)) tracked = under_root(p);
  if (!tracked) return (int)syscall(SYS_ftruncate, fd, len);
  int err = 0;
  long sl = -1;
  pthread_mutex_lock(&g_mu);
  g_cur_path = p; int f = fault_check(C_FTRUNCATE, &err, &sl);
  pthread_mutex_unlock(&g_mu);
  if (f == 1) {
    errno = err;
    return -1;
  }
  struct stat st;
  uint64_t ino = 0;
  if (syscall(SYS_fstat, fd, &st) == 0) ino = st.st_ino;
  int r = (int)syscall(SYS_ftruncate, fd, len);
  if (r == 0) {
    pthread_mutex_lock(&g_mu);
    mt_touch(ino);
    log_rec(K_FTRUNCATE, ino, len, 0, p, NULL, NULL, 0);
    pthread_mutex_unlock(&g_mu);
  }
  return r;
}
int ftruncate(int fd, off_t len) { return do_ftruncate(fd, len); }
int ftruncate64(int fd, off64_t len) { return do_ftruncate(fd, len); }

static int do_rename(int od, const char *o, int nd, const char *n) {
  char ao[4096], an[4096];
  int tracked = 0;
  if (g_root_len) {
    abs_path(od, o, ao, sizeof ao);
    abs_path(nd, n, an, sizeof an);
    tracked = under_root(ao) || under_root(an);
  }
  if (!tracked) return (int)syscall(SYS_renameat, od, o, nd, n);
  int err = 0;
  long sl = -1;
  pthread_mutex_lock(&g_mu);
  g_cur_path = an; int f = fault_check(C_RENAME, &err, &sl);
  pthread_mutex_unlock(&g_mu);
  if (f == 1) {
    errno = err;
    return -1;
  }
  struct stat st;
  uint64_t ino = 0;
  if (syscall(SYS_newfstatat, AT_FDCWD, ao, &st, AT_SYMLINK_NOFOLLOW) == 0) ino = st.st_ino;
  int r = (int)syscall(SYS_renameat, od, o, nd, n);
  if (r == 0) {
    pthread_mutex_lock(&g_mu);
    log_rec(K_RENAME, ino, 0, 0, ao, an, NULL, 0);
    pthread_mutex_unlock(&g_mu);
  }
  return r;
}
int rename(const char *o, const char *n) { return do_rename(AT_FDCWD, o, AT_FDCWD, n); }
int renameat(int od, const char *o, int nd, const char *n) { return do_rename(od, o, nd, n); }

static int do_unlink(int dirfd, const char *path, int flags) {
  char ap[4096];
  int tracked = 0;
  if (g_root_len) {
    abs_path(dirfd, path, ap, sizeof ap);
    tracked = under_root(ap);
  }
  if (!tracked) return (int)syscall(SYS_unlinkat, dirfd, path, flags);
  int err = 0;
  long sl = -1;
  pthread_mutex_lock(&g_mu);
  g_cur_path = ap; int f = fault_check(C_UNLINK, &err, &sl);
  pthread_mutex_unlock(&g_mu);
  if (f == 1) {
    errno = err;
    return -1;
  }
  struct stat st;
  uint64_t ino = 0;
  if (syscall(SYS_newfstatat, AT_FDCWD, ap, &st, AT_SYMLINK_NOFOLLOW) == 0) ino = st.st_ino;
  int r = (int)syscall(SYS_unlinkat, dirfd, path, flags);
  if (r == 0) {
    pthread_mutex_lock(&g_mu);
    log_rec((flags & AT_REMOVEDIR) ? K_RMDIR : K_UNLINK, ino, 0, 0, ap, NULL, NULL, 0);
    pthread_mutex_unlock(&g_mu);
  }
  return r;
}
int unlink(const char *p) { return do_unlink(AT_FDCWD, p, 0); }
int unlinkat(int d, const char *p, int fl) { return do_unlink(d, p, fl); }
int rmdir(const char *p) { return do_unlink(AT_FDCWD, p, AT_REMOVEDIR); }

int mkdir(const char *path, mode_t mode) {
  char ap[4096];
  int tracked = 0;
  if (g_root_len) {
    abs_path(AT_FDCWD, path, ap, sizeof ap);
    tracked = under_root(ap);
  }
  if (tracked) {
    int err = 0;
    long sl = -1;
    pthread_mutex_lock(&g_mu);
    g_cur_path = ap; int f = fault_check(C_MKDIR, &err, &sl);
    pthread_mutex_unlock(&g_mu);
    if (f == 1) {
      errno = err;
      return -1;
    }
  }
  int r = (int)syscall(SYS_mkdirat, AT_FDCWD, path, mode);
  if (r == 0 && tracked) {
    pthread_mutex_lock(&g_mu);
    log_rec(K_MKDIR, 0, 0, 0, ap, NULL, NULL, 0);
    pthread_mutex_unlock(&g_mu);
  }
  return r;
}

// ---------------------------------------------------------------------------------------------
// clock
// ---------------------------------------------------------------------------------------------
int clock_gettime(clockid_t id, struct timespec *ts) {
  int rt = (id == CLOCK_REALTIME || id == CLOCK_REALTIME_COARSE);
  int mono = (id == CLOCK_MONOTONIC || id == CLOCK_MONOTONIC_COARSE || id == CLOCK_MONOTONIC_RAW ||
              id == CLOCK_BOOTTIME);
  if ((rt && (g_clock_mode & 1)) || (mono && (g_clock_mode & 2))) {
    pthread_mutex_lock(&g_mu);
    int64_t v;
    if (rt) {
      g_rt_ns += g_rt_tick;
      v = g_rt_ns;
    } else {
      g_mono_ns += g_mono_tick;
      v = g_mono_ns;
    }
    pthread_mutex_unlock(&g_mu);
    ts->tv_sec = v / 1000000000LL;
    ts->tv_nsec = v % 1000000000LL;
    return 0;
  }
  return (int)syscall(SYS_clock_gettime, id, ts);
}

int gettimeofday(struct timeval *tv, void *tz) {
  (void)tz;
  struct timespec ts;
  clock_gettime(CLOCK_REALTIME, &ts);
  if (tv) {
    tv->tv_sec = ts.tv_sec;
    tv->tv_usec = ts.tv_nsec / 1000;
  }
  return 0;
}

time_t time(time_t *t) {
  struct timespec ts;
  clock_gettime(CLOCK_REALTIME, &ts);
  if (t) *t = ts.tv_sec;
  return ts.tv_sec;
}

int nanosleep(const struct timespec *req, struct timespec *rem) {
  if (g_clock_mode & 2) {
    pthread_mutex_lock(&g_mu);
    int64_t d = (int64_t)req->tv_sec * 1000000000LL + req->tv_nsec;
    g_mono_ns += d;
    g_rt_ns += d;
    pthread_mutex_unlock(&g_mu);
    if (rem) rem->tv_sec = rem->tv_nsec = 0;
    return 0;
  }
  return (int)syscall(SYS_nanosleep, req, rem);
}

int clock_nanosleep(clockid_t id, int flags, const struct timespec *req, struct timespec *rem) {
  if (g_clock_mode & 2) {
    pthread_mutex_lock(&g_mu);
    int64_t d = (int64_t)req->tv_sec * 1000000000LL + req->tv_nsec;
    if (flags & TIMER_ABSTIME) {
      int64_t now = (id == CLOCK_REALTIME) ? g_rt_ns : g_mono_ns;
      d = d > now ? d - now : 0;
    }
    g_mono_ns += d;
    g_rt_ns += d;
    pthread_mutex_unlock(&g_mu);
    if (rem) rem->tv_sec = rem->tv_nsec = 0;
    return 0;
  }
  long r = syscall(SYS_clock_nanosleep, id, flags, req, rem);
  return r == 0 ? 0 : errno;
}

// ---------------------------------------------------------------------------------------------
// randomness
// ---------------------------------------------------------------------------------------------
static uint64_t splitmix(uint64_t *s) {
  uint64_t z = (*s += 0x9e3779b97f4a7c15ULL);
  z = (z ^ (z >> 30)) * 0xbf58476d1ce4e5b9ULL;
  z = (z ^ (z >> 27)) * 0x94d049bb133111ebULL;
  return z ^ (z >> 31);
}

ssize_t getrandom(void *buf, size_t len, unsigned int flags) {
  if (!g_rand_mode) return syscall(SYS_getrandom, buf, len, flags);
  pthread_mutex_lock(&g_mu);
  uint64_t s = g_rand_epoch * 0x100000001b3ULL + (++g_rand_calls) * 0x9e3779b97f4a7c15ULL;
  pthread_mutex_unlock(&g_mu);
  uint8_t *o = buf;
  size_t i = 0;
  while (i < len) {
    uint64_t v = splitmix(&s);
    size_t k = len - i < 8 ? len - i : 8;
    memcpy(o + i, &v, k);
    i += k;
  }
  return (ssize_t)len;
}

// ---------------------------------------------------------------------------------------------
// virtual mtime: statx reports the logical time of the last modification made through this shim
// ---------------------------------------------------------------------------------------------
#include <linux/stat.h>
int statx(int dirfd, const char *path, int flags, unsigned int mask, struct statx *stx) {
  long r = syscall(SYS_statx, dirfd, path, flags, mask, stx);
  if (r == 0 && g_mtime_mode && stx) {
    pthread_mutex_lock(&g_mu);
    int64_t t = mt_get(stx->stx_ino);
    pthread_mutex_unlock(&g_mu);
    if (t >= 0) {
      stx->stx_mtime.tv_sec = t / 1000000000LL;
      stx->stx_mtime.tv_nsec = (uint32_t)(t % 1000000000LL);
      stx->stx_ctime = stx->stx_mtime;
    }
  }
  return (int)r;
}
