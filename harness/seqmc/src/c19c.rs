//! C19, concurrent clause: "concurrent callers cannot jointly exceed the bound", and refusals
//! do not leak budget, under EVERY schedule (<= preemption bound) of 2-3 caller threads on the
//! real RateLimiter. Scheduling points are the limiter's own lock operations (bucket map
//! RwLock, per-tenant Mutex, global Mutex) through pl-shim/ksched.
//!
//! The clock is the real CLOCK_MONOTONIC here (the scheduler itself sleeps and waits with
//! time-outs, which a logical clock would turn into clock advances), so every oracle is written
//! the way the property's quantifier says: the interval is measured on the caller's clock from
//! before the first to after the last call, and the bound used is never tighter than the real
//! one. With capacities 1-3 tokens/s an execution (well under a millisecond of limiter work)
//! cannot earn a whole token unless the machine stalls for > 300 ms, and if it does the bound
//! simply widens.

use crate::explore::{explore, ExploreCfg};
use kyrodb_engine::rate_limiter::RateLimiter;
use parking_lot::sched::{Body, Outcome};
use serde_json::json;
use std::sync::{Arc, Mutex as StdMutex};
use std::time::Instant;
use vcore::findings::SigBag;

const TENANTS: [&str; 2] = ["tenant_a", "tenant_b"];

#[derive(Clone, Debug, serde::Serialize, serde::Deserialize)]
pub struct Prog {
    pub rates: [u32; 2],
    pub global: Option<u32>,
    /// calls made sequentially before the threads start (creates buckets, consumes tokens)
    pub warm: Vec<usize>,
    /// one call list (tenant indices) per thread
    pub threads: Vec<Vec<usize>>,
}

pub fn programs() -> Vec<Prog> {
    let bodies: Vec<Vec<usize>> = vec![vec![0], vec![1], vec![0, 0], vec![0, 1], vec![1, 0]];
    let mut shapes: Vec<Vec<Vec<usize>>> = Vec::new();
    for i in 0..bodies.len() {
        for j in i..bodies.len() {
            shapes.push(vec![bodies[i].clone(), bodies[j].clone()]);
        }
    }
    for t in [[0usize, 0, 0], [0, 0, 1], [0, 1, 1], [1, 1, 1]] {
        shapes.push(t.iter().map(|&x| vec![x]).collect());
    }
    let cfgs: Vec<([u32; 2], Option<u32>)> = vec![([1, 1], None), ([1, 1], Some(1)), ([2, 1], Some(2)), ([1, 2], Some(2)), ([2, 2], Some(3)), ([2, 2], Some(1))];
    let warms: Vec<Vec<usize>> = vec![vec![], vec![0, 1], vec![0]];
    let mut v = Vec::new();
    for (rates, global) in &cfgs {
        for warm in &warms {
            for s in &shapes {
                v.push(Prog { rates: *rates, global: *global, warm: warm.clone(), threads: s.clone() });
            }
        }
    }
    v
}

#[derive(Default)]
pub struct CStats {
    pub programs: u64,
    pub executions: u64,
    pub points: u64,
    pub outcomes: std::collections::BTreeSet<String>,
    pub refused_calls: u64,
    pub capped: u64,
    pub viol: SigBag,
}

struct World {
    rl: Arc<RateLimiter>,
    /// (thread, tenant, admitted) in completion order
    log: Arc<StdMutex<Vec<(usize, usize, bool)>>>,
    warm_admitted: [u32; 2],
    t0: Instant,
}

pub fn check_program(p: &Prog, bound: usize, st: &mut CStats) {
    st.programs += 1;
    let ecfg = ExploreCfg { bound, max_execs: 50_000, ..Default::default() };
    let pj = p.clone();
    let out = explore(
        &ecfg,
        || {
            let rl = Arc::new(RateLimiter::new_with_global(p.global));
            let t0 = Instant::now();
            let mut warm_admitted = [0u32; 2];
            for &t in &p.warm {
                if rl.check_limit(TENANTS[t], p.rates[t]) {
                    warm_admitted[t] += 1;
                }
            }
            let log = Arc::new(StdMutex::new(Vec::new()));
            let bodies: Vec<Body> = p
                .threads
                .iter()
                .enumerate()
                .map(|(ti, calls)| {
                    let rl = rl.clone();
                    let log = log.clone();
                    let calls = calls.clone();
                    let rates = p.rates;
                    Box::new(move || {
                        for &t in &calls {
                            let ok = rl.check_limit(TENANTS[t], rates[t]);
                            log.lock().unwrap().push((ti, t, ok));
                        }
                    }) as Body
                })
                .collect();
            (bodies, World { rl, log, warm_admitted, t0 })
        },
        |res, w, choices| {
            if res.outcome != Outcome::Completed {
                st.viol.push((format!("C19|concurrent|{}", match &res.outcome { Outcome::Deadlock(_) => "deadlock", Outcome::Horizon => "horizon", _ => "stalled" }), json!({"engine":"seqmc","check":"C19c","program":pj,"schedule":choices,"detail":format!("{:?}", res.outcome)})));
                return false;
            }
            let log = w.log.lock().unwrap().clone();
            // available tokens per tenant right after the run, then drain the global bucket through
            // a probe tenant with its own large budget to read the global tokens left
            let avail: Vec<Option<f64>> = (0..2).map(|t| w.rl.available_tokens(TENANTS[t])).collect();
            let mut global_left = 0u32;
            if p.global.is_some() {
                for _ in 0..16 {
                    if w.rl.check_limit("probe", 1000) {
                        global_left += 1;
                    } else {
                        break;
                    }
                }
            }
            let elapsed = w.t0.elapsed().as_secs_f64();
            let mut adm = [0u32; 2];
            let mut refused = [0u32; 2];
            for (_, t, ok) in &log {
                if *ok {
                    adm[*t] += 1;
                } else {
                    refused[*t] += 1;
                }
            }
            st.refused_calls += (refused[0] + refused[1]) as u64;
            st.outcomes.insert(format!("{:?}|{:?}|{}", adm, refused, global_left));
            let total_adm: u32 = adm[0] + adm[1] + w.warm_admitted[0] + w.warm_admitted[1];
            let mut bad: Option<(String, String)> = None;
            for t in 0..2 {
                let cap = p.rates[t] as f64;
                let all = (adm[t] + w.warm_admitted[t]) as f64;
                // 1. joint bound
                if all > cap + cap * elapsed {
                    bad = Some(("tenant-bound-exceeded".into(), format!("tenant {t}: admitted {all} > burst {cap} + rate*{elapsed:.4}s")));
                }
                // 3. accounting: tokens left are what was not admitted (plus at most the refill)
                if let Some(a) = avail[t] {
                    let lo = (cap - all).max(0.0) - 1e-6;
                    let hi = (cap - all + cap * elapsed).min(cap) + 1e-6;
                    if a < lo {
                        bad = Some(("tenant-budget-consumed-by-refused-requests".into(), format!("tenant {t}: {a:.4} tokens left, expected >= {lo:.4} (capacity {cap}, admitted {all})")));
                    }
                    if a > hi {
                        bad = Some(("tenant-budget-over-refunded".into(), format!("tenant {t}: {a:.4} tokens left, expected <= {hi:.4} (capacity {cap}, admitted {all}, elapsed {elapsed:.4}s)")));
                    }
                }
            }
            if let Some(g) = p.global {
                let g = g as f64;
                if total_adm as f64 > g + g * elapsed {
                    bad = Some(("global-bound-exceeded".into(), format!("admitted {total_adm} > global burst {g} + rate*{elapsed:.4}s")));
                }
                let lo = (g - total_adm as f64).max(0.0).floor();
                let hi = (g - total_adm as f64 + g * elapsed).min(g).floor();
                if (global_left as f64) < lo - 1e-9 {
                    bad = Some(("global-budget-consumed-by-refused-requests".into(), format!("{global_left} global tokens left, expected >= {lo} (global {g}, admitted in total {total_adm})")));
                }
                if (global_left as f64) > hi + 1e-9 {
                    bad = Some(("global-budget-over-refunded".into(), format!("{global_left} global tokens left, expected <= {hi} (global {g}, admitted in total {total_adm}, elapsed {elapsed:.4}s)")));
                }
            }
            // 4. a refused call needs an exhausted budget somewhere
            for t in 0..2 {
                if refused[t] > 0 {
                    let tenant_exhausted = adm[t] + w.warm_admitted[t] >= p.rates[t];
                    let global_exhausted = p.global.map(|g| total_adm >= g).unwrap_or(false);
                    if !tenant_exhausted && !global_exhausted {
                        bad = Some(("refused-with-budget".into(), format!("tenant {t}: {} call(s) refused although it was admitted only {} of {} and the global limit admitted {total_adm} of {:?}", refused[t], adm[t] + w.warm_admitted[t], p.rates[t], p.global)));
                    }
                }
            }
            if let Some((sig, detail)) = bad {
                st.viol.push((format!("C19|concurrent|{sig}"), json!({"engine":"seqmc","check":"C19c","program":pj,"schedule":choices,"preemptions":res.preemptions,"log":log,"detail":detail})));
                return false;
            }
            true
        },
    );
    st.executions += out.executions;
    st.points += out.points;
    if out.capped {
        st.capped += 1;
    }
}
