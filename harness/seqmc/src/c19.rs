//! C19 — rate limits bound admitted traffic (sequential part: every sequence of clock advances
//! and calls up to a depth, against an exact-rational token bucket; all-window bound).

use kyrodb_engine::rate_limiter::RateLimiter;
use serde_json::{json, Value};
use std::collections::BTreeSet;
use vcore::evidence::Evidence;
use vcore::exec::sequences;
use vcore::findings::{Reporter, SigBag};
use vcore::shimctl as sc;

#[derive(Clone, Copy, Debug, PartialEq, serde::Serialize, serde::Deserialize)]
pub enum Ev {
    Adv(i64), // quarter seconds
    Call(u8), // tenant index
}

fn letters() -> Vec<Ev> {
    vec![Ev::Adv(1), Ev::Adv(4), Ev::Adv(40), Ev::Call(0), Ev::Call(1)]
}

/// Exact model in quarter-tokens (time steps are multiples of 1/4 s, rates are integers).
#[derive(Clone)]
struct Bucket {
    cap_q: i64,
    rate: i64,
    tokens_q: i64,
    last_q: i64,
}
impl Bucket {
    fn new(rate: i64, now_q: i64) -> Bucket {
        Bucket { cap_q: rate * 4, rate, tokens_q: rate * 4, last_q: now_q }
    }
    fn refill(&mut self, now_q: i64) {
        let d = now_q - self.last_q;
        if d > 0 {
            self.tokens_q = (self.tokens_q + d * self.rate).min(self.cap_q);
            self.last_q = now_q;
        }
    }
    fn try_consume(&mut self, now_q: i64) -> bool {
        self.refill(now_q);
        if self.tokens_q >= 4 {
            self.tokens_q -= 4;
            true
        } else {
            false
        }
    }
    fn refund(&mut self) {
        self.tokens_q = (self.tokens_q + 4).min(self.cap_q);
    }
}

#[derive(Default)]
pub struct Stats {
    pub sequences: u64,
    pub calls: u64,
    pub admitted: u64,
    pub refused_tenant: u64,
    pub refused_global: u64,
    pub windows: u64,
    pub states: BTreeSet<u64>,
    pub viol: SigBag,
}

pub fn run_seq(rates: [u32; 2], global: Option<u32>, seq: &[Ev], st: &mut Stats) {
    st.sequences += 1;
    let lim = RateLimiter::new_with_global(global);
    let names = ["t1", "t2"];
    let mut now_q: i64 = 0;
    let mut mb: [Option<Bucket>; 2] = [None, None];
    let mut mg = global.map(|g| Bucket::new(g as i64, 0));
    // trace of (time_q, tenant, admitted)
    let mut trace: Vec<(i64, usize, bool)> = Vec::new();
    let ctx = |detail: String| json!({"engine":"seqmc","check":"C19","rates":rates,"global":global,"sequence":seq,"detail":detail});
    for (i, e) in seq.iter().enumerate() {
        match e {
            Ev::Adv(q) => {
                sc::ctl(sc::CMD_CLOCK_ADVANCE_NS, q * 250_000_000, 0);
                now_q += q;
            }
            Ev::Call(t) => {
                let t = *t as usize;
                st.calls += 1;
                let before = lim.available_tokens(names[t]);
                let got = lim.check_limit(names[t], rates[t]);
                // model
                let b = mb[t].get_or_insert_with(|| Bucket::new(rates[t] as i64, now_q));
                let mut want = b.try_consume(now_q);
                let mut global_refused = false;
                if want {
                    if let Some(g) = mg.as_mut() {
                        if !g.try_consume(now_q) {
                            b.refund();
                            want = false;
                            global_refused = true;
                        }
                    }
                }
                if got {
                    st.admitted += 1;
                } else if global_refused {
                    st.refused_global += 1;
                } else {
                    st.refused_tenant += 1;
                }
                if got != want {
                    let sym = if got { "admitted-beyond-model" } else { "refused-with-budget" };
                    st.viol.push((format!("C19|sequential|{sym}"), ctx(format!("step {i}: check_limit({}) = {got}, exact model {want} (global_refused={global_refused})", names[t]))));
                    return;
                }
                if global_refused {
                    let after = lim.available_tokens(names[t]);
                    if let (Some(b4), Some(af)) = (before, after) {
                        if (b4 - af).abs() > 1e-9 {
                            st.viol.push(("C19|sequential|global-refusal-consumed-tenant-budget".into(), ctx(format!("step {i}: tenant tokens {b4} -> {af} across a refusal by the global limit"))));
                            return;
                        }
                    }
                }
                trace.push((now_q, t, got));
            }
        }
        use std::hash::{Hash, Hasher};
        let mut h = std::collections::hash_map::DefaultHasher::new();
        (mb[0].as_ref().map(|b| (b.tokens_q, now_q - b.last_q)), mb[1].as_ref().map(|b| (b.tokens_q, now_q - b.last_q)), mg.as_ref().map(|b| (b.tokens_q, now_q - b.last_q))).hash(&mut h);
        st.states.insert(h.finish());
    }
    // all-window bound on the implementation's own decisions
    for i in 0..trace.len() {
        for j in i..trace.len() {
            st.windows += 1;
            let len_q = trace[j].0 - trace[i].0;
            for t in 0..2 {
                let adm = trace[i..=j].iter().filter(|x| x.1 == t && x.2).count() as i64;
                // admitted <= capacity + rate * length  (in quarter units: *4)
                if adm * 4 > (rates[t] as i64) * 4 + (rates[t] as i64) * len_q {
                    st.viol.push(("C19|sequential|tenant-window-bound-exceeded".into(), ctx(format!("window calls {i}..{j} ({} quarter-seconds): tenant {t} admitted {adm}", len_q))));
                    return;
                }
            }
            if let Some(g) = global {
                let adm = trace[i..=j].iter().filter(|x| x.2).count() as i64;
                if adm * 4 > (g as i64) * 4 + (g as i64) * len_q {
                    st.viol.push(("C19|sequential|global-window-bound-exceeded".into(), ctx(format!("window calls {i}..{j} ({} quarter-seconds): admitted {adm} in total, global {g}", len_q))));
                    return;
                }
            }
        }
    }
}

fn configs() -> Vec<([u32; 2], Option<u32>)> {
    vec![([2, 3], None), ([2, 3], Some(3)), ([3, 2], Some(2)), ([1, 1], Some(1))]
}

pub fn worker(wi: usize, wn: usize, tier: &str) {
    let depth: usize = std::env::var("C19_DEPTH").ok().and_then(|s| s.parse().ok()).unwrap_or(if tier == "thorough" { 10 } else { 8 });
    sc::ctl(sc::CMD_CLOCK_MODE, 3, 0);
    sc::ctl(sc::CMD_CLOCK_TICK_NS, 1000, 0);
    let ls = letters();
    let mut st = Stats::default();
    let mut idx = 0usize;
    for (rates, global) in configs() {
        for first in 0..ls.len() {
            for second in 0..ls.len() {
                idx += 1;
                if idx % wn != wi {
                    continue;
                }
                for s in sequences(ls.len(), depth, &[first, second]) {
                    let seq: Vec<Ev> = s.iter().map(|&i| ls[i]).collect();
                    run_seq(rates, global, &seq, &mut st);
                }
            }
        }
    }
    // concurrent clause under ksched, real monotonic clock (see c19c.rs)
    sc::ctl(sc::CMD_CLOCK_MODE, 1, 0);
    let bound: usize = if tier == "thorough" { 3 } else { 2 };
    let mut cst = crate::c19c::CStats::default();
    for (i, p) in crate::c19c::programs().iter().enumerate() {
        if i % wn != wi {
            continue;
        }
        crate::c19c::check_program(p, bound, &mut cst);
    }
    for (k, v) in cst.viol.map.iter() {
        for r in &v.1 {
            st.viol.push((k.clone(), r.clone()));
        }
    }
    vcore::par::worker_emit(&json!({"conc_programs":cst.programs,"conc_executions":cst.executions,"conc_points":cst.points,"conc_outcomes":cst.outcomes.iter().collect::<Vec<_>>(),"conc_refused":cst.refused_calls,"conc_capped":cst.capped,
        "sequences":st.sequences,"calls":st.calls,"admitted":st.admitted,"refused_tenant":st.refused_tenant,"refused_global":st.refused_global,"windows":st.windows,"states":st.states.iter().collect::<Vec<_>>(),"violations":st.viol.to_json()}));
}

fn run_server_slice(tier: &str) -> Result<serde_json::Value, String> {
    let bin = std::env::var("SRVMC_BIN").map_err(|_| "SRVMC_BIN not set (run through bin/check)".to_string())?;
    let out = vcore::par::output_retry(std::process::Command::new(&bin).arg("C19S").arg(tier).env_remove("LD_PRELOAD")).map_err(|e| format!("cannot run {bin}: {e}"))?;
    let stdout = String::from_utf8_lossy(&out.stdout);
    let line = stdout.lines().find_map(|l| l.strip_prefix("C19S-RESULT ")).ok_or_else(|| format!("no result line; exit {:?}; stderr: {}", out.status.code(), String::from_utf8_lossy(&out.stderr)))?;
    serde_json::from_str(line).map_err(|e| format!("bad result: {e}"))
}

pub fn run(tier: &str, replay: Option<&str>) -> i32 {
    if !sc::loaded() {
        eprintln!("C19: kvshim not loaded (machinery error)");
        return 2;
    }
    if let Some(p) = replay {
        let v: Value = serde_json::from_str(&std::fs::read_to_string(p).expect("read")).expect("json");
        let c = &v["case"];
        if c["check"] == "C19S" {
            let sig = v["signature"].as_str().unwrap_or("").to_string();
            return match run_server_slice(tier) {
                Ok(r) => {
                    if r["violations"].as_array().map(|a| a.iter().any(|x| x["sig"] == sig.as_str())).unwrap_or(false) {
                        println!("replay: reproduced {sig}");
                        println!("VIOLATION property=C19 replay={p}");
                        1
                    } else {
                        println!("replay: no violation with signature {sig}");
                        0
                    }
                }
                Err(e) => {
                    eprintln!("machinery error: {e}");
                    2
                }
            };
        }
        if c.get("program").is_some() {
            let prog: crate::c19c::Prog = serde_json::from_value(c["program"].clone()).unwrap();
            sc::ctl(sc::CMD_CLOCK_MODE, 1, 0);
            let mut cst = crate::c19c::CStats::default();
            crate::c19c::check_program(&prog, 3, &mut cst);
            if let Some((s, r)) = cst.viol.any_first() {
                println!("replay: reproduced {s}: {} (schedule {})", r["detail"], r["schedule"]);
                println!("VIOLATION property=C19 replay={p}");
                return 1;
            }
            println!("replay: no violation in {} executions", cst.executions);
            return 0;
        }
        let rates: [u32; 2] = serde_json::from_value(c["rates"].clone()).unwrap();
        let global: Option<u32> = serde_json::from_value(c["global"].clone()).unwrap();
        let seq: Vec<Ev> = serde_json::from_value(c["sequence"].clone()).unwrap();
        sc::ctl(sc::CMD_CLOCK_MODE, 3, 0);
        sc::ctl(sc::CMD_CLOCK_TICK_NS, 1000, 0);
        let mut st = Stats::default();
        run_seq(rates, global, &seq, &mut st);
        if let Some((s, r)) = st.viol.any_first() {
            println!("replay: reproduced {s}: {}", r["detail"]);
            println!("VIOLATION property=C19 replay={p}");
            return 1;
        }
        println!("replay: no violation");
        return 0;
    }
    if let Some((i, n)) = vcore::par::worker_id() {
        worker(i, n, tier);
        return 0;
    }
    let res = vcore::par::run_workers(vcore::par::jobs(), &[]);
    let mut ev = Evidence::new("C19", tier, "model_checking");
    let mut rep = Reporter::new("C19");
    // server-level slice: which limit a tenant is held to is decided in main()'s interceptor
    match run_server_slice(tier) {
        Ok(v) => {
            rep.report_bag(&v["violations"]);
            ev.set("server_slice", serde_json::json!({"bursts_through_the_real_binary": v["bursts"], "rule": "the REAL server binary with authentication and rate limiting on (server default max_qps_per_connection = 5, max_qps_global = 1000): three tenants (max_qps 5 explicit; max_qps 0 = server default, twice) each send 40 back-to-back Query calls, twice with an idle 1.3 s in between; with the interval measured on the caller's monotonic clock around the burst, admitted <= burst + rate x interval + 1, and the first request of an idle tenant is admitted"}));
        }
        Err(e) => {
            eprintln!("C19: machinery error in the server-level slice: {e}");
            return 2;
        }
    }
    let mut tot = std::collections::BTreeMap::new();
    let mut states: BTreeSet<u64> = BTreeSet::new();
    let mut conc_outcomes: BTreeSet<String> = BTreeSet::new();
    for r in &res {
        for k in ["sequences", "calls", "admitted", "refused_tenant", "refused_global", "windows", "conc_programs", "conc_executions", "conc_points", "conc_refused", "conc_capped"] {
            *tot.entry(k).or_insert(0u64) += r[k].as_u64().unwrap_or(0);
        }
        for s in r["states"].as_array().unwrap() {
            states.insert(s.as_u64().unwrap());
        }
        for o in r["conc_outcomes"].as_array().unwrap() {
            conc_outcomes.insert(o.as_str().unwrap().to_string());
        }
        rep.report_bag(&r["violations"]);
    }
    // concurrent part (schedmc) contributes through its own evidence section when built
    let depth: usize = std::env::var("C19_DEPTH").ok().and_then(|s| s.parse().ok()).unwrap_or(if tier == "thorough" { 10 } else { 8 });
    ev.set("states", states.len() as u64);
    ev.set("transitions", tot["calls"] + tot["conc_points"]);
    ev.set("traces_validated_against_impl", tot["sequences"] + tot["conc_executions"]);
    ev.set("evaluations", tot["sequences"] + tot["conc_executions"]);
    ev.set("distinct_nontrivial", tot["refused_global"]);
    ev.set("rule", format!("all 5^{depth} sequences over {{advance 1/4 s, advance 1 s, advance 10 s, call t1, call t2}} for 4 (tenant rates, global rate) configurations on the real RateLimiter under kvshim's logical monotonic clock; oracle: admit decisions equal an exact token bucket in integer quarter-tokens; for EVERY sub-window of every trace admitted <= capacity + rate*length per tenant and globally; a refusal by the global limit leaves the tenant's available tokens unchanged; states = distinct exact model states; non-trivial count = calls refused by the global limit. concurrent clause: {} programs = 6 (tenant rates, global) configurations x 3 warm-up prefixes (fresh limiter: bucket-creation slow path races; warmed: fast path) x 19 thread shapes (all pairs of call lists from {{[a],[b],[a,a],[a,b],[b,a]}} and all triples of single calls), EVERY schedule with <= {} preemptions under ksched at the limiter's own lock operations; after join: per-tenant and global admitted <= burst + rate x measured interval, tokens left in every tenant bucket and in the global bucket (read by draining it through a probe tenant) equal capacity - admitted up to the refill the measured interval allows (a refused request consumed nothing anywhere; nothing refunded twice), and a refused call implies its tenant's or the global burst was used up", tot["conc_programs"], if tier == "thorough" {{ 3 }} else {{ 2 }}));
    ev.set("concurrent_programs", tot["conc_programs"]);
    ev.set("concurrent_executions", tot["conc_executions"]);
    ev.set("concurrent_scheduling_points", tot["conc_points"]);
    ev.set("concurrent_distinct_outcomes", conc_outcomes.len() as u64);
    ev.set("concurrent_refused_calls", tot["conc_refused"]);
    ev.set("concurrent_programs_capped", tot["conc_capped"]);
    if tot["conc_capped"] > 0 {
        ev.set("exhaustive_concurrent", false);
    }
    ev.set("samples", json!([{"rates":[2,3],"global":3,"sequence":["Call(0)","Call(0)","Call(1)","Adv(1)","Call(0)","Call(1)","Adv(4)","Call(1)"]}]));
    ev.set("exhaustive", true);
    ev.set("calls", tot["calls"]);
    ev.set("admitted", tot["admitted"]);
    ev.set("refused_by_tenant_limit", tot["refused_tenant"]);
    ev.set("refused_by_global_limit", tot["refused_global"]);
    ev.set("windows_checked", tot["windows"]);
    ev.assume("time is the kvshim logical CLOCK_MONOTONIC: advances are exact multiples of 1/4 s, so the f64 implementation and the integer model are both exact");
    ev.assume("the concurrent clause runs on the real CLOCK_MONOTONIC (the scheduler itself sleeps); its bounds use the interval measured around each execution, as the property's quantifier prescribes, so a slow execution widens the bound instead of raising an alarm");
    ev.assume("scheduling points are lock operations; TokenBucket state is only touched under its Mutex");
    ev.violations = rep.violations as i64;
    ev.write();
    println!("C19 {tier}: concurrent programs={} executions={} outcomes={} refused_calls={} capped={}", tot["conc_programs"], tot["conc_executions"], conc_outcomes.len(), tot["conc_refused"], tot["conc_capped"]);
    println!("C19 {tier}: sequences={} calls={} admitted={} refused_tenant={} refused_global={} windows={} states={} violations={}", tot["sequences"], tot["calls"], tot["admitted"], tot["refused_tenant"], tot["refused_global"], tot["windows"], states.len(), rep.violations);
    rep.finish()
}
