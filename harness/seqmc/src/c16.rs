//! C16 — approximate search keeps a recall floor and is deterministic (fixed grid, fixed seeds).

use kyrodb_engine::config::DistanceMetric;
use kyrodb_engine::HnswBackend;
use serde_json::{json, Value};
use std::collections::BTreeSet;
use std::sync::Arc;
use vcore::evidence::Evidence;
use vcore::exec::BackendCfg;
use vcore::findings::{Reporter, SigBag};
use vcore::Scratch;

struct Rng(u64);
impl Rng {
    fn next(&mut self) -> u64 {
        self.0 = self.0.wrapping_add(0x9e3779b97f4a7c15);
        let mut z = self.0;
        z = (z ^ (z >> 30)).wrapping_mul(0xbf58476d1ce4e5b9);
        z = (z ^ (z >> 27)).wrapping_mul(0x94d049bb133111eb);
        z ^ (z >> 31)
    }
    fn unif(&mut self) -> f64 {
        ((self.next() >> 11) as f64) / ((1u64 << 53) as f64)
    }
    fn gauss(&mut self) -> f64 {
        let u1 = self.unif().max(1e-12);
        let u2 = self.unif();
        (-2.0 * u1.ln()).sqrt() * (2.0 * std::f64::consts::PI * u2).cos()
    }
}

fn normalise(v: &mut [f32]) {
    let n: f64 = v.iter().map(|x| (*x as f64).powi(2)).sum::<f64>().sqrt();
    if n > 0.0 {
        for x in v.iter_mut() {
            *x = ((*x as f64) / n) as f32;
        }
    }
}

pub fn dataset(family: &str, dim: usize, n: usize, seed: u64, unit: bool) -> Vec<Vec<f32>> {
    let mut r = Rng(seed);
    let mut out = Vec::with_capacity(n);
    match family {
        "uniform-sphere" => {
            for _ in 0..n {
                let mut v: Vec<f32> = (0..dim).map(|_| r.gauss() as f32).collect();
                normalise(&mut v);
                out.push(v);
            }
        }
        "gaussian-clusters" | "gaussian-clusters-tight" => {
            let k = 16;
            // "tight": well separated clusters (centre spread 1, point spread 0.03)
            let (cs, ps) = if family == "gaussian-clusters-tight" { (1.0, 0.03) } else { (2.0, 0.4) };
            let centres: Vec<Vec<f64>> = (0..k).map(|_| (0..dim).map(|_| r.gauss() * cs).collect()).collect();
            for i in 0..n {
                let c = &centres[i % k];
                let mut v: Vec<f32> = c.iter().map(|x| (x + r.gauss() * ps) as f32).collect();
                if unit {
                    normalise(&mut v);
                }
                out.push(v);
            }
        }
        _ => {
            // low-dimensional manifold: 4 latent dimensions embedded non-linearly
            let latent = 4;
            let proj: Vec<Vec<f64>> = (0..dim).map(|_| (0..latent).map(|_| r.gauss()).collect()).collect();
            for _ in 0..n {
                let z: Vec<f64> = (0..latent).map(|_| r.gauss()).collect();
                let mut v: Vec<f32> = proj.iter().map(|p| {
                    let s: f64 = p.iter().zip(&z).map(|(a, b)| a * b).sum();
                    (s.sin() + 0.05 * r.gauss()) as f32
                }).collect();
                if unit {
                    normalise(&mut v);
                }
                out.push(v);
            }
        }
    }
    out
}

fn tdist(metric: DistanceMetric, q: &[f32], v: &[f32]) -> f64 {
    match metric {
        DistanceMetric::Euclidean => q.iter().zip(v).map(|(a, b)| ((*a as f64) - (*b as f64)).powi(2)).sum::<f64>(),
        _ => {
            let dot: f64 = q.iter().zip(v).map(|(a, b)| (*a as f64) * (*b as f64)).sum();
            let nq: f64 = q.iter().map(|a| (*a as f64).powi(2)).sum::<f64>().sqrt();
            let nv: f64 = v.iter().map(|a| (*a as f64).powi(2)).sum::<f64>().sqrt();
            1.0 - dot / (nq * nv)
        }
    }
}

#[derive(Clone, Debug, serde::Serialize)]
pub struct Cell {
    pub family: &'static str,
    pub metric: &'static str,
    pub dim: usize,
    pub size: usize,
}

const K: usize = 10;
const NQ: usize = 200;

fn build_route(route: &str, metric: DistanceMetric, dim: usize, live: &[(u64, Vec<f32>)], filler: &[Vec<f32>], scratch: &Scratch) -> anyhow::Result<HnswBackend> {
    let cap = (live.len() + filler.len() + 16).max(64);
    match route {
        "online" => {
            // documents arrive in a (fixed, seeded) shuffled order: arrival order is not id order
            let b = HnswBackend::new(dim, metric, vec![], vec![], cap)?;
            let mut order: Vec<usize> = (0..live.len()).collect();
            let mut r = Rng(0x5eed_0001 ^ live.len() as u64);
            for i in (1..order.len()).rev() {
                let j = (r.next() % (i as u64 + 1)) as usize;
                order.swap(i, j);
            }
            for i in order {
                let (id, v) = &live[i];
                b.insert(*id, v.clone(), Default::default())?;
            }
            Ok(b)
        }
        "bulk" => {
            // HnswBackend::new assigns ids by position: live ids are 0..n
            let emb: Vec<Vec<f32>> = live.iter().map(|x| x.1.clone()).collect();
            let meta = vec![Default::default(); emb.len()];
            HnswBackend::new(dim, metric, emb, meta, cap)
        }
        "delete-compact" => {
            // interleave filler documents, delete them (60 % of the index), then insert the last
            // live document into a full index so that tombstone compaction rebuilds the graph
            let total = live.len() + filler.len();
            let b = HnswBackend::new(dim, metric, vec![], vec![], total - 1)?;
            let (last, rest) = live.split_last().unwrap();
            let mut fi = 0usize;
            for (i, (id, v)) in rest.iter().enumerate() {
                b.insert(*id, v.clone(), Default::default())?;
                // 1.5 fillers per live doc
                let want = ((i + 1) * filler.len()) / rest.len();
                while fi < want {
                    b.insert(1_000_000 + fi as u64, filler[fi].clone(), Default::default())?;
                    fi += 1;
                }
            }
            for j in 0..fi {
                b.delete(1_000_000 + j as u64)?;
            }
            // index now holds total-1 slots: full -> compaction on this insert
            b.insert(last.0, last.1.clone(), Default::default())?;
            Ok(b)
        }
        r if r.starts_with("tombstoned-") => {
            // the same live set with <pct> % of the slots tombstoned and NOT compacted: fillers
            // interleaved with the live documents, then deleted; capacity leaves room so that no
            // compaction is triggered
            let pct: usize = r["tombstoned-".len()..].parse().unwrap();
            let nfill = (live.len() * pct / (100 - pct)).min(filler.len());
            let b = HnswBackend::new(dim, metric, vec![], vec![], cap)?;
            let mut fi = 0usize;
            for (i, (id, v)) in live.iter().enumerate() {
                b.insert(*id, v.clone(), Default::default())?;
                let want = ((i + 1) * nfill) / live.len();
                while fi < want {
                    b.insert(1_000_000 + fi as u64, filler[fi].clone(), Default::default())?;
                    fi += 1;
                }
            }
            let ids: Vec<u64> = (0..fi).map(|j| 1_000_000 + j as u64).collect();
            // one batch delete for the first half, single deletes for the rest
            let (a, bq) = ids.split_at(ids.len() / 2);
            b.batch_delete(a)?;
            for id in bq {
                b.delete(*id)?;
            }
            Ok(b)
        }
        _ => {
            let dir = scratch.path.join("rec");
            let _ = std::fs::remove_dir_all(&dir);
            let cfg = BackendCfg { metric: vcore::metric_name(metric).into(), dim, capacity: cap, snap_interval: 0, rotation: 1 << 24, fsync: "never".into() };
            let b = cfg.open_fresh(&dir)?;
            for (id, v) in live {
                b.insert(*id, v.clone(), Default::default())?;
            }
            b.create_snapshot()?;
            drop(b);
            cfg.recover(&dir)
        }
    }
}

pub struct CellOut {
    pub cell: Cell,
    pub recalls: Vec<(String, f64)>,
    pub searches: u64,
    pub viol: SigBag,
}

pub fn run_cell(cell: &Cell, scratch: &Scratch) -> CellOut {
    let metric = vcore::metric_from(cell.metric);
    let unit = !matches!(metric, DistanceMetric::Euclidean);
    let seed = 1000 + (cell.dim as u64) * 7 + (cell.size as u64) * 13 + cell.family.len() as u64;
    // one pool from one seed, so that live documents, deleted fillers and queries come from the
    // SAME distribution (same cluster centres / same manifold)
    let nfill = cell.size * 3 / 2;
    let grouped = cell.family == "gaussian-clusters-grouped";
    let pool = dataset(if grouped { "gaussian-clusters-tight" } else { cell.family }, cell.dim, cell.size + nfill + NQ, seed, unit);
    let mut data: Vec<Vec<f32>> = pool[..cell.size].to_vec();
    if grouped {
        // document ids in cluster-major order (dataset() deals the 16 clusters round-robin): the
        // graph is then built cluster by cluster on every route that inserts in id order
        let mut idx: Vec<usize> = (0..data.len()).collect();
        idx.sort_by_key(|i| (i % 16, *i));
        data = idx.into_iter().map(|i| data[i].clone()).collect();
    }
    let filler: Vec<Vec<f32>> = pool[cell.size..cell.size + nfill].to_vec();
    let queries: Vec<Vec<f32>> = pool[cell.size + nfill..].to_vec();
    let live: Vec<(u64, Vec<f32>)> = data.iter().enumerate().map(|(i, v)| (i as u64, v.clone())).collect();
    // ground truth
    let truth: Vec<BTreeSet<u64>> = queries
        .iter()
        .map(|q| {
            let mut d: Vec<(f64, u64)> = live.iter().map(|(id, v)| (tdist(metric, q, v), *id)).collect();
            d.sort_by(|a, b| a.partial_cmp(b).unwrap());
            d.iter().take(K).map(|x| x.1).collect()
        })
        .collect();
    let mut out = CellOut { cell: cell.clone(), recalls: Vec::new(), searches: 0, viol: SigBag::default() };
    for route in ["online", "bulk", "delete-compact", "recovery", "tombstoned-30", "tombstoned-45", "tombstoned-60"] {
        let b = match build_route(route, metric, cell.dim, &live, &filler, scratch) {
            Ok(b) => Arc::new(b),
            Err(e) => {
                out.viol.push((format!("C16|build-failed|{route}"), json!({"cell": cell, "detail": format!("{e:#}")})));
                continue;
            }
        };
        let mut hit = 0usize;
        let mut first: Vec<Vec<(u64, u32)>> = Vec::with_capacity(NQ);
        for (qi, q) in queries.iter().enumerate() {
            out.searches += 1;
            let res = b.knn_search(q, K).unwrap_or_default();
            // C06's soundness oracle on these LARGE collections too (above 1024 vectors the
            // search is no longer exhaustive, and the tombstoned states oversample): at most k
            // distinct live documents, true distances, non-decreasing order
            {
                let mut seen = BTreeSet::new();
                let mut prev = f32::NEG_INFINITY;
                let mut bad: Option<String> = None;
                if res.len() > K {
                    bad = Some(format!("{} results for k={K}", res.len()));
                }
                for r in &res {
                    let Some(v) = live.get(r.doc_id as usize).filter(|x| x.0 == r.doc_id).map(|x| &x.1) else {
                        bad = Some(format!("document {} is not live", r.doc_id));
                        break;
                    };
                    if !seen.insert(r.doc_id) {
                        bad = Some(format!("document {} twice", r.doc_id));
                        break;
                    }
                    let td = match metric {
                        DistanceMetric::Euclidean => tdist(metric, q, v).sqrt(),
                        DistanceMetric::InnerProduct => {
                            let dot: f64 = q.iter().zip(v).map(|(a, b)| (*a as f64) * (*b as f64)).sum();
                            1.0 - dot
                        }
                        _ => tdist(metric, q, v),
                    };
                    // accept either convention the engine documents for the metric (squared / plain L2, 1 - dot / 1 - cos)
                    let alt = match metric {
                        DistanceMetric::Euclidean => tdist(metric, q, v),
                        _ => tdist(DistanceMetric::Cosine, q, v),
                    };
                    let d = r.distance as f64;
                    let ok = (d - td).abs() <= 1e-3 * td.abs().max(1.0) || (d - alt).abs() <= 1e-3 * alt.abs().max(1.0);
                    if !ok {
                        bad = Some(format!("document {} reported at {d}, true distance {td} (or {alt})", r.doc_id));
                        break;
                    }
                    if r.distance < prev {
                        bad = Some(format!("distance {} after {}", r.distance, prev));
                        break;
                    }
                    prev = r.distance;
                }
                if let Some(b) = bad {
                    out.viol.push((format!("C16|unsound-result|{route}|{}", cell.metric), json!({"engine":"seqmc","check":"C16","cell": cell, "route": route, "query": qi, "detail": b})));
                }
            }
            hit += res.iter().filter(|r| truth[qi].contains(&r.doc_id)).count();
            first.push(res.iter().map(|r| (r.doc_id, r.distance.to_bits())).collect());
        }
        let recall = hit as f64 / (NQ * K) as f64;
        out.recalls.push((route.to_string(), recall));
        if recall < 0.80 {
            out.viol.push((format!("C16|recall-below-floor|{route}|{}", cell.metric), json!({"engine":"seqmc","check":"C16","cell": cell, "route": route, "recall": recall})));
        }
        // determinism: repeat every query from another thread — through the entry point that
        // carries a cancellation token (what the timed path / Search RPC always does), with a token
        // that never fires: an unfired token must not change what a search returns
        let b2 = b.clone();
        let qs = queries.clone();
        let second: Vec<Vec<(u64, u32)>> = std::thread::spawn(move || {
            let unfired = std::sync::atomic::AtomicBool::new(false);
            qs.iter().map(|q| b2.knn_search_with_ef_cancel(q, K, None, Some(&unfired)).unwrap_or_default().iter().map(|r| (r.doc_id, r.distance.to_bits())).collect()).collect()
        })
        .join()
        .unwrap();
        for qi in 0..NQ {
            out.searches += 1;
            let d1: Vec<u32> = first[qi].iter().map(|x| x.1).collect();
            let d2: Vec<u32> = second[qi].iter().map(|x| x.1).collect();
            if d1 != d2 {
                out.viol.push((format!("C16|repeat-search-returns-different-distances|{route}"), json!({"engine":"seqmc","check":"C16","cell": cell, "route": route, "query": qi})));
                break;
            }
            // ids may differ only among exactly tied distances
            for (a, bb) in first[qi].iter().zip(second[qi].iter()) {
                if a.0 != bb.0 {
                    let tied = first[qi].iter().filter(|x| x.1 == a.1).count() > 1;
                    if !tied {
                        out.viol.push((format!("C16|repeat-search-returns-different-documents|{route}"), json!({"engine":"seqmc","check":"C16","cell": cell, "route": route, "query": qi})));
                        break;
                    }
                }
            }
        }
    }
    // pairwise route difference — among the four routes the statement names; the uncompacted
    // tombstoned states are held to the floor only
    for i in 0..out.recalls.len() {
        for j in (i + 1)..out.recalls.len() {
            if out.recalls[i].0.starts_with("tombstoned-") || out.recalls[j].0.starts_with("tombstoned-") {
                continue;
            }
            let d = (out.recalls[i].1 - out.recalls[j].1).abs();
            if d > 0.10 {
                out.viol.push((
                    format!("C16|route-recall-gap|{}-vs-{}", out.recalls[i].0, out.recalls[j].0),
                    json!({"engine":"seqmc","check":"C16","cell": cell, "recalls": out.recalls}),
                ));
            }
        }
    }
    out
}

pub fn cells(tier: &str) -> Vec<Cell> {
    let mut v = Vec::new();
    let fams = ["uniform-sphere", "gaussian-clusters", "low-dim-manifold"];
    let metrics = ["cosine", "euclidean", "inner_product"];
    if tier == "thorough" {
        for family in fams {
            for metric in metrics {
                for dim in [8usize, 16, 32, 64] {
                    for size in [500usize, 2000, 5000] {
                        v.push(Cell { family, metric, dim, size });
                    }
                }
            }
        }
    } else {
        for (i, family) in fams.iter().enumerate() {
            for (j, metric) in metrics.iter().enumerate() {
                let dim = [8usize, 16, 32, 64][(i + j) % 4];
                v.push(Cell { family, metric, dim, size: 500 });
            }
        }
        // one cell above the size where the adaptive ef stops being exhaustive (1024), built
        // cluster by cluster
        v.push(Cell { family: "gaussian-clusters-grouped", metric: "euclidean", dim: 8, size: 4000 });
    }
    if tier == "thorough" {
        for metric in metrics {
            for (dim, size) in [(8usize, 4000usize), (16, 5000), (32, 2000)] {
                v.push(Cell { family: "gaussian-clusters-grouped", metric, dim, size });
            }
        }
    }
    v
}

fn run_cancel_slice(tier: &str) -> Result<Value, String> {
    let bin = std::env::var("MEMBOUND_IDX_BIN").map_err(|_| "MEMBOUND_IDX_BIN not set (run through bin/check)".to_string())?;
    let mut c = std::process::Command::new(&bin);
    c.env("MEMBOUND_ONLY", "cancel").env("ASAN_OPTIONS", "detect_leaks=0:abort_on_error=0:halt_on_error=1").env_remove("LD_PRELOAD");
    if tier == "thorough" {
        c.env("MEMBOUND_THOROUGH", "1");
    }
    let out = vcore::par::output_retry(&mut c).map_err(|e| format!("cannot run {bin}: {e}"))?;
    let stdout = String::from_utf8_lossy(&out.stdout);
    let line = stdout.lines().rev().find(|l| l.starts_with('{')).ok_or_else(|| format!("no result line; exit {:?}; stderr: {}", out.status.code(), String::from_utf8_lossy(&out.stderr).chars().take(600).collect::<String>()))?;
    let v: Value = serde_json::from_str(line).map_err(|e| format!("bad result: {e}"))?;
    match out.status.code() {
        Some(0) | Some(3) => Ok(v),
        other => Err(format!("exit {other:?}; stderr: {}", String::from_utf8_lossy(&out.stderr).chars().take(600).collect::<String>())),
    }
}

pub fn run(tier: &str, replay: Option<&str>) -> i32 {
    if replay.is_some() {
        println!("C16 replay files name the grid cell; re-run bin/check C16");
        return 0;
    }
    let cs = cells(tier);
    let outs = vcore::par::par_map(&cs, |i, c| {
        let scratch = Scratch::new(&format!("c16_{i}"));
        run_cell(c, &scratch)
    });
    let mut ev = Evidence::new("C16", tier, "exploration");
    let mut rep = Reporter::new("C16");
    let mut searches = 0u64;
    let mut table: Vec<Value> = Vec::new();
    let mut min_recall = 1.0f64;
    let mut max_gap = 0.0f64;
    let mut distinct: BTreeSet<u64> = BTreeSet::new();
    for o in &outs {
        searches += o.searches;
        rep.report_sigbag(&o.viol);
        for (_, r) in &o.recalls {
            min_recall = min_recall.min(*r);
            distinct.insert((r * 1e6) as u64);
        }
        let rs: Vec<f64> = o.recalls.iter().filter(|x| !x.0.starts_with("tombstoned-")).map(|x| x.1).collect();
        if let (Some(a), Some(b)) = (rs.iter().cloned().reduce(f64::max), rs.iter().cloned().reduce(f64::min)) {
            max_gap = max_gap.max(a - b);
        }
        table.push(json!({"cell": o.cell, "recall": o.recalls}));
    }
    // determinism after a CANCELLED search (hook-enabled ASan binary, see membound/idx): for every
    // cancellation point of every search of a small grid, the same query repeated right after
    // the cancelled one on the same thread must return the baseline answer
    let mut cancelled_searches = 0u64;
    match run_cancel_slice(tier) {
        Ok(v) => {
            cancelled_searches = v["cancelled_searches"].as_u64().unwrap_or(0);
            ev.set("cancellation_points_enumerated", v["cancel_points"].clone());
            ev.set("cancelled_searches_followed_by_two_repeats", v["cancelled_searches"].clone());
            if let Some(d) = v["repeat_after_cancel_differs"].as_array().and_then(|a| a.first()) {
                rep.report("C16|repeat-search-after-a-cancelled-search-returns-different-results", json!({"engine":"membound-idx","check":"C16","slice":"cancel","detail":d}));
            }
        }
        Err(e) => {
            eprintln!("C16: machinery error in the cancellation slice: {e}");
            return 2;
        }
    }
    ev.set("evaluations", searches + cancelled_searches);
    ev.set("distinct_nontrivial", outs.iter().map(|o| o.recalls.len() as u64).sum::<u64>());
    ev.set("rule", format!("fixed grid, fixed seeds: family {{uniform sphere, Gaussian clusters, low-dimensional manifold, tight, well separated Gaussian clusters with cluster-major document ids (graph built cluster by cluster, sizes above the 1024-vector exhaustive-ef regime)}} x metric x dimension x size ({} cells) x build route {{online inserts in a seeded shuffled arrival order, bulk build (id order), 60 % delete + forced tombstone compaction, snapshot + recovery rebuild, and the heavy-delete route BEFORE compaction with 30 % / 45 % / 60 % of the slots tombstoned}}, 200 queries each at the default index parameters; recall@10 against an f64 brute force must be >= 0.80, every result list must be sound (at most k distinct live documents, true distances, non-decreasing order — the C06 oracle on collections above the exhaustive-search regime), the recall of two routes of one cell must not differ by more than 0.10, and every query repeated from another thread must return bit-identical distances and the same documents except among exactly tied distances; and (cancellation slice, --cfg kyrodb_verif hook) for every cancellation point of every search of a small index grid, the query repeated twice right after the cancelled search on the same thread returns exactly the baseline answer. distinct_nontrivial = (cell, route) pairs built and measured", cs.len()));
    ev.set("samples", json!(table.iter().take(3).collect::<Vec<_>>()));
    ev.set("exhaustive", true);
    ev.set("grid_cells", cs.len() as u64);
    ev.set("min_recall_seen", min_recall);
    ev.set("max_route_gap_seen", max_gap);
    ev.set("max_route_gap_is_over", "the four routes the statement names (uncompacted tombstoned states are held to the floor only)");
    ev.set("distinct_recall_values", distinct.len() as u64);
    ev.set("recall_table", Value::Array(table));
    ev.assume("this is an exhaustive enumeration of a FIXED grid with FIXED seeds: it establishes the floor on these datasets only; no bounded exhaustive space implies a statistical recall floor on other data");
    ev.violations = rep.violations as i64;
    ev.write();
    println!("C16 {tier}: cells={} searches={} min_recall={:.4} max_route_gap={:.4} violations={}", cs.len(), searches, min_recall, max_gap, rep.violations);
    rep.finish()
}
