//! C02 — restart is lossless. Exhaustive histories x configuration grid x restart placements.

use serde_json::json;
use std::collections::BTreeSet;
use vcore::evidence::Evidence;
use vcore::exec::{apply_backend, edge_alphabet, sequences, std_alphabet, BackendCfg};
use vcore::findings::Reporter;
use vcore::model::{dump_vs_model, Op, RefModel};
use vcore::{dump_backend, dump_to_json, Dump, Scratch};

pub struct Outcome {
    pub violation: Option<(String, String)>, // (signature, detail)
    pub ops_executed: u64,
    pub restarts: u64,
    pub states: Vec<u64>,
    pub refused_full: u64,
}

fn hash_dump(d: &Dump) -> u64 {
    use std::hash::{Hash, Hasher};
    let mut h = std::collections::hash_map::DefaultHasher::new();
    for (k, (v, m)) in d {
        k.hash(&mut h);
        v.hash(&mut h);
        for (a, b) in m {
            a.hash(&mut h);
            b.hash(&mut h);
        }
    }
    h.finish()
}

fn classify(msg: &str) -> &'static str {
    if msg.contains("missing") {
        "doc-missing"
    } else if msg.contains("present but model says absent") {
        "doc-resurrected"
    } else if msg.contains("vector differs") {
        "vector-differs"
    } else if msg.contains("metadata differs") {
        "metadata-differs"
    } else {
        "other"
    }
}

/// Run one history against a fresh persistent backend; every `Restart` and the end of the
/// history are restart checks (live dump == recovered dump bit-for-bit == model).
pub fn run_history(cfg: &BackendCfg, hist: &[Op], scratch: &Scratch, tag: usize) -> Outcome {
    let dir = scratch.path.join(format!("h{tag}"));
    let _ = std::fs::remove_dir_all(&dir);
    let mut out = Outcome { violation: None, ops_executed: 0, restarts: 0, states: Vec::new(), refused_full: 0 };
    let mut model = RefModel::default();
    let mut b = match cfg.open_fresh(&dir) {
        Ok(b) => b,
        Err(e) => {
            out.violation = Some(("C02|open-fresh|error".into(), format!("{e:#}")));
            return out;
        }
    };
    let metric = cfg.metric();
    let mut ops: Vec<Op> = hist.to_vec();
    ops.push(Op::Restart); // final restart check
    for (i, op) in ops.iter().enumerate() {
        out.ops_executed += 1;
        if matches!(op, Op::Restart) {
            let live = dump_backend(&b);
            drop(b);
            out.restarts += 1;
            b = match cfg.recover(&dir) {
                Ok(b) => b,
                Err(e) => {
                    out.violation = Some((
                        "C02|restart|recover-error".into(),
                        format!("step {i}: recover failed: {e:#}"),
                    ));
                    let _ = std::fs::remove_dir_all(&dir);
                    return out;
                }
            };
            let rec = dump_backend(&b);
            out.states.push(hash_dump(&rec));
            if rec != live {
                // classify against live
                let mut kind = "other";
                for (id, lv) in &live {
                    match rec.get(id) {
                        None => {
                            kind = "doc-missing";
                            break;
                        }
                        Some(rv) if rv.0 != lv.0 => {
                            kind = "vector-differs";
                            break;
                        }
                        Some(rv) if rv.1 != lv.1 => {
                            kind = "metadata-differs";
                            break;
                        }
                        _ => {}
                    }
                }
                if kind == "other" && rec.keys().any(|k| !live.contains_key(k)) {
                    kind = "doc-resurrected";
                }
                out.violation = Some((
                    format!("C02|restart|{kind}"),
                    format!(
                        "step {i}: recovered dump differs from live dump: live={} recovered={}",
                        dump_to_json(&live),
                        dump_to_json(&rec)
                    ),
                ));
                let _ = std::fs::remove_dir_all(&dir);
                return out;
            }
            if let Err(e) = dump_vs_model(metric, &rec, &model) {
                out.violation = Some((
                    format!("C02|restart-vs-model|{}", classify(&e)),
                    format!("step {i}: {e}"),
                ));
                let _ = std::fs::remove_dir_all(&dir);
                return out;
            }
            continue;
        }
        let want = model.clone().apply(op);
        match apply_backend(&b, op) {
            Ok(got) => {
                model.apply(op);
                if got != want {
                    out.violation = Some((
                        format!("C02|retval|{}", op.short().split('(').next().unwrap_or("op")),
                        format!("step {i} {}: returned {got:?}, model {want:?}", op.short()),
                    ));
                    let _ = std::fs::remove_dir_all(&dir);
                    return out;
                }
            }
            // an insert refused because the index holds `capacity` LIVE documents (only possible
            // with the third id of the edge alphabet) is a legitimate refusal: no effect, go on
            Err(e) if e.contains("index full") && matches!(op, Op::Ins { .. }) && model.docs.len() >= cfg.capacity => {
                out.refused_full += 1;
            }
            // cosine / inner product refuse a vector whose squared norm is <= f32::EPSILON as
            // zero-norm (numeric grid, magnitude 1e-3): a refusal of unusable input, no effect
            Err(e) if e.contains("norm is zero") && !matches!(metric, kyrodb_engine::config::DistanceMetric::Euclidean) && matches!(op, Op::Ins { v, .. } if v.iter().map(|x| (*x as f64) * (*x as f64)).sum::<f64>() <= 1.3e-7) => {
                out.refused_full += 1;
            }
            Err(e) => {
                out.violation = Some((
                    format!("C02|unexpected-error|{}", op.short().split('(').next().unwrap_or("op")),
                    format!("step {i} {}: {e}", op.short()),
                ));
                let _ = std::fs::remove_dir_all(&dir);
                return out;
            }
        }
        let live = dump_backend(&b);
        out.states.push(hash_dump(&live));
        if let Err(e) = dump_vs_model(metric, &live, &model) {
            out.violation = Some((format!("C02|live|{}", classify(&e)), format!("step {i} {}: {e}", op.short())));
            let _ = std::fs::remove_dir_all(&dir);
            return out;
        }
    }
    drop(b);
    let _ = std::fs::remove_dir_all(&dir);
    out
}

fn grid(tier: &str) -> Vec<BackendCfg> {
    let mut v = Vec::new();
    let mk = |metric: &str, dim: usize, snap: usize, rot: u64, cap: usize| BackendCfg {
        metric: metric.into(),
        dim,
        capacity: cap,
        snap_interval: snap,
        rotation: rot,
        fsync: "always".into(),
    };
    if tier == "thorough" {
        for metric in ["cosine", "euclidean", "inner_product"] {
            for dim in [2usize, 3] {
                for snap in [1usize, 2, 1000, 0] {
                    for rot in [1u64, 1 << 20] {
                        for cap in [3usize, 64] {
                            v.push(mk(metric, dim, snap, rot, cap));
                        }
                    }
                }
            }
        }
    } else {
        v.push(mk("euclidean", 2, 2, 1, 3));
        v.push(mk("cosine", 2, 1, 1, 64));
        v.push(mk("inner_product", 3, 0, 1 << 20, 3));
        v.push(mk("cosine", 3, 1000, 1, 3));
        v.push(mk("euclidean", 3, 1, 1 << 20, 64));
        v.push(mk("inner_product", 2, 2, 1, 64));
    }
    v
}

/// Numeric-grid history: `n` documents with un-normalised vectors over seven magnitudes (1e-3 ..
/// 1e3), signed-zero components, a restart in the middle (WAL replay), a snapshot, two more
/// restarts (snapshot load, then snapshot load again), overwrites and a last restart (snapshot +
/// WAL tail). Under cosine / inner product every recovery re-runs the normalisation on vectors
/// that are already normalised, so stored bits only survive if that step is idempotent on every
/// rounding outcome; small "nice" alphabets never exercise that.
pub fn numeric_grid_history(dim: usize, n: usize) -> Vec<Op> {
    use vcore::model::meta1;
    let scales = [1.0f32, 0.37, 2.5, 1e-3, 1e3, 0.999, 17.0];
    let vector = |i: usize, salt: usize| -> Vec<f32> {
        let s = scales[(i + salt) % scales.len()];
        let mut v: Vec<f32> = (0..dim).map(|j| (((i * 7919 + j * 104_729 + i * j * 31 + salt * 613) % 2001) as f32 / 1000.0 - 1.0) * s).collect();
        if i % 11 == 3 && dim > 1 {
            v[dim - 1] = -0.0;
        }
        if v.iter().all(|x| *x == 0.0) {
            v[0] = s;
        }
        v
    };
    let mut h = Vec::new();
    for i in 0..n {
        h.push(Op::Ins { id: (i + 1) as u64, v: vector(i, 0), m: meta1("i", &i.to_string()) });
        if i == n / 2 {
            h.push(Op::Restart);
        }
    }
    h.push(Op::Snap);
    h.push(Op::Restart);
    h.push(Op::Restart);
    for i in (0..n).step_by(5) {
        h.push(Op::Ins { id: (i + 1) as u64, v: vector(i, 3), m: meta1("o", &i.to_string()) });
    }
    h.push(Op::Restart);
    h
}

pub fn run(tier: &str, replay: Option<&str>) -> i32 {
    if let Some(path) = replay {
        return run_replay(path);
    }
    let depth: usize = std::env::var("C02_DEPTH").ok().and_then(|s| s.parse().ok()).unwrap_or(if tier == "thorough" { 6 } else { 5 });
    let cfgs = grid(tier);
    let mut ev = Evidence::new("C02", tier, "model_checking");
    let mut rep = Reporter::new("C02");
    // shards: (cfg index, first letter)
    let nletters = std_alphabet(2).len();
    // shards: (cfg index, first letter); first letters >= 1000 belong to the edge-shape pass
    // (13-letter alphabet, one level shallower)
    let mut shards: Vec<(usize, usize)> = Vec::new();
    for c in 0..cfgs.len() {
        for l in 0..nletters {
            shards.push((c, l));
        }
        for l in 0..edge_alphabet(2).len() {
            shards.push((c, 1000 + l));
        }
    }
    struct ShardOut {
        hist: u64,
        ops: u64,
        restarts: u64,
        states: BTreeSet<u64>,
        viol: Vec<(String, String, serde_json::Value)>,
        multi_restart: u64,
    }
    let results = vcore::par::par_map(&shards, |si, (ci, first)| {
        let cfg = &cfgs[*ci];
        let (alpha, depth, first) = if *first >= 1000 { (edge_alphabet(cfg.dim), depth - 1, *first - 1000) } else { (std_alphabet(cfg.dim), depth, *first) };
        let first = &first;
        let scratch = Scratch::new(&format!("c02s{si}"));
        let mut so = ShardOut { hist: 0, ops: 0, restarts: 0, states: BTreeSet::new(), viol: Vec::new(), multi_restart: 0 };
        for seq in sequences(alpha.len(), depth, &[*first]) {
            let hist: Vec<Op> = seq.iter().map(|&i| alpha[i].clone()).collect();
            let o = run_history(cfg, &hist, &scratch, 0);
            so.hist += 1;
            so.ops += o.ops_executed;
            so.restarts += o.restarts;
            if o.restarts >= 2 {
                so.multi_restart += 1;
            }
            for s in o.states {
                so.states.insert(s);
            }
            if let Some((sig, detail)) = o.violation {
                if so.viol.len() < 50 {
                    so.viol.push((
                        sig,
                        detail.clone(),
                        json!({"engine":"seqmc","check":"C02","cfg": cfg, "history": hist, "detail": detail}),
                    ));
                }
            }
        }
        so
    });
    let mut hist = 0u64;
    let mut ops = 0u64;
    let mut restarts = 0u64;
    let mut multi = 0u64;
    let mut states: BTreeSet<u64> = BTreeSet::new();
    for so in results {
        hist += so.hist;
        ops += so.ops;
        restarts += so.restarts;
        multi += so.multi_restart;
        states.extend(so.states);
        for (sig, _detail, replay) in so.viol {
            rep.report(&sig, replay);
        }
    }
    // numeric grid: metric x dimension x (rotation, snapshot interval)
    let ngrid_n: usize = if tier == "thorough" { 600 } else { 150 };
    let mut ngrid: Vec<BackendCfg> = Vec::new();
    for metric in ["cosine", "inner_product", "euclidean"] {
        for dim in [2usize, 3, 8, 17, 48] {
            for (snap, rot) in [(0usize, 1u64 << 20), (7, 1)] {
                ngrid.push(BackendCfg { metric: metric.into(), dim, capacity: ngrid_n + 8, snap_interval: snap, rotation: rot, fsync: "always".into() });
            }
        }
    }
    let ngrid_out = vcore::par::par_map(&ngrid, |gi, cfg| {
        let scratch = Scratch::new(&format!("c02g{gi}"));
        let hist = numeric_grid_history(cfg.dim, ngrid_n);
        let o = run_history(cfg, &hist, &scratch, 0);
        (o.ops_executed, o.restarts, o.violation.map(|(sig, detail)| (format!("{sig}|numeric-grid"), json!({"engine":"seqmc","check":"C02","cfg": cfg, "history": hist, "detail": detail.chars().take(600).collect::<String>()}))))
    });
    let mut ngrid_ops = 0u64;
    let mut ngrid_restarts = 0u64;
    for (o, r, v) in ngrid_out {
        ngrid_ops += o;
        ngrid_restarts += r;
        if let Some((sig, replay)) = v {
            rep.report(&sig, replay);
        }
    }
    ev.set("numeric_grid", json!({"configurations": ngrid.len(), "documents_per_history": ngrid_n, "operations": ngrid_ops, "restart_checks": ngrid_restarts,
        "rule": "metric x dim {2,3,8,17,48} x {manual snapshot + no rotation, snapshot every 7 + rotate every write}: a fixed lattice of un-normalised vectors over seven magnitudes (1e-3..1e3) with signed-zero components is inserted, restarted mid-way (WAL replay), snapshotted, restarted twice, partly overwritten, restarted; every restart compares live and recovered dumps bit for bit"}));
    let alpha = std_alphabet(2);
    ev.set("states", states.len() as u64);
    ev.set("transitions", ops);
    ev.set("traces_validated_against_impl", hist);
    ev.set("evaluations", hist);
    ev.set("distinct_nontrivial", multi);
    ev.set("rule", format!("all {}^{} histories over the 9-letter alphabet (ids {{1,2}}, overwrite, delete, batch delete with duplicate, metadata merge/replace, SNAP, RESTART) per configuration; every RESTART letter and the end of every history is a restart check; non-trivial = histories with >= 2 restart checks; states = distinct canonical collection dumps observed; plus an edge-shape pass one level shallower over a 13-letter alphabet (adds replace-with-empty metadata, an empty batch delete, a batch naming absent ids around a present one, and a third id carrying the same vector as id 1; an insert refused because the index holds capacity live documents is a legitimate refusal)", alpha.len(), depth));
    ev.set("exhaustive", true);
    ev.set("depth", depth as u64);
    ev.set("configurations", cfgs.iter().map(|c| c.label()).collect::<Vec<_>>());
    ev.set("restart_checks", restarts);
    ev.set(
        "samples",
        json!([
            {"cfg": cfgs[0].label(), "history": sequences(alpha.len(), depth, &[1]).get(777 % 6561.min(alpha.len().pow((depth-1) as u32))).map(|s| s.iter().map(|&i| std_alphabet(cfgs[0].dim)[i].short()).collect::<Vec<_>>())},
            {"cfg": cfgs[cfgs.len()-1].label(), "history": sequences(alpha.len(), depth, &[2]).get(4242 % alpha.len().pow((depth-1) as u32)).map(|s| s.iter().map(|&i| std_alphabet(cfgs[cfgs.len()-1].dim)[i].short()).collect::<Vec<_>>())},
        ]),
    );
    ev.assume("reference model: ordered map with upsert/delete/batch-delete/metadata merge+replace semantics");
    ev.assume("REALTIME clock served by kvshim (1 us per call) so that wal_/snapshot_ file ids never collide; engine otherwise unmodified");
    ev.assume("cosine/inner-product inputs outside the [0.98,1.02] squared-norm band are compared to the f64-normalised input within 2e-6; live-vs-recovered is always bit-exact");
    ev.violations = rep.violations as i64;
    ev.write();
    println!(
        "C02 {tier}: configs={} depth={} histories={} ops={} restart_checks={} distinct_states={} violations={}",
        cfgs.len(), depth, hist, ops, restarts, states.len(), rep.violations
    );
    rep.finish()
}

fn run_replay(path: &str) -> i32 {
    let txt = std::fs::read_to_string(path).expect("read replay");
    let v: serde_json::Value = serde_json::from_str(&txt).expect("parse replay");
    let case = &v["case"];
    let cfg: BackendCfg = serde_json::from_value(case["cfg"].clone()).expect("cfg");
    let hist: Vec<Op> = serde_json::from_value(case["history"].clone()).expect("history");
    let scratch = Scratch::new("c02replay");
    let o = run_history(&cfg, &hist, &scratch, 0);
    match o.violation {
        Some((sig, detail)) => {
            println!("replay: VIOLATION reproduced: {sig}: {detail}");
            println!("VIOLATION property=C02 replay={path}");
            1
        }
        None => {
            println!("replay: no violation");
            0
        }
    }
}
