//! C11 — metadata filters select exactly the matching documents.
//! (A) all filter trees up to depth 2 over all leaves (depth 3 over representative leaves) on wide
//!     collections covering every value class, fresh / after index maintenance / after recovery;
//! (B) all histories up to a depth over three ids, every leaf + representative trees after each
//!     step; (C) TieredEngine::batch_delete_by_metadata_filter removes exactly the matching set.

use crate::te::{Te, TeCfg};
use kyrodb_engine::proto::metadata_filter::FilterType;
use kyrodb_engine::proto::range_match::Bound;
use kyrodb_engine::proto::{AndFilter, ExactMatch, InMatch, MetadataFilter, NotFilter, OrFilter, RangeMatch};
use kyrodb_engine::HnswBackend;
use serde_json::{json, Value};
use std::collections::{BTreeMap, BTreeSet, HashMap};
use vcore::evidence::Evidence;
use vcore::exec::{sequences, BackendCfg};
use vcore::findings::{Reporter, SigBag};
use vcore::{to_hash, Meta, Scratch};

pub const VALUES: [&str; 18] = ["1", "2", "1.5", "1e1", "+1", "-0.0", "0", "inf", "-inf", "NaN", " 1", "", "é", "abc", "10", "LONG", "LONGNUM", "PADNUM"];
const NV: usize = VALUES.len();

/// LONG = 300 non-numeric bytes; LONGNUM = the 36-digit decimal literal of 1e35 (what
/// format!("{}", 1e35_f64) prints); PADNUM = 7 zero-padded to 40 digits. The last two are numbers
/// whatever their length, so they compare numerically against numeric bounds (and sort
/// differently as strings: "000..07" < "1" < "2" but 7 > 2).
fn val(i: usize) -> String {
    match VALUES[i] {
        "LONG" => "x".repeat(300),
        "LONGNUM" => format!("1{}", "0".repeat(35)),
        "PADNUM" => format!("{}7", "0".repeat(39)),
        v => v.to_string(),
    }
}

// ------------------------------------------------------------------------------------------
// Independent reference semantics (transcribed from the documented behaviour: numeric comparison
// when both sides parse as f64, else lexicographic byte order; missing key never matches a leaf;
// empty filter = true; And[] = true; Or[] = false; Not(None) = false).
// ------------------------------------------------------------------------------------------
#[derive(Clone, Debug, PartialEq)]
pub enum F {
    Empty,
    Exact(String, String),
    In(String, Vec<String>),
    Range(String, Option<(u8, String)>), // 0 gte 1 lte 2 gt 3 lt
    And(Vec<F>),
    Or(Vec<F>),
    Not(Option<Box<F>>),
}

pub fn ref_matches(f: &F, m: &Meta) -> bool {
    match f {
        F::Empty => true,
        F::Exact(k, v) => m.get(k).map(|x| x == v).unwrap_or(false),
        F::In(k, vs) => m.get(k).map(|x| vs.contains(x)).unwrap_or(false),
        F::Range(k, b) => {
            let Some(x) = m.get(k) else { return false };
            let Some((op, bound)) = b else { return true };
            if let (Ok(a), Ok(bn)) = (x.parse::<f64>(), bound.parse::<f64>()) {
                return match op {
                    0 => a >= bn,
                    1 => a <= bn,
                    2 => a > bn,
                    _ => a < bn,
                };
            }
            match op {
                0 => x >= bound,
                1 => x <= bound,
                2 => x > bound,
                _ => x < bound,
            }
        }
        F::And(fs) => fs.iter().all(|g| ref_matches(g, m)),
        F::Or(fs) => fs.iter().any(|g| ref_matches(g, m)),
        F::Not(None) => false,
        F::Not(Some(g)) => !ref_matches(g, m),
    }
}

pub fn to_proto(f: &F) -> MetadataFilter {
    let ft = match f {
        F::Empty => None,
        F::Exact(k, v) => Some(FilterType::Exact(ExactMatch { key: k.clone(), value: v.clone() })),
        F::In(k, vs) => Some(FilterType::InMatch(InMatch { key: k.clone(), values: vs.clone() })),
        F::Range(k, b) => Some(FilterType::Range(RangeMatch {
            key: k.clone(),
            bound: b.as_ref().map(|(op, v)| match op {
                0 => Bound::Gte(v.clone()),
                1 => Bound::Lte(v.clone()),
                2 => Bound::Gt(v.clone()),
                _ => Bound::Lt(v.clone()),
            }),
        })),
        F::And(fs) => Some(FilterType::AndFilter(AndFilter { filters: fs.iter().map(to_proto).collect() })),
        F::Or(fs) => Some(FilterType::OrFilter(OrFilter { filters: fs.iter().map(to_proto).collect() })),
        F::Not(g) => Some(FilterType::NotFilter(Box::new(NotFilter { filter: g.as_ref().map(|x| Box::new(to_proto(x))) }))),
    };
    MetadataFilter { filter_type: ft }
}

fn kind(f: &F) -> &'static str {
    match f {
        F::Empty => "empty",
        F::Exact(..) => "exact",
        F::In(..) => "in",
        F::Range(_, None) => "range-nobound",
        F::Range(..) => "range",
        F::And(v) if v.is_empty() => "and-empty",
        F::And(_) => "and",
        F::Or(v) if v.is_empty() => "or-empty",
        F::Or(_) => "or",
        F::Not(None) => "not-none",
        F::Not(_) => "not",
    }
}

pub fn leaves() -> Vec<F> {
    let mut v = vec![F::Empty, F::And(vec![]), F::Or(vec![]), F::Not(None)];
    for k in ["a", "b"] {
        for i in 0..VALUES.len() {
            v.push(F::Exact(k.into(), val(i)));
        }
        // In: subsets of size 0,1,2 over a reduced value set
        let red = [0usize, 5, 6, 9, 11, 13];
        v.push(F::In(k.into(), vec![]));
        for (x, &i) in red.iter().enumerate() {
            v.push(F::In(k.into(), vec![val(i)]));
            for &j in &red[x + 1..] {
                v.push(F::In(k.into(), vec![val(i), val(j)]));
            }
        }
        v.push(F::Range(k.into(), None));
        for op in 0..4u8 {
            for i in 0..VALUES.len() {
                v.push(F::Range(k.into(), Some((op, val(i)))));
            }
        }
    }
    // a key no document has
    v.push(F::Exact("zz".into(), "1".into()));
    v.push(F::Range("zz".into(), Some((0, "0".into()))));
    v
}

pub fn representative_leaves() -> Vec<F> {
    vec![
        F::Empty,
        F::Or(vec![]),
        F::Not(None),
        F::Exact("a".into(), "1".into()),
        F::Exact("b".into(), "".into()),
        F::In("a".into(), vec!["-0.0".into(), "abc".into()]),
        F::Range("a".into(), Some((0, "0".into()))),
        F::Range("a".into(), Some((3, "NaN".into()))),
        F::Range("b".into(), Some((2, "abc".into()))),
        F::Range("a".into(), Some((1, "inf".into()))),
        F::Range("b".into(), None),
        F::Range("a".into(), Some((2, val(17)))),
    ]
}

fn trees_depth2(ls: &[F], pair_with: &[F]) -> Vec<F> {
    let mut v = Vec::new();
    for l in ls {
        v.push(F::Not(Some(Box::new(l.clone()))));
        v.push(F::And(vec![l.clone()]));
        for r in pair_with {
            v.push(F::And(vec![l.clone(), r.clone()]));
            v.push(F::Or(vec![l.clone(), r.clone()]));
        }
    }
    v
}

// ------------------------------------------------------------------------------------------

#[derive(Default)]
pub struct Stats {
    pub filter_evals: u64,
    pub nonempty_selections: u64,
    pub states: BTreeSet<u64>,
    pub histories: u64,
    pub deletes_checked: u64,
    pub viol: SigBag,
    pub ref_vs_engine_matches_disagreements: u64,
}

fn model_select(f: &F, model: &BTreeMap<u64, Meta>) -> BTreeSet<u64> {
    model.iter().filter(|(_, m)| ref_matches(f, m)).map(|(k, _)| *k).collect()
}

fn check_filters(b: &HnswBackend, model: &BTreeMap<u64, Meta>, filters: &[F], ctx: &Value, st: &mut Stats) -> bool {
    for f in filters {
        st.filter_evals += 1;
        let p = to_proto(f);
        let got: BTreeSet<u64> = b.ids_for_metadata_filter(&p).into_iter().collect();
        let want = model_select(f, model);
        if !want.is_empty() {
            st.nonempty_selections += 1;
        }
        // cross-check the independent reference against the engine's evaluator
        for m in model.values() {
            if kyrodb_engine::metadata_filter::matches(&p, &to_hash(m)) != ref_matches(f, m) {
                st.ref_vs_engine_matches_disagreements += 1;
            }
        }
        if got != want {
            let sym = if got.iter().any(|x| !want.contains(x)) { "selects-non-matching" } else { "misses-matching" };
            st.viol.push((
                format!("C11|ids_for_metadata_filter|{}|{sym}", kind(f)),
                json!({"engine":"seqmc","check":"C11","context":ctx,"filter":format!("{f:?}"),"got":got,"want":want,
                       "metadata": model.iter().map(|(k,v)| (k.to_string(), v.clone())).collect::<BTreeMap<_,_>>()}),
            ));
            return false;
        }
    }
    true
}

fn meta2(a: Option<usize>, b: Option<usize>) -> Meta {
    let mut m = Meta::new();
    if let Some(i) = a {
        m.insert("a".into(), val(i));
    }
    if let Some(i) = b {
        m.insert("b".into(), val(i));
    }
    m
}

fn bcfg(cap: usize) -> BackendCfg {
    BackendCfg { metric: "euclidean".into(), dim: 2, capacity: cap, snap_interval: 0, rotation: 1 << 20, fsync: "never".into() }
}

/// Wide collection: 17 docs covering every value class (and absence) for both keys.
fn wide(b: &HnswBackend, model: &mut BTreeMap<u64, Meta>, shift: usize) {
    for i in 0..=NV {
        let a = if i < NV { Some((i + shift) % NV) } else { None };
        let bb = if (7 * i + 3 + shift) % (NV + 1) < NV { Some((7 * i + 3 + shift) % (NV + 1)) } else { None };
        let m = meta2(a, bb);
        b.insert(100 + i as u64, vec![i as f32, 1.0], to_hash(&m)).expect("insert");
        model.insert(100 + i as u64, m);
    }
    // the empty-map edge: a live document without any metadata, and one whose metadata is
    // emptied in place by a replace-with-{} update
    b.insert(150, vec![50.0, 1.0], to_hash(&Meta::new())).expect("insert");
    model.insert(150, Meta::new());
    let m = meta2(Some(3), Some(4));
    b.insert(151, vec![51.0, 1.0], to_hash(&m)).expect("insert");
    b.update_metadata(151, to_hash(&Meta::new()), false).expect("update");
    model.insert(151, Meta::new());
}

fn part_a(tier: &str, st: &mut Stats) {
    let scratch = Scratch::new("c11a");
    let dir = scratch.path.join("d");
    let cfg = bcfg(64);
    let b = cfg.open_fresh(&dir).expect("open");
    let mut model = BTreeMap::new();
    wide(&b, &mut model, 0);
    let ls = leaves();
    let reps = representative_leaves();
    let mut filters = ls.clone();
    filters.extend(trees_depth2(&ls, if tier == "thorough" { &ls } else { &reps }));
    if tier == "thorough" {
        let d2 = trees_depth2(&reps, &reps);
        filters.extend(trees_depth2(&d2, &reps));
    }
    if !check_filters(&b, &model, &filters, &json!({"part":"A","collection":"wide-fresh"}), st) {
        return;
    }
    st.states.insert(1);
    // maintenance: overwrites with shifted metadata, merges, replaces, deletes, re-inserts
    for i in 0..=(NV as u64) {
        let id = 100 + i;
        match i % 5 {
            0 => {
                let m = meta2(Some(((i as usize) + 3) % NV), None);
                b.insert(id, vec![i as f32, 2.0], to_hash(&m)).unwrap();
                model.insert(id, m);
            }
            1 => {
                let m = meta2(None, Some(((i as usize) + 5) % NV));
                b.update_metadata(id, to_hash(&m), true).unwrap();
                for (k, v) in m {
                    model.get_mut(&id).unwrap().insert(k, v);
                }
            }
            2 => {
                let m = meta2(Some(9), Some(5));
                b.update_metadata(id, to_hash(&m), false).unwrap();
                model.insert(id, m);
            }
            3 => {
                b.delete(id).unwrap();
                model.remove(&id);
            }
            _ => {
                b.delete(id).unwrap();
                let m = meta2(Some(6), Some(6));
                b.insert(id, vec![i as f32, 3.0], to_hash(&m)).unwrap();
                model.insert(id, m);
            }
        }
    }
    if !check_filters(&b, &model, &filters, &json!({"part":"A","collection":"wide-after-maintenance"}), st) {
        return;
    }
    st.states.insert(2);
    // force tombstone compaction: fill the index (capacity 64) with overwrites of one id
    for r in 0..60u64 {
        let m = meta2(Some((r as usize) % NV), Some(((r as usize) * 5) % NV));
        b.insert(100, vec![r as f32, 4.0], to_hash(&m)).unwrap();
        model.insert(100, m);
    }
    if !check_filters(&b, &model, &filters, &json!({"part":"A","collection":"wide-after-tombstone-compaction"}), st) {
        return;
    }
    st.states.insert(3);
    b.create_snapshot().unwrap();
    drop(b);
    let b = cfg.recover(&dir).expect("recover");
    if !check_filters(&b, &model, &filters, &json!({"part":"A","collection":"wide-after-recovery"}), st) {
        return;
    }
    st.states.insert(4);
}

/// (A2) every ordered pair of value classes as an in-place transition of one document's value
/// (update_metadata keeps the internal id, overwrite allocates a new one), with a bystander
/// document of every class; all leaves on that key are evaluated after the transition.
fn part_a2(st: &mut Stats) {
    let ls: Vec<F> = leaves().into_iter().filter(|f| match f { F::Exact(k, _) | F::In(k, _) | F::Range(k, _) => k == "a", _ => true }).collect();
    let mut filters = ls.clone();
    filters.extend(ls.iter().map(|l| F::Not(Some(Box::new(l.clone())))));
    let cfg = bcfg(64);
    for how in ["merge", "replace", "overwrite", "delete-reinsert"] {
        for x in 0..=VALUES.len() {
            let scratch = Scratch::new("c11a2");
            let dir = scratch.path.join("d");
            let b = cfg.open_fresh(&dir).expect("open");
            let mut model: BTreeMap<u64, Meta> = BTreeMap::new();
            // bystanders: one document per class
            for i in 0..VALUES.len() {
                let m = meta2(Some(i), Some((i + 1) % NV));
                b.insert(300 + i as u64, vec![i as f32, 7.0], to_hash(&m)).unwrap();
                model.insert(300 + i as u64, m);
            }
            for y in 0..=VALUES.len() {
                let mx = meta2(if x < NV { Some(x) } else { None }, Some(0));
                let my = meta2(if y < NV { Some(y) } else { None }, Some(0));
                let id = 200u64;
                let _ = b.delete(id);
                b.insert(id, vec![1.0, 1.0], to_hash(&mx)).unwrap();
                match how {
                    "merge" => {
                        // merge cannot remove a key: absent target means "unchanged"
                        b.update_metadata(id, to_hash(&my), true).unwrap();
                        let mut cur = mx.clone();
                        for (k, v) in &my {
                            cur.insert(k.clone(), v.clone());
                        }
                        model.insert(id, cur);
                    }
                    "replace" => {
                        b.update_metadata(id, to_hash(&my), false).unwrap();
                        model.insert(id, my.clone());
                    }
                    "overwrite" => {
                        b.insert(id, vec![2.0, 2.0], to_hash(&my)).unwrap();
                        model.insert(id, my.clone());
                    }
                    _ => {
                        b.delete(id).unwrap();
                        b.insert(id, vec![3.0, 3.0], to_hash(&my)).unwrap();
                        model.insert(id, my.clone());
                    }
                }
                st.states.insert(10_000 + (x * 100 + y) as u64);
                if !check_filters(&b, &model, &filters, &json!({"part":"A2","how":how,"from":VALUES.get(x),"to":VALUES.get(y)}), st) {
                    return;
                }
            }
        }
    }
}

#[derive(Clone, Debug, serde::Serialize, serde::Deserialize)]
enum HOp {
    Ins(u64, Option<usize>, Option<usize>),
    Upd(u64, Option<usize>, Option<usize>, bool),
    Del(u64),
    Restart,
}

fn h_alphabet() -> Vec<HOp> {
    vec![
        HOp::Ins(1, Some(0), None),
        HOp::Ins(1, Some(5), Some(13)),
        HOp::Ins(2, Some(6), Some(0)),
        HOp::Ins(3, Some(9), None),
        HOp::Ins(3, None, Some(11)),
        HOp::Upd(1, Some(14), None, true),
        HOp::Upd(1, None, Some(2), false),
        HOp::Upd(2, Some(7), Some(8), true),
        HOp::Del(1),
        HOp::Del(2),
        HOp::Restart,
        // empty-map edge
        HOp::Ins(2, None, None),
        HOp::Upd(1, None, None, false),
    ]
}

fn part_b(tier: &str) -> Stats {
    let depth: usize = std::env::var("C11_DEPTH").ok().and_then(|s| s.parse().ok()).unwrap_or(if tier == "thorough" { 5 } else { 3 });
    let alpha = h_alphabet();
    let firsts: Vec<usize> = (0..alpha.len()).collect();
    let ls = leaves();
    let reps = representative_leaves();
    let mut filters = ls.clone();
    filters.extend(trees_depth2(&reps, &reps));
    let outs = vcore::par::par_map(&firsts, |si, first| {
        let mut st = Stats::default();
        let scratch = Scratch::new(&format!("c11b{si}"));
        let cfg = bcfg(3); // capacity 3 forces tombstone compaction on the 4th slot
        for seq in sequences(alpha.len(), depth, &[*first]) {
            st.histories += 1;
            let dir = scratch.path.join("d");
            let _ = std::fs::remove_dir_all(&dir);
            let mut b = cfg.open_fresh(&dir).expect("open");
            let mut model: BTreeMap<u64, Meta> = BTreeMap::new();
            let hist: Vec<HOp> = seq.iter().map(|&i| alpha[i].clone()).collect();
            let mut ok = true;
            for (step, op) in hist.iter().enumerate() {
                match op {
                    HOp::Ins(id, a, bb) => {
                        let m = meta2(*a, *bb);
                        if b.insert(*id, vec![*id as f32, step as f32], to_hash(&m)).is_err() {
                            ok = false;
                            break;
                        }
                        model.insert(*id, m);
                    }
                    HOp::Upd(id, a, bb, merge) => {
                        let m = meta2(*a, *bb);
                        let _ = b.update_metadata(*id, to_hash(&m), *merge);
                        if let Some(cur) = model.get_mut(id) {
                            if *merge {
                                for (k, v) in m {
                                    cur.insert(k, v);
                                }
                            } else {
                                *cur = m;
                            }
                        }
                    }
                    HOp::Del(id) => {
                        let _ = b.delete(*id);
                        model.remove(id);
                    }
                    HOp::Restart => {
                        drop(b);
                        b = cfg.recover(&dir).expect("recover");
                    }
                }
                use std::hash::{Hash, Hasher};
                let mut h = std::collections::hash_map::DefaultHasher::new();
                format!("{model:?}").hash(&mut h);
                st.states.insert(h.finish());
                if !check_filters(&b, &model, &filters, &json!({"part":"B","history":hist,"step":step}), &mut st) {
                    ok = false;
                    break;
                }
            }
            let _ = ok;
        }
        st
    });
    let mut tot = Stats::default();
    for s in outs {
        merge(&mut tot, s);
    }
    tot
}

fn merge(t: &mut Stats, s: Stats) {
    t.filter_evals += s.filter_evals;
    t.nonempty_selections += s.nonempty_selections;
    t.states.extend(s.states);
    t.histories += s.histories;
    t.deletes_checked += s.deletes_checked;
    t.viol.merge(s.viol);
    t.ref_vs_engine_matches_disagreements += s.ref_vs_engine_matches_disagreements;
}

/// (C) TieredEngine::batch_delete_by_metadata_filter: exact set, exact count; histories include a
/// bulk load that bypasses the hot tier (stale mirror metadata) and metadata updates.
#[derive(Clone, Debug, serde::Serialize, serde::Deserialize)]
enum TOpC {
    Ins(u64, Option<usize>),
    Bulk(u64, Option<usize>),
    Upd(u64, Option<usize>, bool),
    Del(u64),
    Flush,
}

fn part_c(tier: &str) -> Stats {
    let depth: usize = if tier == "thorough" { 4 } else { 3 };
    let alpha = vec![
        TOpC::Ins(1, Some(0)),
        TOpC::Ins(1, Some(1)),
        TOpC::Ins(2, Some(0)),
        TOpC::Bulk(1, Some(1)),
        TOpC::Bulk(2, Some(6)),
        TOpC::Upd(1, Some(6), true),
        TOpC::Upd(2, Some(1), false),
        TOpC::Del(1),
        TOpC::Flush,
    ];
    let dels = vec![
        F::Exact("a".into(), "1".into()),
        F::Exact("a".into(), "2".into()),
        F::Range("a".into(), Some((0, "0".into()))),
        F::Not(Some(Box::new(F::Exact("a".into(), "1".into())))),
        F::Empty,
        F::In("a".into(), vec!["0".into(), "2".into()]),
    ];
    let firsts: Vec<usize> = (0..alpha.len()).collect();
    let outs = vcore::par::par_map(&firsts, |_si, first| {
        let mut st = Stats::default();
        let cfg = TeCfg { strategy: "lru".into(), l1a_capacity: 4, hot_soft: 8, hot_hard: 16, metric: "euclidean".into(), dim: 2, qcache_capacity: 2, qcache_threshold: 1.0, hnsw_capacity: 64 };
        for seq in sequences(alpha.len(), depth, &[*first]) {
            let hist: Vec<TOpC> = seq.iter().map(|&i| alpha[i].clone()).collect();
            for f in &dels {
                st.histories += 1;
                let te = Te::new(&cfg);
                let mut model: BTreeMap<u64, Meta> = BTreeMap::new();
                for (step, op) in hist.iter().enumerate() {
                    match op {
                        TOpC::Ins(id, a) => {
                            let m = meta2(*a, None);
                            te.engine.insert(*id, vec![*id as f32, step as f32 + 1.0], to_hash(&m)).unwrap();
                            model.insert(*id, m);
                        }
                        TOpC::Bulk(id, a) => {
                            let m = meta2(*a, None);
                            te.engine.bulk_load_cold_tier(vec![(*id, vec![*id as f32, step as f32 + 9.0], to_hash(&m))]).unwrap();
                            model.insert(*id, m);
                        }
                        TOpC::Upd(id, a, merge) => {
                            let m = meta2(*a, None);
                            let _ = te.engine.update_metadata(*id, to_hash(&m), *merge);
                            if let Some(cur) = model.get_mut(id) {
                                if *merge {
                                    for (k, v) in m {
                                        cur.insert(k, v);
                                    }
                                } else {
                                    *cur = m;
                                }
                            }
                        }
                        TOpC::Del(id) => {
                            let _ = te.engine.delete(*id);
                            model.remove(id);
                        }
                        TOpC::Flush => {
                            let _ = te.engine.flush_hot_tier(true);
                        }
                    }
                }
                let want = model_select(f, &model);
                let got_n = te.engine.batch_delete_by_metadata_filter(&to_proto(f));
                st.deletes_checked += 1;
                let remaining: BTreeSet<u64> = te.engine.cold_tier().scan(|_| true).into_iter().collect();
                let expect_remaining: BTreeSet<u64> = model.keys().filter(|k| !want.contains(k)).copied().collect();
                let ctx = json!({"engine":"seqmc","check":"C11","part":"C","history":hist,"filter":format!("{f:?}"),
                                 "metadata": model.iter().map(|(k,v)| (k.to_string(), v.clone())).collect::<HashMap<_,_>>(),
                                 "want_deleted": want, "remaining": remaining, "returned": format!("{got_n:?}")});
                match got_n {
                    Err(_) => st.viol.push((format!("C11|batch_delete_by_metadata_filter|{}|error", kind(f)), ctx)),
                    Ok(n) => {
                        if remaining != expect_remaining {
                            let sym = if remaining.len() < expect_remaining.len() { "deletes-non-matching" } else { "keeps-matching" };
                            st.viol.push((format!("C11|batch_delete_by_metadata_filter|{}|{sym}", kind(f)), ctx));
                        } else if n != want.len() as u64 {
                            st.viol.push((format!("C11|batch_delete_by_metadata_filter|{}|wrong-count", kind(f)), ctx));
                        }
                    }
                }
            }
        }
        st
    });
    let mut tot = Stats::default();
    for s in outs {
        merge(&mut tot, s);
    }
    tot
}

pub fn run(tier: &str, replay: Option<&str>) -> i32 {
    if replay.is_some() {
        println!("C11 replay files are self-describing (filter, metadata, got/want); re-run the check to reproduce");
        return 0;
    }
    let mut tot = Stats::default();
    part_a(tier, &mut tot);
    part_a2(&mut tot);
    let a_evals = tot.filter_evals;
    merge(&mut tot, part_b(tier));
    merge(&mut tot, part_c(tier));
    let mut ev = Evidence::new("C11", tier, "model_checking");
    let mut rep = Reporter::new("C11");
    rep.report_sigbag(&tot.viol);
    if tot.ref_vs_engine_matches_disagreements > 0 {
        rep.report("C11|reference-evaluator-disagrees-with-metadata_filter::matches", json!({"count": tot.ref_vs_engine_matches_disagreements}));
    }
    ev.set("states", tot.states.len() as u64);
    ev.set("transitions", tot.filter_evals + tot.deletes_checked);
    ev.set("traces_validated_against_impl", tot.histories);
    ev.set("evaluations", tot.filter_evals + tot.deletes_checked);
    ev.set("distinct_nontrivial", tot.nonempty_selections);
    ev.set("rule", "(A) every filter tree of depth <= 2 over all leaves (Exact/In/Range with 4 operators + missing bound over 18 value classes (incl. a 300-byte string and two numeric literals longer than 32 bytes) x keys {a,b}, empty forms; thorough: full pairing and depth 3 over representative leaves) on a 21-document collection covering every value class plus two documents with an EMPTY metadata map (inserted empty / emptied by replace), evaluated fresh, after overwrites/merges/replaces/deletes/re-inserts, after forced tombstone compaction and after snapshot+recovery; (A2) every ordered pair of value classes (and absence) as an in-place value transition of one document by merge / replace / overwrite / delete+reinsert, all leaves and their negations on that key afterwards; (B) all histories up to the depth over a 13-letter alphabet (incl. insert with empty metadata and replace-with-empty) on ids {1,2,3} with index capacity 3 (tombstone compaction) and restarts, every leaf + representative trees after each step; (C) every history up to the depth on TieredEngine (insert, bulk load bypassing the hot tier, metadata merge/replace, delete, drain) followed by batch_delete_by_metadata_filter for 6 filters: exact set removed, exact count returned. Oracle: independent reference evaluator (cross-checked against metadata_filter::matches on every pair). non-trivial = evaluations whose expected selection is non-empty");
    ev.set("samples", json!([{"filter": format!("{:?}", leaves()[40]), "values": VALUES}, {"filter": format!("{:?}", trees_depth2(&representative_leaves(), &representative_leaves())[7])}]));
    ev.set("exhaustive", true);
    ev.set("part_a_filter_evaluations", a_evals);
    ev.set("filtered_deletes_checked", tot.deletes_checked);
    ev.set("reference_vs_engine_evaluator_disagreements", tot.ref_vs_engine_matches_disagreements);
    ev.assume("reference semantics: numeric comparison iff both the value and the bound parse with Rust's f64::from_str, else byte-wise lexicographic; missing key never matches a leaf");
    ev.violations = rep.violations as i64;
    ev.write();
    println!(
        "C11 {tier}: filter_evals={} nonempty={} histories={} filtered_deletes={} states={} violations={}",
        tot.filter_evals, tot.nonempty_selections, tot.histories, tot.deletes_checked, tot.states.len(), rep.violations
    );
    rep.finish()
}
