//! C07 — the query-result cache never serves stale or foreign results (sequential parts 1-3;
//! the store-after-invalidate race is part 4, c07r.rs, under ksched).

use crate::c06::{check_results, lattice, SearchCheck};
use crate::te::*;
use kyrodb_engine::config::DistanceMetric;
use kyrodb_engine::{QueryHashCache, SearchResult};
use serde_json::{json, Value};
use std::collections::{BTreeMap, BTreeSet};
use vcore::evidence::Evidence;
use vcore::exec::sequences;
use vcore::findings::{Reporter, SigBag};
use vcore::model::meta1;
use vcore::Meta;

#[derive(Default)]
pub struct Stats {
    pub histories: u64,
    pub searches: u64,
    pub cache_hits: u64,
    pub hits_checked: u64,
    pub hits_skipped_uncached_disagrees: u64,
    pub states: BTreeSet<u64>,
    pub prune_cases: u64,
    pub prune_must_remove: u64,
    pub prune_kept: u64,
    pub kscope_cases: u64,
    pub viol: SigBag,
}

fn tdist(metric: DistanceMetric, q: &[f32], v: &[f32]) -> f64 {
    match metric {
        DistanceMetric::Euclidean => q.iter().zip(v).map(|(a, b)| ((*a as f64) - (*b as f64)).powi(2)).sum::<f64>().sqrt(),
        _ => {
            let dot: f64 = q.iter().zip(v).map(|(a, b)| (*a as f64) * (*b as f64)).sum();
            let nq: f64 = q.iter().map(|a| (*a as f64).powi(2)).sum::<f64>().sqrt();
            let nv: f64 = v.iter().map(|a| (*a as f64).powi(2)).sum::<f64>().sqrt();
            1.0 - (dot / (nq * nv)).clamp(-1.0, 1.0)
        }
    }
}

// ------------------------------------------------------------------------------------------
// Part 1: histories
// ------------------------------------------------------------------------------------------
#[derive(Clone, Debug, serde::Serialize, serde::Deserialize)]
pub enum COp {
    S { q: usize, k: usize, scope: u64 },
    I { id: u64, v: usize },
    D { id: u64 },
    UM { id: u64 },
    Bulk { id: u64, v: usize },
    Flush,
}

fn c_alphabet() -> Vec<COp> {
    vec![
        COp::S { q: 0, k: 1, scope: 0 },
        COp::S { q: 0, k: 2, scope: 0 },
        COp::S { q: 1, k: 1, scope: 0 },
        COp::S { q: 0, k: 1, scope: 7 },
        COp::I { id: 1, v: 2 },
        COp::I { id: 1, v: 4 },
        COp::I { id: 2, v: 3 },
        COp::I { id: 3, v: 0 },
        COp::D { id: 1 },
        COp::UM { id: 1 },
        COp::Bulk { id: 3, v: 1 },
        COp::Flush,
    ]
}

/// Vectors used by part 1 for dimension `dim`: pairwise non-parallel, with mass on the
/// coordinates around the 32-dimension pruning prefix when dim > 32.
pub fn vecs(dim: usize) -> Vec<Vec<f32>> {
    let mut l = lattice(dim, 1.0);
    if dim > 33 {
        let mut a = vec![0.0f32; dim];
        a[32] = 1.0;
        l.insert(0, a);
        let mut b = vec![0.0f32; dim];
        b[0] = 0.6;
        b[32] = 0.8;
        l.insert(1, b);
        let mut c = vec![0.0f32; dim];
        c[31] = 0.8;
        c[33] = 0.6;
        l.insert(2, c);
    }
    // drop vectors parallel to an earlier one (e.g. -e0 vs e0 is anti-parallel: keep; cosine -1)
    l
}

#[derive(Clone, Debug, serde::Serialize, serde::Deserialize)]
pub struct Case1 {
    pub metric: String,
    pub dim: usize,
    /// initial population (id, vector index) inserted before the history starts
    #[serde(default)]
    pub init: Vec<(u64, usize)>,
    pub history: Vec<COp>,
}

/// Initial states the histories start from: empty, and two populations of three documents at
/// strictly ordered distances from query 0 (so that k=1 -> k=2 re-stores, overwrites that move
/// the nearest document away, etc. are within the history depth).
pub fn inits() -> Vec<Vec<(u64, usize)>> {
    vec![vec![], vec![(1, 0), (2, 3), (3, 1)], vec![(1, 3), (2, 0), (3, 4)]]
}

pub fn run_history(case: &Case1, st: &mut Stats) {
    st.histories += 1;
    let cfg = TeCfg { strategy: "lru".into(), l1a_capacity: 4, hot_soft: 2, hot_hard: 4, metric: case.metric.clone(), dim: case.dim, qcache_capacity: 2, qcache_threshold: 1.0, hnsw_capacity: 64 };
    let te = Te::new(&cfg);
    let metric = cfg.metric();
    let vs = vecs(case.dim);
    let mut model: BTreeMap<u64, Vec<f32>> = BTreeMap::new();
    for (id, v) in &case.init {
        let vv = vs[*v % vs.len()].clone();
        if te.engine.insert(*id, vv.clone(), Default::default()).is_err() {
            return;
        }
        model.insert(*id, vv);
    }
    for (step, op) in case.history.iter().enumerate() {
        match op {
            COp::I { id, v } => {
                let vv = vs[*v % vs.len()].clone();
                if te.engine.insert(*id, vv.clone(), Default::default()).is_err() {
                    return;
                }
                model.insert(*id, vv);
            }
            COp::D { id } => {
                let _ = te.engine.delete(*id);
                model.remove(id);
            }
            COp::UM { id } => {
                let _ = te.engine.update_metadata(*id, vcore::to_hash(&meta1("u", "1")), true);
            }
            COp::Bulk { id, v } => {
                let vv = vs[*v % vs.len()].clone();
                let _ = te.engine.bulk_load_cold_tier(vec![(*id, vv.clone(), Default::default())]);
                model.insert(*id, vv);
            }
            COp::Flush => {
                let _ = te.engine.flush_hot_tier(true);
            }
            COp::S { q, k, scope } => {
                let qv = &vs[*q % vs.len()];
                st.searches += 1;
                let Ok((res, path)) = te.engine.knn_search_with_ef_detailed_scoped(qv, *k, None, *scope) else { continue };
                if format!("{path:?}") != "CacheHit" {
                    continue;
                }
                st.cache_hits += 1;
                // brute-force top-k
                let mut all: Vec<(f64, u64)> = model.iter().map(|(id, v)| (tdist(metric, qv, v), *id)).collect();
                all.sort_by(|a, b| a.partial_cmp(b).unwrap());
                let want_n = (*k).min(all.len());
                // only judge the cache where the uncached path is itself exact
                let unc = te.engine.knn_search_with_ef_detailed_scoped(qv, *k, Some(128), *scope).map(|x| x.0).unwrap_or_default();
                let unc_ok = unc.len() == want_n && unc.iter().enumerate().all(|(i, r)| ((r.distance as f64) - all[i].0).abs() <= 1e-4 * all[i].0.abs().max(1.0));
                if !unc_ok {
                    st.hits_skipped_uncached_disagrees += 1;
                    continue;
                }
                st.hits_checked += 1;
                let none = BTreeSet::new();
                let sc = SearchCheck { metric, model: &model, hot_ids: &none };
                let fail = |st: &mut Stats, sym: &str, d: String| {
                    st.viol.push((
                        format!("C07|history|cache-hit-{sym}|{}", case.metric),
                        json!({"engine":"seqmc","check":"C07","part":1,"case":case,"step":step,"detail":d,"served":res.iter().map(|r| (r.doc_id, r.distance)).collect::<Vec<_>>(),"brute_force":all}),
                    ));
                };
                if let Err((s, d)) = check_results(&sc, qv, *k, &res, true) {
                    // non-live document / wrong (pre-overwrite) distance / unsorted
                    fail(st, &s, d);
                    return;
                }
                if res.len() != want_n {
                    fail(st, "wrong-cardinality", format!("served {} results, a fresh search returns {want_n}", res.len()));
                    return;
                }
                // no omitted strictly-closer document
                if let Some(last) = res.last() {
                    let kth = last.distance as f64;
                    let served: BTreeSet<u64> = res.iter().map(|r| r.doc_id).collect();
                    for (d, id) in &all {
                        if !served.contains(id) && *d + 1e-4 * d.abs().max(1.0) < kth {
                            fail(st, "omits-strictly-closer-document", format!("doc {id} at {d} is closer than the served k-th at {kth}"));
                            return;
                        }
                    }
                }
            }
        }
        use std::hash::{Hash, Hasher};
        let mut h = std::collections::hash_map::DefaultHasher::new();
        format!("{:?}|{}|{}", model, te.qcache.len(), te.engine.hot_tier().len()).hash(&mut h);
        st.states.insert(h.finish());
    }
}

// ------------------------------------------------------------------------------------------
// Part 2: pruning bound, exhaustive over a lattice around the 32-dim prefix boundary
// ------------------------------------------------------------------------------------------
fn prune_lattice(dim: usize, vals: &[f32]) -> Vec<Vec<f32>> {
    let coords = [0usize, 1, 32, 33];
    let mut out = Vec::new();
    let n = vals.len();
    for a in 0..n {
        for b in 0..n {
            for c in 0..n {
                for d in 0..n {
                    let mut v = vec![0.0f32; dim];
                    v[coords[0]] = vals[a];
                    v[coords[1]] = vals[b];
                    v[coords[2]] = vals[c];
                    v[coords[3]] = vals[d];
                    if v.iter().all(|x| *x == 0.0) {
                        continue;
                    }
                    out.push(v);
                }
            }
        }
    }
    out
}

fn norm32(v: &[f32]) -> Vec<f32> {
    let n: f64 = v.iter().map(|a| (*a as f64).powi(2)).sum::<f64>().sqrt();
    v.iter().map(|a| ((*a as f64) / n) as f32).collect()
}

fn part2(tier: &str) -> Stats {
    let vals: Vec<f32> = if tier == "thorough" { vec![-1.0, -0.5, 0.0, 0.5, 1.0] } else { vec![-1.0, 0.0, 0.5, 1.0] };
    let dim = 40usize;
    let lat_unit = prune_lattice(dim, &vals);
    // un-normalised magnitudes for the Euclidean metric (nothing normalises those vectors)
    let vals_big: Vec<f32> = if tier == "thorough" { vec![-2.5, -1.0, 0.0, 0.5, 3.0] } else { vec![-2.5, 0.0, 0.5, 3.0] };
    let lat_big = prune_lattice(dim, &vals_big);
    let jobs: Vec<(usize, &str)> = (0..lat_unit.len()).flat_map(|i| ["cosine", "euclidean", "inner_product", "euclidean-big"].into_iter().map(move |m| (i, m))).collect();
    let outs = vcore::par::par_map(&jobs, |_j, (qi, mname)| {
        let mut st = Stats::default();
        let big = *mname == "euclidean-big";
        let lat = if big { &lat_big } else { &lat_unit };
        let mname = if big { &"euclidean" } else { mname };
        let metric = vcore::metric_from(mname);
        let unit = !matches!(metric, DistanceMetric::Euclidean);
        let q = if unit { norm32(&lat[*qi]) } else { lat[*qi].clone() };
        for vraw in lat.iter() {
            let v = if unit { norm32(vraw) } else { vraw.clone() };
            let d = tdist(metric, &q, &v);
            // worst-cached-distance grid straddling the exact distance
            for w in [d - 0.3, d - 1e-3, d + 1e-3, d + 0.05, d + 0.3] {
                if w <= 0.0 {
                    continue;
                }
                st.prune_cases += 1;
                let cache = QueryHashCache::new(4, 1.0);
                cache.insert_with_k_scoped(0, q.clone(), vec![SearchResult { doc_id: 1, distance: w as f32 }], 1);
                cache.invalidate_for_insert(&v, metric);
                let still = cache.get_scoped(0, &q, 1).is_some();
                let tol = 1e-4 * d.abs().max(1.0);
                if d < w - tol {
                    st.prune_must_remove += 1;
                    if still {
                        st.viol.push((
                            format!("C07|pruning-bound|affected-entry-kept|{mname}"),
                            json!({"engine":"seqmc","check":"C07","part":2,"metric":mname,"query":q,"inserted":v,"exact_distance":d,"cached_boundary":w}),
                        ));
                    }
                } else if still {
                    st.prune_kept += 1;
                }
            }
        }
        st
    });
    let mut tot = Stats::default();
    for s in outs {
        merge(&mut tot, s);
    }
    tot
}

// ------------------------------------------------------------------------------------------
// Part 3: k monotonicity and scope isolation at the cache level (similarity threshold 0.0)
// ------------------------------------------------------------------------------------------
/// (3b) exact-key distinctness: at similarity threshold 1.0 an entry stored for query a must
/// not answer a different query b. Every ordered pair over a lattice of un-normalised vectors
/// (dim 1 and 2, components incl. magnitudes >= 1) — the Euclidean / inner-product case, where a
/// different query has different distances even when it is parallel.
fn part3b(st: &mut Stats) {
    let vals = [-3.0f32, -2.5, -1.0, -0.5, 0.0, 0.5, 1.0, 2.0, 2.5, 3.0];
    let mut vecs: Vec<Vec<f32>> = vals.iter().filter(|v| **v != 0.0).map(|v| vec![*v]).collect();
    for a in vals {
        for b in vals {
            if a != 0.0 || b != 0.0 {
                vecs.push(vec![a, b]);
            }
        }
    }
    for a in &vecs {
        let cache = QueryHashCache::new(4, 1.0);
        cache.insert_with_k_scoped(0, a.clone(), vec![SearchResult { doc_id: 1, distance: 0.25 }], 1);
        for b in &vecs {
            if a.len() != b.len() || a == b {
                continue;
            }
            st.kscope_cases += 1;
            if cache.get_scoped(0, b, 1).is_some() {
                let cross: f64 = if a.len() == 2 { (a[0] as f64) * (b[1] as f64) - (a[1] as f64) * (b[0] as f64) } else { 0.0 };
                let dot: f64 = a.iter().zip(b).map(|(x, y)| (*x as f64) * (*y as f64)).sum();
                let kind = if cross == 0.0 && dot > 0.0 { "parallel-different-norm" } else { "different-direction" };
                st.viol.push((format!("C07|key|entry-for-another-query-served-at-threshold-1|{kind}"), json!({"engine":"seqmc","check":"C07","part":3,"stored_query":a,"asked_query":b})));
            }
        }
    }
}

fn part3(st: &mut Stats) {
    part3b(st);
    let q1 = vec![1.0f32, 0.0, 0.0];
    let q2 = vec![0.6f32, 0.8, 0.0];
    for thr in [0.0f32, 0.5, 1.0] {
        for k1 in 1..=3usize {
            for k2 in 1..=3usize {
                st.kscope_cases += 1;
                let cache = QueryHashCache::new(8, thr);
                let res: Vec<SearchResult> = (0..k1).map(|i| SearchResult { doc_id: 10 + i as u64, distance: 0.1 * (i as f32 + 1.0) }).collect();
                cache.insert_with_k_scoped(0, q1.clone(), res.clone(), k1);
                for q in [&q1, &q2] {
                    let got = cache.get_scoped(0, q, k2);
                    if k2 > k1 {
                        if let Some(g) = got {
                            st.viol.push(("C07|k|entry-for-smaller-k-served-for-larger-k".into(), json!({"engine":"seqmc","check":"C07","part":3,"threshold":thr,"stored_k":k1,"asked_k":k2,"query_is_same":q==&q1,"served":g.len()})));
                        }
                    } else if let Some(g) = got {
                        if g.len() > k2 {
                            st.viol.push(("C07|k|more-than-k-served".into(), json!({"stored_k":k1,"asked_k":k2,"served":g.len()})));
                        }
                    }
                }
            }
        }
        for s1 in 0..3u64 {
            for s2 in 0..3u64 {
                if s1 == s2 {
                    continue;
                }
                st.kscope_cases += 1;
                let cache = QueryHashCache::new(8, thr);
                cache.insert_with_k_scoped(s1, q1.clone(), vec![SearchResult { doc_id: 100 + s1, distance: 0.1 }], 1);
                for q in [&q1, &q2] {
                    if let Some(g) = cache.get_scoped(s2, q, 1) {
                        st.viol.push(("C07|scope|entry-served-under-another-scope".into(), json!({"engine":"seqmc","check":"C07","part":3,"threshold":thr,"stored_scope":s1,"asked_scope":s2,"served_doc":g.first().map(|r| r.doc_id)})));
                    }
                }
                // and the entry is still there for its own scope
                if cache.get_scoped(s1, &q1, 1).is_none() {
                    st.viol.push(("C07|scope|own-scope-entry-lost".into(), json!({"stored_scope":s1})));
                }
            }
        }
    }
}

/// Part 5 — degraded answers must not be cached. With the cold tier's circuit breaker open (three
/// consecutive cold-tier failures: finite-looking requests the cold tier rejects), a timed search
/// answers from the recent-write tier alone; the statement exempts that answer from completeness,
/// but if it were STORED, every later search sharing the cache (the sync and batch paths never
/// look at the breaker) would be served an answer no fresh search could return. For each metric x
/// k x position of the recent write: open the breaker, run the degraded timed search, then ask
/// again through the sync path and through the batch path; a CacheHit must be a valid fresh top-k.
fn part5(st: &mut Stats) {
    use crate::c06::{check_results, true_distance, SearchCheck};
    let rt = tokio::runtime::Builder::new_current_thread().enable_all().build().unwrap();
    for metric in ["euclidean", "cosine", "inner_product"] {
        for k in [1usize, 2, 3] {
            for hot_near in [false, true] {
                let cfg = TeCfg { strategy: "lru".into(), l1a_capacity: 4, hot_soft: 16, hot_hard: 32, metric: metric.into(), dim: 3, qcache_capacity: 8, qcache_threshold: 1.0, hnsw_capacity: 64 };
                let te = Te::new(&cfg);
                let m = cfg.metric();
                let mut model: BTreeMap<u64, Vec<f32>> = BTreeMap::new();
                let q = vec![1.0f32, 0.2, 0.1];
                for id in 1..=6u64 {
                    let a = 0.25 * id as f32;
                    let v = vec![a.cos(), a.sin(), 0.1 * id as f32];
                    if te.engine.insert(id, v.clone(), Default::default()).is_ok() {
                        model.insert(id, v);
                    }
                }
                let _ = te.engine.flush_hot_tier(true);
                let hv = if hot_near { vec![0.9f32, 0.5, 0.3] } else { vec![-1.0f32, 0.3, 2.0] };
                if te.engine.insert(100, hv.clone(), Default::default()).is_ok() {
                    model.insert(100, hv);
                }
                // open the cold tier's breaker: a query the cold tier rejects, three times
                let bad = vec![f32::NAN, 0.0, 0.0];
                for _ in 0..4 {
                    let _ = rt.block_on(te.engine.knn_search_with_timeouts_with_ef(&bad, k, None));
                }
                let degraded = rt.block_on(te.engine.knn_search_with_timeouts_with_ef(&q, k, None));
                st.kscope_cases += 1;
                let mut all: Vec<(f64, u64)> = model.iter().map(|(id, v)| (true_distance(m, &q, v), *id)).collect();
                all.sort_by(|a, b| a.partial_cmp(b).unwrap());
                let none = BTreeSet::new();
                let sc = SearchCheck { metric: m, model: &model, hot_ids: &none };
                let mut judge = |entry: &str, served: &[kyrodb_engine::SearchResult], path: String, st: &mut Stats| {
                    if path != "CacheHit" {
                        return;
                    }
                    st.cache_hits += 1;
                    st.hits_checked += 1;
                    let mut bad: Option<String> = None;
                    if let Err((sym, d)) = check_results(&sc, &q, k, served, true) {
                        bad = Some(format!("{sym}: {d}"));
                    } else if served.len() != k.min(all.len()) {
                        bad = Some(format!("served {} results, a fresh search returns {}", served.len(), k.min(all.len())));
                    } else if let Some(last) = served.last() {
                        let kth = last.distance as f64;
                        let ids: BTreeSet<u64> = served.iter().map(|r| r.doc_id).collect();
                        for (d, id) in &all {
                            if !ids.contains(id) && *d + 1e-4 * d.abs().max(1.0) < kth {
                                bad = Some(format!("doc {id} at {d} is closer than the served k-th at {kth}"));
                                break;
                            }
                        }
                    }
                    if let Some(detail) = bad {
                        st.viol.push((
                            format!("C07|degraded|answer-computed-with-the-cold-tier-breaker-open-served-from-cache|{entry}|{metric}"),
                            json!({"engine":"seqmc","check":"C07","part":5,"metric":metric,"k":k,"recent_write_near_the_query":hot_near,"entry":entry,"detail":detail,
                                   "degraded_answer": degraded.as_ref().ok().map(|(r, p)| (r.iter().map(|x| x.doc_id).collect::<Vec<_>>(), format!("{p:?}"))),
                                   "served": served.iter().map(|r| (r.doc_id, r.distance)).collect::<Vec<_>>(), "brute_force": all}),
                        ));
                    }
                };
                if let Ok((served, path)) = te.engine.knn_search_with_ef_detailed_scoped(&q, k, None, 0) {
                    judge("knn_search", &served, format!("{path:?}"), st);
                }
                if let Ok(allb) = te.engine.knn_search_batch_with_ef_detailed(&[q.clone()], k, None) {
                    if let Some((served, path)) = allb.first() {
                        judge("knn_search_batch", served, format!("{path:?}"), st);
                    }
                }
            }
        }
    }
}

fn merge(t: &mut Stats, s: Stats) {
    t.histories += s.histories;
    t.searches += s.searches;
    t.cache_hits += s.cache_hits;
    t.hits_checked += s.hits_checked;
    t.hits_skipped_uncached_disagrees += s.hits_skipped_uncached_disagrees;
    t.states.extend(s.states);
    t.prune_cases += s.prune_cases;
    t.prune_must_remove += s.prune_must_remove;
    t.prune_kept += s.prune_kept;
    t.kscope_cases += s.kscope_cases;
    t.viol.merge(s.viol);
}

pub fn run(tier: &str, replay: Option<&str>) -> i32 {
    if let Some(p) = replay {
        let v: Value = serde_json::from_str(&std::fs::read_to_string(p).expect("read")).expect("json");
        let c = &v["case"];
        if c["part"] == 4 {
            let prog: crate::c07r::RaceProg = serde_json::from_value(c["program"].clone()).unwrap();
            let mut rs = crate::c07r::RStats::default();
            crate::c07r::check_program(&prog, 3, 200_000, &mut rs);
            if let Some((s, r)) = rs.viol.any_first() {
                println!("replay: reproduced {s}: {} (schedule {})", r["detail"], r["schedule"]);
                if std::env::var("KSCHED_TRACE").is_ok() {
                    println!("locks: {}", serde_json::to_string_pretty(&r["locks"]).unwrap());
                    println!("trace: {}", serde_json::to_string_pretty(&r["trace"]).unwrap());
                }
                println!("VIOLATION property=C07 replay={p}");
                return 1;
            }
            println!("replay: no violation in {} executions", rs.executions);
            return 0;
        }
        if c["part"] == 1 {
            let case: Case1 = serde_json::from_value(c["case"].clone()).unwrap();
            let mut st = Stats::default();
            run_history(&case, &mut st);
            if let Some((s, r)) = st.viol.any_first() {
                println!("replay: reproduced {s}: {}", r["detail"]);
                println!("VIOLATION property=C07 replay={p}");
                return 1;
            }
            println!("replay: no violation");
            return 0;
        }
        println!("replay: parts 2/3 cases are self-describing (query, inserted vector, boundary); re-run bin/check C07");
        return 0;
    }
    if let Some((wi, wn)) = vcore::par::worker_id() {
        // part 4 worker process (the scheduler is process-global)
        let bound: usize = if tier == "thorough" { 3 } else { 2 };
        let max_execs: usize = if tier == "thorough" { 100_000 } else { 20_000 };
        let mut rs = crate::c07r::RStats::default();
        for (i, p) in crate::c07r::programs(tier).iter().enumerate() {
            if i % wn != wi {
                continue;
            }
            crate::c07r::check_program(p, bound, max_execs, &mut rs);
        }
        vcore::par::worker_emit(&json!({"programs":rs.programs,"executions":rs.executions,"points":rs.points,"capped":rs.capped,"incomplete":rs.incomplete,"hits":rs.epilogue_hits,"misses":rs.epilogue_misses,"outcomes":rs.outcomes.iter().collect::<Vec<_>>(),"violations":rs.viol.to_json()}));
        return 0;
    }
    let depth: usize = std::env::var("C07_DEPTH").ok().and_then(|s| s.parse().ok()).unwrap_or(if tier == "thorough" { 5 } else { 4 });
    let alpha = c_alphabet();
    let mut jobs: Vec<(String, usize, usize, Vec<(u64, usize)>)> = Vec::new();
    for metric in ["cosine", "euclidean", "inner_product"] {
        for dim in [2usize, 33, 40] {
            for init in inits() {
                for first in 0..alpha.len() {
                    jobs.push((metric.to_string(), dim, first, init.clone()));
                }
            }
        }
    }
    let outs = vcore::par::par_map(&jobs, |_i, (metric, dim, first, init)| {
        let mut st = Stats::default();
        for seq in sequences(alpha.len(), depth, &[*first]) {
            let case = Case1 { metric: metric.clone(), dim: *dim, init: init.clone(), history: seq.iter().map(|&i| alpha[i].clone()).collect() };
            run_history(&case, &mut st);
        }
        st
    });
    let mut tot = Stats::default();
    for s in outs {
        merge(&mut tot, s);
    }
    merge(&mut tot, part2(tier));
    part3(&mut tot);
    part5(&mut tot);
    // part 4: race programs in worker processes
    let rres = vcore::par::run_workers(vcore::par::jobs(), &[]);
    let mut rt: BTreeMap<&str, u64> = BTreeMap::new();
    let mut routcomes: BTreeSet<String> = BTreeSet::new();
    let mut ev = Evidence::new("C07", tier, "model_checking");
    let mut rep = Reporter::new("C07");
    rep.report_sigbag(&tot.viol);
    for r in &rres {
        for k in ["programs", "executions", "points", "capped", "incomplete", "hits", "misses"] {
            *rt.entry(k).or_insert(0) += r[k].as_u64().unwrap_or(0);
        }
        for o in r["outcomes"].as_array().unwrap() {
            routcomes.insert(o.as_str().unwrap().to_string());
        }
        rep.report_bag(&r["violations"]);
    }
    ev.set("states", tot.states.len() as u64);
    ev.set("transitions", tot.searches + tot.prune_cases + tot.kscope_cases + rt["points"]);
    ev.set("traces_validated_against_impl", tot.histories + rt["executions"]);
    ev.set("evaluations", tot.histories + tot.prune_cases + tot.kscope_cases + rt["executions"]);
    ev.set("race_programs", rt["programs"]);
    ev.set("race_executions", rt["executions"]);
    ev.set("race_programs_capped", rt["capped"]);
    ev.set("race_executions_not_completed", rt["incomplete"]);
    ev.set("race_epilogue_cache_hits_judged", rt["hits"]);
    ev.set("race_epilogue_cache_misses", rt["misses"]);
    ev.set("race_distinct_epilogue_outcomes", routcomes.len() as u64);
    ev.set("distinct_nontrivial", tot.hits_checked + tot.prune_must_remove);
    ev.set("rule", format!("(1) all 12^{depth} histories per metric x dim {{2,33,40}} x 3 initial states (empty, two populations of three documents at ordered distances from query 0) over searches (two queries, k 1/2, two scopes), inserts/overwrites that move a document, a new closer document, delete, metadata update, bulk load, drain; whenever the path is CacheHit the served list must be a valid fresh top-k of the current reference map (live ids, current distances, right cardinality, no omitted strictly-closer document), judged only where the uncached (ef-override) path is itself exact; (2) for every (query, inserted vector) pair of a {{0,1,32,33}}-supported lattice in dim 40 (values in [-1,1]; for Euclidean additionally un-normalised magnitudes up to 3) x metric x five cached-boundary values straddling the exact distance: an entry whose boundary exceeds the exact f64 distance by more than tolerance must be removed by invalidate_for_insert; (3) every ordered (k1,k2) in 1..3 and every ordered scope pair in 0..2 at similarity thresholds {{0,0.5,1}}: an entry stored for k1 never answers k2>k1 and never answers another scope; (3b) every ordered pair of distinct un-normalised query vectors over a 10-value lattice in dim 1 and 2 at threshold 1.0: an entry stored for one is never served for the other; (4) the store-after-invalidate race: one searcher x one or two writers (insert that moves / adds a closer document, delete, metadata update, bulk load, drain) from two populated states, with and without a cached k=1 entry, EVERY schedule with <= 2 (quick) / 3 (thorough) preemptions under ksched; after join the same search is repeated and, if served from the cache, must be a valid fresh top-k of the final collection. non-trivial = cache hits judged + pruning cases where removal is mandatory"));
    ev.set("samples", json!([{"part":1,"metric":"cosine","dim":40,"history":alpha.iter().take(5).collect::<Vec<_>>()},{"part":2,"coords":[0,1,32,33]}]));
    ev.set("exhaustive", true);
    ev.set("cache_hits_seen", tot.cache_hits);
    ev.set("cache_hits_judged", tot.hits_checked);
    ev.set("cache_hits_skipped_because_uncached_path_not_exact", tot.hits_skipped_uncached_disagrees);
    ev.set("pruning_cases", tot.prune_cases);
    ev.set("pruning_cases_removal_mandatory", tot.prune_must_remove);
    ev.set("pruning_cases_entry_legitimately_kept", tot.prune_kept);
    ev.set("k_and_scope_cases", tot.kscope_cases);
    ev.assume("similarity threshold 1.0 and pairwise non-parallel queries in part 1, so every hit is an exact-key hit (similarity hits are approximate by design and not judged)");
    ev.assume("part 4: scheduling points are lock operations; the query cache's generation counter is an atomic read before the search and compared under the cache's write lock at store time, so lock-granularity interleavings cover every ordering of (generation read, search, invalidate, store)");
    ev.violations = rep.violations as i64;
    ev.write();
    println!("C07 {tier}: race programs={} executions={} capped={} epilogue hits judged={} misses={} outcomes={}", rt["programs"], rt["executions"], rt["capped"], rt["hits"], rt["misses"], routcomes.len());
    println!("C07 {tier}: histories={} searches={} cache_hits={} judged={} prune_cases={} must_remove={} kscope={} states={} violations={}", tot.histories, tot.searches, tot.cache_hits, tot.hits_checked, tot.prune_cases, tot.prune_must_remove, tot.kscope_cases, tot.states.len(), rep.violations);
    rep.finish()
}
