//! C06, concurrent slice — a search racing the tombstone compaction another client's insert
//! triggers. `HnswBackend::knn_search*` searches the graph under the index lock, releases it, and
//! maps the graph's internal ids to document ids under the store lock; tombstone compaction
//! renumbers the internal ids of both. One searcher x one writer on a FULL index whose slot 0 is a
//! tombstone (so compaction moves every live document), EVERY schedule up to the preemption
//! bound under ksched, through every search entry point. Every returned (document, distance)
//! pair must be the true distance from the query to a version of THAT document that existed
//! during the race — a pair made of one document's id and another document's distance is what a
//! search that straddles the renumbering would return.

use crate::c06::true_distance;
use crate::explore::{explore, ExploreCfg};
use crate::te::{Te, TeCfg};
use parking_lot::sched::{Body, Outcome};
use serde_json::json;
use std::collections::BTreeSet;
use std::sync::{Arc, Mutex};
use vcore::findings::SigBag;

#[derive(Clone, Debug, serde::Serialize, serde::Deserialize)]
pub struct Prog {
    pub metric: String,
    /// "single" | "batch" | "cold" | "cold-batch" (the timed path runs on tokio's blocking pool,
    /// i.e. on threads the scheduler does not control)
    pub entry: String,
    /// "insert-new" (compaction + new document) | "overwrite" (compaction + overwrite of id 2)
    pub writer: String,
    pub k: usize,
}

pub fn programs(tier: &str) -> Vec<Prog> {
    let mut v = Vec::new();
    let metrics: Vec<&str> = if tier == "thorough" { vec!["euclidean", "cosine", "inner_product"] } else { vec!["euclidean", "cosine"] };
    for m in metrics {
        for e in ["single", "batch", "cold", "cold-batch"] {
            for w in ["insert-new", "overwrite"] {
                for k in [1usize, 3] {
                    if tier != "thorough" && k == 1 && e != "cold" {
                        continue;
                    }
                    v.push(Prog { metric: m.into(), entry: e.into(), writer: w.into(), k });
                }
            }
        }
    }
    v
}

#[derive(Default)]
pub struct RStats {
    pub programs: u64,
    pub executions: u64,
    pub points: u64,
    pub capped: u64,
    pub incomplete: u64,
    pub judged_pairs: u64,
    pub outcomes: BTreeSet<String>,
    pub viol: SigBag,
}

/// Distinct, well separated directions: the distance of every (query, version) pair is unique.
fn vec_of(n: usize) -> Vec<f32> {
    let a = 0.37 + 0.61 * n as f32;
    vec![a.cos() * (1.0 + 0.2 * n as f32), a.sin() * (1.0 + 0.2 * n as f32), 0.3 * n as f32]
}

pub fn check_program(p: &Prog, bound: usize, max_execs: usize, st: &mut RStats) {
    st.programs += 1;
    let cfg = TeCfg { strategy: "lru".into(), l1a_capacity: 4, hot_soft: 8, hot_hard: 16, metric: p.metric.clone(), dim: 3, qcache_capacity: 4, qcache_threshold: 1.0, hnsw_capacity: 3 };
    let metric = cfg.metric();
    let query = vec_of(9);
    // versions that exist at some moment of the race, per document
    let mut versions: Vec<(u64, Vec<f32>)> = vec![(1, vec_of(1)), (2, vec_of(2))];
    let (wid, wvec) = if p.writer == "insert-new" { (3u64, vec_of(3)) } else { (2u64, vec_of(5)) };
    versions.push((wid, wvec.clone()));
    let ecfg = ExploreCfg { bound, max_execs, ..Default::default() };
    let pj = p.clone();
    let out = explore(
        &ecfg,
        || {
            let te = Arc::new(Te::new(&cfg));
            // slots: [1 (old, tombstoned), 2, 1 (current)] — full, tombstone in slot 0
            te.engine.insert(1, vec_of(0), Default::default()).expect("init");
            te.engine.insert(2, vec_of(2), Default::default()).expect("init");
            te.engine.insert(1, vec_of(1), Default::default()).expect("init");
            // drained: answers come from the cold tier (the recent-write tier validates its
            // candidates against canonical tokens and would mask a mis-mapped cold answer)
            let _ = te.engine.flush_hot_tier(true);
            let answers: Arc<Mutex<Vec<Vec<(u64, f32)>>>> = Arc::new(Mutex::new(Vec::new()));
            let mut bodies: Vec<Body> = Vec::new();
            {
                let te = te.clone();
                let q = query.clone();
                let k = p.k;
                let entry = p.entry.clone();
                let answers = answers.clone();
                let nq = crate::c06::normalise_for_pub(metric, &q);
                bodies.push(Box::new(move || {
                    let lists: Vec<Vec<kyrodb_engine::SearchResult>> = match entry.as_str() {
                        "single" => te.engine.knn_search(&q, k).map(|r| vec![r]).unwrap_or_default(),
                        "batch" => te.engine.knn_search_batch_with_ef(&[q.clone(), q.clone()], k, None).unwrap_or_default(),
                        "cold" => te.engine.cold_tier().knn_search(&nq, k).map(|r| vec![r]).unwrap_or_default(),
                        _ => te.engine.cold_tier().knn_search_batch(&[nq.clone(), nq.clone()], k, None).unwrap_or_default(),
                    };
                    let mut a = answers.lock().unwrap();
                    for l in lists {
                        a.push(l.iter().map(|x| (x.doc_id, x.distance)).collect());
                    }
                }));
            }
            {
                let te = te.clone();
                let wvec = wvec.clone();
                bodies.push(Box::new(move || {
                    let _ = te.engine.insert(wid, wvec, Default::default());
                }));
            }
            (bodies, answers)
        },
        |res, answers, choices| {
            if res.outcome != Outcome::Completed {
                st.incomplete += 1;
                return true;
            }
            for list in answers.lock().unwrap().iter() {
                st.outcomes.insert(format!("{:?}", list.iter().map(|x| x.0).collect::<Vec<_>>()));
                let mut seen = BTreeSet::new();
                for (id, d) in list {
                    st.judged_pairs += 1;
                    let dup = !seen.insert(*id);
                    let ok = versions.iter().any(|(vid, v)| vid == id && {
                        let td = true_distance(metric, &query, v);
                        ((*d as f64) - td).abs() <= 1e-4 * td.abs().max(1.0)
                    });
                    if !ok || dup || list.len() > p.k {
                        let sym = if dup { "duplicate-id" } else if list.len() > p.k { "more-than-k" } else { "distance-belongs-to-no-version-of-the-document" };
                        st.viol.push((
                            format!("C06|concurrent|search-vs-compaction|{}|{sym}|{}", p.entry, p.metric),
                            json!({"engine":"seqmc","check":"C06","part":"concurrent","program":pj,"schedule":choices,"preemptions":res.preemptions,
                                "detail": format!("answer {:?}; true distances per document version: {:?}", list, versions.iter().map(|(i, v)| (*i, true_distance(metric, &query, v))).collect::<Vec<_>>())}),
                        ));
                        return false;
                    }
                }
            }
            true
        },
    );
    st.executions += out.executions;
    st.points += out.points;
    if out.capped {
        st.capped += 1;
    }
}
