//! seqmc: exhaustive sequential exploration (histories x configurations) against reference
//! models. One sub-command per property.

mod c02;
mod c04;
mod c06;
mod c06r;
mod c07;
mod c07r;
mod c11;
mod c12;
mod c16;
mod c18;
mod c19;
mod c19c;
#[path = "../../schedmc/src/explore.rs"]
#[allow(dead_code)]
mod explore;
mod te;

fn main() {
    let args: Vec<String> = std::env::args().collect();
    if args.len() < 2 {
        eprintln!("usage: seqmc <PROPERTY> [quick|thorough] [--replay <file>]");
        std::process::exit(2);
    }
    let prop = args[1].as_str();
    let mut tier = vcore::tier_from_env_or(None);
    let mut replay: Option<String> = None;
    let mut i = 2;
    while i < args.len() {
        match args[i].as_str() {
            "--replay" => {
                replay = args.get(i + 1).cloned();
                i += 1;
            }
            t @ ("quick" | "thorough") => tier = t.to_string(),
            other => {
                eprintln!("unknown argument {other}");
                std::process::exit(2);
            }
        }
        i += 1;
    }
    let code = match prop {
        "C02" => c02::run(&tier, replay.as_deref()),
        "C04" | "C20" => c04::run(prop, &tier, replay.as_deref()),
        "C06" => c06::run(&tier, replay.as_deref()),
        "C11" => c11::run(&tier, replay.as_deref()),
        "C07" => c07::run(&tier, replay.as_deref()),
        "C12" => c12::run(&tier, replay.as_deref()),
        "C16" => c16::run(&tier, replay.as_deref()),
        "C18" => c18::run(&tier, replay.as_deref()),
        "C19" => c19::run(&tier, replay.as_deref()),
        _ => {
            eprintln!("seqmc: unknown property {prop}");
            2
        }
    };
    std::process::exit(code);
}
