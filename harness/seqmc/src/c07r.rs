//! C07 part 4 — the store-after-invalidate race. A searcher computes a result list, a writer
//! changes the collection and invalidates, the searcher then stores its (now stale) list: the
//! generation guard must refuse that store. One searcher x one or two writers on the real
//! TieredEngine, EVERY schedule up to the preemption bound under ksched (scheduling points: the
//! engine's, the cache's and the tiers' lock operations). After all calls returned the same
//! search is repeated; if it is served from the cache, the served list must be a valid fresh
//! top-k of the final collection.

use crate::c06::{check_results, SearchCheck};
use crate::c07::{inits, vecs, COp};
use crate::explore::{explore, ExploreCfg};
use crate::te::{Te, TeCfg};
use parking_lot::sched::{Body, Outcome};
use serde_json::json;
use std::collections::{BTreeMap, BTreeSet};
use std::sync::Arc;
use vcore::findings::SigBag;
use vcore::model::meta1;

#[derive(Clone, Debug, serde::Serialize, serde::Deserialize)]
pub struct RaceProg {
    pub metric: String,
    pub dim: usize,
    pub init: Vec<(u64, usize)>,
    /// searches issued sequentially before the race (pre-populate the cache)
    pub pre: Vec<(usize, usize)>,
    /// the racing search (query index, k)
    pub search: (usize, usize),
    /// one write per writer thread (different ids, so the final collection is schedule-independent)
    pub writers: Vec<COp>,
}

pub fn programs(tier: &str) -> Vec<RaceProg> {
    let writes: Vec<COp> = vec![
        COp::I { id: 1, v: 2 },
        COp::I { id: 1, v: 4 },
        COp::I { id: 2, v: 0 },
        COp::I { id: 4, v: 0 },
        COp::D { id: 1 },
        COp::D { id: 2 },
        COp::UM { id: 1 },
        COp::Bulk { id: 3, v: 0 },
        COp::Bulk { id: 4, v: 0 },
        COp::Flush,
    ];
    let pairs: Vec<Vec<COp>> = vec![
        vec![COp::I { id: 1, v: 4 }, COp::D { id: 2 }],
        vec![COp::I { id: 4, v: 0 }, COp::D { id: 1 }],
        vec![COp::D { id: 1 }, COp::Flush],
        vec![COp::I { id: 2, v: 0 }, COp::Bulk { id: 4, v: 0 }],
    ];
    let cfgs: Vec<(&str, usize)> = if tier == "thorough" { vec![("cosine", 2), ("euclidean", 2), ("inner_product", 2), ("euclidean", 40)] } else { vec![("cosine", 2), ("euclidean", 40)] };
    let mut v = Vec::new();
    let thorough = tier == "thorough";
    for (metric, dim) in cfgs {
        for (ii, init) in inits().into_iter().skip(1).enumerate() {
            if !thorough && ii > 0 {
                continue;
            }
            for pre in [vec![], vec![(0usize, 1usize)]] {
                for k in [1usize, 2] {
                    // a cached k=1 entry is only interesting against a racing k=2 search
                    if !thorough && !pre.is_empty() && k == 1 {
                        continue;
                    }
                    for w in &writes {
                        v.push(RaceProg { metric: metric.into(), dim, init: init.clone(), pre: pre.clone(), search: (0, k), writers: vec![w.clone()] });
                    }
                }
                if !thorough && !pre.is_empty() {
                    continue;
                }
                for p in &pairs {
                    v.push(RaceProg { metric: metric.into(), dim, init: init.clone(), pre: pre.clone(), search: (0, 2), writers: p.clone() });
                }
            }
        }
    }
    v
}

#[derive(Default)]
pub struct RStats {
    pub programs: u64,
    pub executions: u64,
    pub points: u64,
    pub capped: u64,
    pub incomplete: u64,
    pub epilogue_hits: u64,
    pub epilogue_misses: u64,
    pub outcomes: BTreeSet<String>,
    pub viol: SigBag,
}

fn apply_write(te: &Te, vs: &[Vec<f32>], op: &COp) {
    match op {
        COp::I { id, v } => {
            let _ = te.engine.insert(*id, vs[*v % vs.len()].clone(), Default::default());
        }
        COp::D { id } => {
            let _ = te.engine.delete(*id);
        }
        COp::UM { id } => {
            let _ = te.engine.update_metadata(*id, vcore::to_hash(&meta1("u", "1")), true);
        }
        COp::Bulk { id, v } => {
            let _ = te.engine.bulk_load_cold_tier(vec![(*id, vs[*v % vs.len()].clone(), Default::default())]);
        }
        COp::Flush => {
            let _ = te.engine.flush_hot_tier(true);
        }
        COp::S { .. } => {}
    }
}

fn model_after(vs: &[Vec<f32>], init: &[(u64, usize)], writers: &[COp]) -> BTreeMap<u64, Vec<f32>> {
    let mut m: BTreeMap<u64, Vec<f32>> = init.iter().map(|(id, v)| (*id, vs[*v % vs.len()].clone())).collect();
    for w in writers {
        match w {
            COp::I { id, v } | COp::Bulk { id, v } => {
                m.insert(*id, vs[*v % vs.len()].clone());
            }
            COp::D { id } => {
                m.remove(id);
            }
            _ => {}
        }
    }
    m
}

pub fn check_program(p: &RaceProg, bound: usize, max_execs: usize, st: &mut RStats) {
    st.programs += 1;
    let cfg = TeCfg { strategy: "lru".into(), l1a_capacity: 4, hot_soft: 2, hot_hard: 8, metric: p.metric.clone(), dim: p.dim, qcache_capacity: 4, qcache_threshold: 1.0, hnsw_capacity: 64 };
    let metric = cfg.metric();
    let vs = vecs(p.dim);
    let _ = model_after;
    let ecfg = ExploreCfg { bound, max_execs, ..Default::default() };
    let pj = p.clone();
    let out = explore(
        &ecfg,
        || {
            let te = Arc::new(Te::new(&cfg));
            for (id, v) in &p.init {
                te.engine.insert(*id, vs[*v % vs.len()].clone(), Default::default()).expect("init insert");
            }
            for (q, k) in &p.pre {
                let _ = te.engine.knn_search_with_ef_detailed_scoped(&vs[*q % vs.len()], *k, None, 0);
            }
            let mut bodies: Vec<Body> = Vec::new();
            {
                let te = te.clone();
                let q = vs[p.search.0 % vs.len()].clone();
                let k = p.search.1;
                bodies.push(Box::new(move || {
                    let _ = te.engine.knn_search_with_ef_detailed_scoped(&q, k, None, 0);
                }));
            }
            for w in &p.writers {
                let te = te.clone();
                let w = w.clone();
                let vs = vs.clone();
                bodies.push(Box::new(move || apply_write(&te, &vs, &w)));
            }
            (bodies, te)
        },
        |res, te, choices| {
            if res.outcome != Outcome::Completed {
                // deadlocks are C08's verdict; an unfinished execution proves nothing here
                st.incomplete += 1;
                return true;
            }
            let qv = &vs[p.search.0 % vs.len()];
            let k = p.search.1;
            let Ok((served, path)) = te.engine.knn_search_with_ef_detailed_scoped(qv, k, None, 0) else { return true };
            let path = format!("{path:?}");
            st.outcomes.insert(format!("{path}|{:?}", served.iter().map(|r| r.doc_id).collect::<Vec<_>>()));
            if path != "CacheHit" {
                st.epilogue_misses += 1;
                return true;
            }
            st.epilogue_hits += 1;
            // the reference is the engine's own canonical store AFTER the race (read only now,
            // after the cached answer was taken): the final collection is whatever the writers
            // left — e.g. delete || drain can legitimately-or-not resurrect a document, which is
            // C04/C05's business — and the cache must agree with it
            let model: BTreeMap<u64, Vec<f32>> = vcore::dump_backend(te.engine.cold_tier()).into_iter().map(|(id, (bits, _))| (id, vcore::unbits(&bits))).collect();
            let mut all: Vec<(f64, u64)> = model.iter().map(|(id, v)| (crate::c06::true_distance(metric, qv, v), *id)).collect();
            all.sort_by(|a, b| a.partial_cmp(b).unwrap());
            let want_n = k.min(all.len());
            let none = BTreeSet::new();
            let sc = SearchCheck { metric, model: &model, hot_ids: &none };
            let mut bad: Option<(String, String)> = None;
            if let Err((s, d)) = check_results(&sc, qv, k, &served, true) {
                bad = Some((s, d));
            } else if served.len() != want_n {
                bad = Some(("wrong-cardinality".into(), format!("served {} results, a fresh search returns {want_n}", served.len())));
            } else if let Some(last) = served.last() {
                let kth = last.distance as f64;
                let ids: BTreeSet<u64> = served.iter().map(|r| r.doc_id).collect();
                for (d, id) in &all {
                    if !ids.contains(id) && *d + 1e-4 * d.abs().max(1.0) < kth {
                        bad = Some(("omits-strictly-closer-document".into(), format!("doc {id} at {d} is closer than the served k-th at {kth}")));
                        break;
                    }
                }
            }
            if let Some((sym, detail)) = bad {
                st.viol.push((
                    format!("C07|race|cache-hit-after-race-{sym}|{}", p.metric),
                    json!({"engine":"seqmc","check":"C07","part":4,"program":pj,"schedule":choices,"preemptions":res.preemptions,"detail":detail,"served":served.iter().map(|r| (r.doc_id, r.distance)).collect::<Vec<_>>(),"brute_force":all,
                        "trace":res.order.iter().map(|(t,k,ph)| format!("T{t} {ph} lock{k}")).collect::<Vec<_>>(),
                        "locks":res.touches.iter().map(|(k,t)| (k.to_string(), t.site.clone())).collect::<BTreeMap<_,_>>()}),
                ));
                return false;
            }
            true
        },
    );
    st.executions += out.executions;
    st.points += out.points;
    if out.capped {
        st.capped += 1;
    }
}
