//! C18 — unsafe durability and exposure settings are refused outside benchmark mode.
//! Full cross product of the safety-relevant settings, each delivered as TOML file, YAML file and
//! KYRODB__ environment overrides, through the real KyroDbConfig::load + validate.

use kyrodb_engine::config::KyroDbConfig;
use serde_json::{json, Value};
use std::collections::BTreeSet;
use vcore::evidence::Evidence;
use vcore::findings::{Reporter, SigBag};

#[derive(Clone, Debug, serde::Serialize)]
pub struct Row {
    pub env: String,
    pub fsync: &'static str,
    pub snap: u64,
    pub recovery: &'static str,
    pub strategy: &'static str,
    pub auth: bool,
    pub rate: bool,
    pub obs: &'static str,
    pub fresh: bool,
    pub tls: bool,
    pub host: &'static str,
    pub variant: u8,
}

fn rows(tier: &str) -> Vec<Row> {
    let envs: Vec<&str> = if tier == "thorough" {
        vec!["production", "pilot", "benchmark", "Pilot", " pilot ", "PRODUCTION", "bench"]
    } else {
        vec!["production", "pilot", "benchmark", " Pilot "]
    };
    let hosts: Vec<&'static str> = if tier == "thorough" {
        vec!["127.0.0.1", "localhost", "::1", "0.0.0.0", "10.0.0.5", "[::1]"]
    } else {
        vec!["127.0.0.1", "0.0.0.0", "[::1]", "10.0.0.5"]
    };
    let mut v = Vec::new();
    for env in &envs {
        for fsync in ["none", "data_only", "full"] {
            for snap in [0u64, 5] {
                for recovery in ["strict", "best_effort"] {
                    for strategy in ["lru", "learned", "abtest"] {
                        for auth in [false, true] {
                            for rate in [false, true] {
                                for obs in ["disabled", "metrics_and_slo", "all"] {
                                    for fresh in [false, true] {
                                        for tls in [false, true] {
                                            for host in &hosts {
                                                v.push(Row { env: env.to_string(), fsync, snap, recovery, strategy, auth, rate, obs, fresh, tls, host, variant: 0 });
                                            }
                                        }
                                    }
                                }
                            }
                        }
                    }
                }
            }
        }
    }
    // second "remaining settings" variant on a slice (every 7th row)
    let extra: Vec<Row> = v.iter().step_by(7).map(|r| Row { variant: 1, ..r.clone() }).collect();
    v.extend(extra);
    v
}

fn is_loopback(host: &str) -> bool {
    let t = host.trim();
    let t = t.strip_prefix('[').and_then(|x| x.strip_suffix(']')).unwrap_or(t);
    if t.eq_ignore_ascii_case("localhost") {
        return true;
    }
    t.parse::<std::net::IpAddr>().map(|ip| ip.is_loopback()).unwrap_or(false)
}

/// Independent safety predicate transcribed from the property statement.
/// Returns None if safe, Some(reason) if the row must not be accepted.
fn unsafe_reason(r: &Row) -> Option<&'static str> {
    let env = r.env.trim().to_ascii_lowercase();
    match env.as_str() {
        "benchmark" => return None,
        "production" | "pilot" => {}
        _ => return Some("unknown-environment-accepted"),
    }
    if r.fsync == "none" {
        return Some("fsync-disabled");
    }
    if r.snap == 0 {
        return Some("snapshots-disabled");
    }
    if r.recovery != "strict" {
        return Some("recovery-not-strict");
    }
    if r.strategy != "learned" {
        return Some("cache-strategy-not-learned");
    }
    if env == "pilot" {
        if !r.auth {
            return Some("pilot-without-auth");
        }
        if !r.rate {
            return Some("pilot-without-rate-limit");
        }
        if r.obs == "disabled" {
            return Some("pilot-unprotected-observability");
        }
        if r.fresh {
            return Some("pilot-fresh-start-after-failed-recovery");
        }
        if !r.tls && !is_loopback(r.host) {
            return Some("pilot-non-loopback-without-tls");
        }
    }
    if env == "production" && !is_loopback(r.host) && !r.auth {
        return Some("production-non-loopback-without-auth");
    }
    None
}

/// One setting: dotted path + value.
type Setting = (&'static str, Value);

/// The safety-relevant settings of a row.
fn base_settings(r: &Row) -> Vec<(String, Value)> {
    let mut v: Vec<(String, Value)> = vec![
        ("environment.type".into(), json!(r.env)),
        ("server.host".into(), json!(r.host)),
        ("server.observability_auth".into(), json!(r.obs)),
        ("server.tls.enabled".into(), json!(r.tls)),
        ("persistence.fsync_policy".into(), json!(r.fsync)),
        ("persistence.snapshot_interval_mutations".into(), json!(r.snap)),
        ("persistence.recovery_mode".into(), json!(r.recovery)),
        ("persistence.allow_fresh_start_on_recovery_failure".into(), json!(r.fresh)),
        ("cache.strategy".into(), json!(r.strategy)),
        ("auth.enabled".into(), json!(r.auth)),
        ("rate_limit.enabled".into(), json!(r.rate)),
    ];
    if r.tls {
        v.push(("server.tls.cert_path".into(), json!("/nonexistent/cert.pem")));
        v.push(("server.tls.key_path".into(), json!("/nonexistent/key.pem")));
    }
    if r.auth {
        v.push(("auth.api_keys_file".into(), json!("/nonexistent/keys.yaml")));
    }
    v
}

/// "Remaining settings": every other field of the configuration with a valid non-default value
/// (two for the ones that classify a host). Each entry is one deviation from the defaults.
pub fn deviations() -> Vec<(&'static str, Vec<Setting>)> {
    vec![
        ("server.port", vec![("server.port", json!(6000))]),
        ("server.http_port", vec![("server.http_port", json!(7001))]),
        ("server.http_host=loopback", vec![("server.http_host", json!("127.0.0.1"))]),
        ("server.http_host=localhost", vec![("server.http_host", json!("localhost"))]),
        ("server.http_host=non-loopback", vec![("server.http_host", json!("0.0.0.0"))]),
        ("server.max_connections", vec![("server.max_connections", json!(17))]),
        ("server.connection_timeout_secs", vec![("server.connection_timeout_secs", json!(1))]),
        ("server.shutdown_timeout_secs", vec![("server.shutdown_timeout_secs", json!(1))]),
        ("server.tls.ca_cert_path", vec![("server.tls.ca_cert_path", json!("/nonexistent/ca.pem"))]),
        ("server.tls.require_client_cert", vec![("server.tls.require_client_cert", json!(true)), ("server.tls.ca_cert_path", json!("/nonexistent/ca.pem"))]),
        ("server.tls.cert+key-without-enabled", vec![("server.tls.cert_path", json!("/nonexistent/cert.pem")), ("server.tls.key_path", json!("/nonexistent/key.pem"))]),
        ("cache.capacity", vec![("cache.capacity", json!(50000))]),
        ("cache.training_interval_secs", vec![("cache.training_interval_secs", json!(5))]),
        ("cache.enable_training_task", vec![("cache.enable_training_task", json!(false))]),
        ("cache.logger_window_size", vec![("cache.logger_window_size", json!(10))]),
        ("cache.predictor_capacity_multiplier", vec![("cache.predictor_capacity_multiplier", json!(2))]),
        ("cache.query_cache_capacity", vec![("cache.query_cache_capacity", json!(9))]),
        ("cache.query_cache_similarity_threshold", vec![("cache.query_cache_similarity_threshold", json!(0.75))]),
        ("cache.search_access_log_top_n", vec![("cache.search_access_log_top_n", json!(3))]),
        ("cache.hot_tier_max_age_secs", vec![("cache.hot_tier_max_age_secs", json!(30))]),
        ("cache.training_window_secs", vec![("cache.training_window_secs", json!(10))]),
        ("cache.recency_halflife_secs", vec![("cache.recency_halflife_secs", json!(10))]),
        ("cache.min_training_samples", vec![("cache.min_training_samples", json!(5))]),
        ("cache.admission_threshold", vec![("cache.admission_threshold", json!(0.5))]),
        ("cache.adaptive_admission.enabled", vec![("cache.adaptive_admission.enabled", json!(false))]),
        ("cache.adaptive_admission.enabled=true", vec![("cache.adaptive_admission.enabled", json!(true))]),
        ("cache.adaptive_admission.target_utilization", vec![("cache.adaptive_admission.target_utilization", json!(0.5))]),
        ("cache.adaptive_admission.control_interval_secs", vec![("cache.adaptive_admission.control_interval_secs", json!(3))]),
        ("cache.adaptive_admission.max_bias", vec![("cache.adaptive_admission.max_bias", json!(0.25))]),
        ("cache.semantic.high_confidence_threshold", vec![("cache.semantic.high_confidence_threshold", json!(0.75))]),
        ("cache.semantic.low_confidence_threshold", vec![("cache.semantic.low_confidence_threshold", json!(0.125))]),
        ("cache.semantic.semantic_similarity_threshold", vec![("cache.semantic.semantic_similarity_threshold", json!(0.5))]),
        ("cache.semantic.max_cached_embeddings", vec![("cache.semantic.max_cached_embeddings", json!(5000))]),
        ("cache.semantic.similarity_scan_limit", vec![("cache.semantic.similarity_scan_limit", json!(10))]),
        ("hnsw.max_elements", vec![("hnsw.max_elements", json!(1000))]),
        ("hnsw.m", vec![("hnsw.m", json!(8))]),
        ("hnsw.ef_construction", vec![("hnsw.ef_construction", json!(64))]),
        ("hnsw.ef_search", vec![("hnsw.ef_search", json!(10))]),
        ("hnsw.dimension", vec![("hnsw.dimension", json!(16))]),
        ("hnsw.distance=euclidean", vec![("hnsw.distance", json!("euclidean"))]),
        ("hnsw.distance=innerproduct", vec![("hnsw.distance", json!("innerproduct"))]),
        ("hnsw.disable_normalization_check", vec![("hnsw.disable_normalization_check", json!(true))]),
        ("persistence.data_dir", vec![("persistence.data_dir", json!("/nonexistent/data"))]),
        ("persistence.wal_flush_interval_ms", vec![("persistence.wal_flush_interval_ms", json!(7))]),
        ("persistence.max_wal_size_bytes", vec![("persistence.max_wal_size_bytes", json!(4096))]),
        ("persistence.enable_recovery", vec![("persistence.enable_recovery", json!(false))]),
        ("slo.p99_latency_ms", vec![("slo.p99_latency_ms", json!(5.5))]),
        ("slo.cache_hit_rate", vec![("slo.cache_hit_rate", json!(0.5))]),
        ("slo.error_rate", vec![("slo.error_rate", json!(0.5))]),
        ("slo.availability", vec![("slo.availability", json!(0.5))]),
        ("slo.min_samples", vec![("slo.min_samples", json!(3))]),
        ("rate_limit.max_qps_per_connection", vec![("rate_limit.max_qps_per_connection", json!(5))]),
        ("rate_limit.max_qps_global", vec![("rate_limit.max_qps_global", json!(50))]),
        ("rate_limit.burst_capacity", vec![("rate_limit.burst_capacity", json!(3))]),
        ("logging.level", vec![("logging.level", json!("debug"))]),
        ("logging.format", vec![("logging.format", json!("json"))]),
        ("logging.file", vec![("logging.file", json!("/nonexistent/k.log"))]),
        ("logging.rotation", vec![("logging.rotation", json!(false))]),
        ("logging.max_file_size_bytes", vec![("logging.max_file_size_bytes", json!(4096))]),
        ("logging.max_files", vec![("logging.max_files", json!(2))]),
        ("auth.api_keys_file-without-enabled", vec![("auth.api_keys_file", json!("/nonexistent/keys.yaml"))]),
        ("timeouts.cache_ms", vec![("timeouts.cache_ms", json!(5))]),
        ("timeouts.hot_tier_ms", vec![("timeouts.hot_tier_ms", json!(5))]),
        ("timeouts.cold_tier_ms", vec![("timeouts.cold_tier_ms", json!(5))]),
        ("timeouts.max_concurrent_queries", vec![("timeouts.max_concurrent_queries", json!(3))]),
    ]
}

/// The "several at once" variant (variant 1 of the full matrix).
fn combo() -> Vec<Setting> {
    vec![
        ("server.port", json!(6000)),
        ("server.max_connections", json!(17)),
        ("persistence.max_wal_size_bytes", json!(4096)),
        ("persistence.wal_flush_interval_ms", json!(7)),
        ("cache.capacity", json!(123)),
        ("cache.min_training_samples", json!(5)),
        ("cache.query_cache_capacity", json!(9)),
        ("hnsw.dimension", json!(16)),
        ("hnsw.m", json!(8)),
        ("hnsw.ef_construction", json!(64)),
    ]
}

fn merged(r: &Row, dev: &[Setting]) -> Vec<(String, Value)> {
    let mut v = base_settings(r);
    if r.variant == 1 {
        for (k, val) in combo() {
            v.push((k.to_string(), val));
        }
    }
    for (k, val) in dev {
        if let Some(e) = v.iter_mut().find(|(kk, _)| kk == k) {
            e.1 = val.clone();
        } else {
            v.push((k.to_string(), val.clone()));
        }
    }
    v
}

fn nest(settings: &[(String, Value)]) -> Value {
    let mut root = serde_json::Map::new();
    for (path, val) in settings {
        let parts: Vec<&str> = path.split('.').collect();
        let mut cur = &mut root;
        for p in &parts[..parts.len() - 1] {
            cur = cur.entry(p.to_string()).or_insert_with(|| Value::Object(Default::default())).as_object_mut().unwrap();
        }
        cur.insert(parts[parts.len() - 1].to_string(), val.clone());
    }
    Value::Object(root)
}

fn scalar(v: &Value) -> String {
    match v {
        Value::String(s) => format!("{s:?}"),
        Value::Number(n) if n.is_f64() => format!("{:?}", n.as_f64().unwrap()),
        other => other.to_string(),
    }
}

fn toml_emit(prefix: &str, obj: &serde_json::Map<String, Value>, out: &mut String) {
    if !prefix.is_empty() {
        out.push_str(&format!("[{prefix}]\n"));
    }
    for (k, v) in obj {
        if !v.is_object() {
            out.push_str(&format!("{k} = {}\n", scalar(v)));
        }
    }
    for (k, v) in obj {
        if let Some(o) = v.as_object() {
            let p = if prefix.is_empty() { k.clone() } else { format!("{prefix}.{k}") };
            toml_emit(&p, o, out);
        }
    }
}

fn yaml_emit(indent: usize, obj: &serde_json::Map<String, Value>, out: &mut String) {
    for (k, v) in obj {
        if let Some(o) = v.as_object() {
            out.push_str(&format!("{}{k}:\n", " ".repeat(indent)));
            yaml_emit(indent + 2, o, out);
        } else {
            out.push_str(&format!("{}{k}: {}\n", " ".repeat(indent), scalar(v)));
        }
    }
}

fn toml_of(r: &Row, dev: &[Setting]) -> String {
    let mut s = String::new();
    toml_emit("", nest(&merged(r, dev)).as_object().unwrap(), &mut s);
    s
}

fn yaml_of(r: &Row, dev: &[Setting]) -> String {
    let mut s = String::new();
    yaml_emit(0, nest(&merged(r, dev)).as_object().unwrap(), &mut s);
    s
}

fn env_of(r: &Row, dev: &[Setting]) -> Vec<(String, String)> {
    merged(r, dev)
        .into_iter()
        .map(|(k, v)| {
            let key = format!("KYRODB__{}", k.to_ascii_uppercase().replace('.', "__"));
            let val = match v {
                Value::String(s) => s,
                other => other.to_string(),
            };
            (key, val)
        })
        .collect()
}

fn clear_env() {
    let keys: Vec<String> = std::env::vars().map(|(k, _)| k).filter(|k| k.starts_with("KYRODB")).collect();
    for k in keys {
        std::env::remove_var(k);
    }
}

const TEMPLATES: [&str; 4] = ["config.pilot.toml", "config.pilot.yaml", "config.example.toml", "config.example.yaml"];

fn repo_root() -> String {
    std::env::var("VERIF_REPO").unwrap_or_else(|_| "/repo".to_string())
}

/// Load + validate through one delivery route. true = accepted, false = rejected.
/// Routes: "toml" / "yaml" (everything in one file), "env" (everything as KYRODB__ overrides over
/// the defaults), "tpl:<file>" (a configuration template shipped in the repository as the file,
/// the row's settings as environment overrides on top — the documented deployment route).
fn deliver(r: &Row, dev: &[Setting], route: &str, dir: &std::path::Path) -> bool {
    clear_env();
    let res = match route {
        "toml" => {
            let p = dir.join("c.toml");
            std::fs::write(&p, toml_of(r, dev)).unwrap();
            KyroDbConfig::load(Some(p.to_str().unwrap()))
        }
        "yaml" => {
            let p = dir.join("c.yaml");
            std::fs::write(&p, yaml_of(r, dev)).unwrap();
            KyroDbConfig::load(Some(p.to_str().unwrap()))
        }
        "env" => {
            for (k, v) in env_of(r, dev) {
                std::env::set_var(k, v);
            }
            KyroDbConfig::load(None)
        }
        tpl => {
            let file = format!("{}/{}", repo_root(), tpl.strip_prefix("tpl:").expect("route"));
            for (k, v) in env_of(r, dev) {
                std::env::set_var(k, v);
            }
            KyroDbConfig::load(Some(&file))
        }
    };
    let ok = match res {
        Ok(cfg) => cfg.validate().is_ok(),
        Err(_) => false,
    };
    clear_env();
    ok
}

fn count_reasons(r: &Row) -> usize {
    // number of independently violated conditions (for the one-step frontier)
    let env = r.env.trim().to_ascii_lowercase();
    if env == "benchmark" {
        return 0;
    }
    if env != "production" && env != "pilot" {
        return 1;
    }
    let mut n = 0;
    n += (r.fsync == "none") as usize;
    n += (r.snap == 0) as usize;
    n += (r.recovery != "strict") as usize;
    n += (r.strategy != "learned") as usize;
    if env == "pilot" {
        n += (!r.auth) as usize;
        n += (!r.rate) as usize;
        n += (r.obs == "disabled") as usize;
        n += r.fresh as usize;
        n += (!r.tls && !is_loopback(r.host)) as usize;
    }
    if env == "production" {
        n += (!is_loopback(r.host) && !r.auth) as usize;
    }
    n
}

fn judge(r: &Row, devname: &str, dev: &[Setting], route: &str, acc: bool, viol: &mut SigBag) {
    if acc {
        if let Some(reason) = unsafe_reason(r) {
            let via = if route.starts_with("tpl:") { "template+env" } else { route };
            let with = if devname.is_empty() { String::new() } else { format!("|with={devname}") };
            viol.push((format!("C18|accepted-unsafe|{reason}|via={via}{with}"), json!({"engine":"seqmc","check":"C18","row":r,"route":route,"reason":reason,"deviation":devname,"deviation_settings":dev.iter().map(|(k,v)| json!([k,v])).collect::<Vec<_>>() })));
        }
    }
}

pub fn worker(wi: usize, wn: usize, tier: &str) {
    let scratch = vcore::Scratch::new(&format!("c18w{wi}"));
    let all = rows(tier);
    let devs = deviations();
    let mut evals = 0u64;
    let mut accepted = 0u64;
    let mut rejected = 0u64;
    let mut route_disagree = 0u64;
    let mut dev_evals = 0u64;
    let mut tpl_evals = 0u64;
    let mut viol = SigBag::default();
    let mut accepted_by_env: std::collections::BTreeMap<String, u64> = Default::default();
    let mut dev_accepts: std::collections::BTreeMap<String, u64> = Default::default();
    let mut frontier = 0u64;
    for (i, r) in all.iter().enumerate() {
        if i % wn != wi {
            continue;
        }
        // 1. the full matrix through the three self-contained routes
        let mut outs = Vec::new();
        for route in ["toml", "yaml", "env"] {
            let acc = deliver(r, &[], route, &scratch.path);
            evals += 1;
            outs.push(acc);
            if acc {
                accepted += 1;
                *accepted_by_env.entry(r.env.trim().to_ascii_lowercase()).or_insert(0) += 1;
            } else {
                rejected += 1;
            }
            judge(r, "", &[], route, acc, &mut viol);
        }
        if !(outs[0] == outs[1] && outs[1] == outs[2]) {
            route_disagree += 1;
            viol.push(("C18|delivery-routes-disagree".to_string(), json!({"engine":"seqmc","check":"C18","row":r,"accepted_toml_yaml_env":outs})));
        }
        if r.variant != 0 {
            continue;
        }
        // 2. shipped templates + environment overrides
        for tpl in TEMPLATES {
            let route = format!("tpl:{tpl}");
            let acc = deliver(r, &[], &route, &scratch.path);
            evals += 1;
            tpl_evals += 1;
            if acc {
                accepted += 1;
            } else {
                rejected += 1;
            }
            judge(r, "", &[], &route, acc, &mut viol);
        }
        // 3. "whatever the remaining settings are": on the one-step frontier (rows that are safe
        //    or violate exactly one condition) every single deviation of a remaining setting
        if count_reasons(r) <= 1 && r.env.trim().to_ascii_lowercase() != "benchmark" {
            frontier += 1;
            for (name, dev) in &devs {
                let mut o = Vec::new();
                for route in ["toml", "yaml", "env"] {
                    let acc = deliver(r, dev, route, &scratch.path);
                    evals += 1;
                    dev_evals += 1;
                    o.push(acc);
                    if acc {
                        accepted += 1;
                        *dev_accepts.entry(name.to_string()).or_insert(0) += 1;
                    } else {
                        rejected += 1;
                    }
                    judge(r, name, dev, route, acc, &mut viol);
                }
                if !(o[0] == o[1] && o[1] == o[2]) {
                    route_disagree += 1;
                    viol.push((format!("C18|delivery-routes-disagree|with={name}"), json!({"engine":"seqmc","check":"C18","row":r,"deviation":name,"accepted_toml_yaml_env":o})));
                }
            }
            // "however the values arrive": the documented legacy spelling of the snapshot interval
            // (persistence.snapshot_interval_inserts) set to 0 on an otherwise SAFE row disables
            // snapshots; the configuration must not be accepted (today the loader refuses the key
            // next to the modern one; whatever it does, it must not start without snapshots)
            if count_reasons(r) == 0 {
                let legacy: Vec<Setting> = vec![("persistence.snapshot_interval_inserts", json!(0))];
                for route in ["toml", "yaml", "env"] {
                    let acc = deliver(r, &legacy, route, &scratch.path);
                    evals += 1;
                    dev_evals += 1;
                    if acc {
                        accepted += 1;
                        viol.push((format!("C18|accepted-unsafe|snapshots-disabled-through-the-legacy-key|via={route}"), json!({"engine":"seqmc","check":"C18","row":r,"extra_setting":"persistence.snapshot_interval_inserts = 0","route":route})));
                    } else {
                        rejected += 1;
                    }
                }
            }
        }
    }
    vcore::par::worker_emit(&json!({"evals":evals,"accepted":accepted,"rejected":rejected,"route_disagree":route_disagree,"violations":viol.to_json(),"accepted_by_env":accepted_by_env,
        "dev_evals":dev_evals,"tpl_evals":tpl_evals,"frontier":frontier,"dev_accepts":dev_accepts}));
}

fn run_server_slice(tier: &str) -> Result<Value, String> {
    let bin = std::env::var("SRVMC_BIN").map_err(|_| "SRVMC_BIN not set (run through bin/check)".to_string())?;
    let out = vcore::par::output_retry(std::process::Command::new(&bin).arg("C18S").arg(tier).env_remove("LD_PRELOAD")).map_err(|e| format!("cannot run {bin}: {e}"))?;
    let stdout = String::from_utf8_lossy(&out.stdout);
    let line = stdout.lines().find_map(|l| l.strip_prefix("C18S-RESULT ")).ok_or_else(|| format!("no result line; exit {:?}; stderr: {}", out.status.code(), String::from_utf8_lossy(&out.stderr)))?;
    serde_json::from_str(line).map_err(|e| format!("bad result: {e}"))
}

pub fn run(tier: &str, replay: Option<&str>) -> i32 {
    if let Some(p) = replay {
        let v: Value = serde_json::from_str(&std::fs::read_to_string(p).expect("read")).expect("json");
        let c = &v["case"];
        if c["check"] == "C18S" {
            let sig = v["signature"].as_str().unwrap_or("").to_string();
            return match run_server_slice("thorough") {
                Ok(r) => {
                    if r["violations"].as_array().map(|a| a.iter().any(|x| x["sig"] == sig.as_str())).unwrap_or(false) {
                        println!("replay: reproduced {sig}");
                        println!("VIOLATION property=C18 replay={p}");
                        1
                    } else {
                        println!("replay: no violation with signature {sig}");
                        0
                    }
                }
                Err(e) => {
                    eprintln!("machinery error: {e}");
                    2
                }
            };
        }
        let env = c["row"]["env"].as_str().unwrap_or("").to_string();
        let all = rows("thorough");
        let want = c["row"].clone();
        let Some(r) = all.iter().find(|r| { let mut j = serde_json::to_value(r).unwrap(); j["variant"] = want["variant"].clone(); j == want }) else {
            println!("replay: row not in the matrix: {want} (env {env})");
            return 2;
        };
        let r = Row { variant: want["variant"].as_u64().unwrap_or(0) as u8, ..r.clone() };
        let devname = c["deviation"].as_str().unwrap_or("");
        let devs = deviations();
        let dev: Vec<Setting> = devs.iter().find(|(n, _)| *n == devname).map(|(_, d)| d.clone()).unwrap_or_default();
        let scratch = vcore::Scratch::new("c18replay");
        let route = c["route"].as_str().unwrap_or("toml");
        let acc = deliver(&r, &dev, route, &scratch.path);
        println!("replay: row {want} deviation {devname:?} via {route}: accepted={acc}, unsafe reason {:?}", unsafe_reason(&r));
        if acc && unsafe_reason(&r).is_some() {
            println!("VIOLATION property=C18 replay={p}");
            return 1;
        }
        return 0;
    }
    if let Some((i, n)) = vcore::par::worker_id() {
        worker(i, n, tier);
        return 0;
    }
    let res = vcore::par::run_workers(vcore::par::jobs(), &[]);
    let mut ev = Evidence::new("C18", tier, "exploration");
    let mut rep = Reporter::new("C18");
    let mut tot = std::collections::BTreeMap::new();
    let mut by_env: std::collections::BTreeMap<String, u64> = Default::default();
    let mut dev_acc: std::collections::BTreeMap<String, u64> = Default::default();
    for r in &res {
        for k in ["evals", "accepted", "rejected", "route_disagree", "dev_evals", "tpl_evals", "frontier"] {
            *tot.entry(k).or_insert(0u64) += r[k].as_u64().unwrap_or(0);
        }
        for (k, v) in r["accepted_by_env"].as_object().unwrap() {
            *by_env.entry(k.clone()).or_insert(0) += v.as_u64().unwrap();
        }
        for (k, v) in r["dev_accepts"].as_object().unwrap() {
            *dev_acc.entry(k.clone()).or_insert(0) += v.as_u64().unwrap();
        }
        rep.report_bag(&r["violations"]);
    }
    let all = rows(tier);
    let distinct: BTreeSet<String> = all.iter().map(|r| format!("{r:?}")).collect();
    // server-level slice: exit status of the real binary (srvmc C18S)
    let mut srv_launches = 0u64;
    match run_server_slice(tier) {
        Ok(v) => {
            srv_launches = v["launches"].as_u64().unwrap_or(0);
            rep.report_bag(&v["violations"]);
            ev.set("server_slice_launches_of_the_real_binary", v["launches"].clone());
            ev.set("server_slice_unsafe_configurations_refused_with_nonzero_exit", v["unsafe_refused"].clone());
            ev.set("server_slice_safe_configurations_started", v["safe_started"].clone());
            ev.set("server_slice_outcomes", v["outcomes"].clone());
        }
        Err(e) => {
            eprintln!("C18: machinery error in the server-level slice: {e}");
            return 2;
        }
    }
    ev.set("evaluations", tot["evals"] + srv_launches);
    ev.set("distinct_nontrivial", tot["accepted"]);
    ev.set("rule", "full cross product environment x fsync {none,data_only,full} x snapshot interval {0,5} x recovery {strict,best_effort} x strategy {lru,learned,abtest} x auth x rate limit x observability auth {disabled,metrics_and_slo,all} x fresh-start flag x TLS x bind host, plus a 'several remaining settings at once' variant on every 7th row; each row delivered three ways (TOML file, YAML file, KYRODB__ environment overrides over defaults) through KyroDbConfig::load + validate, and additionally as environment overrides on top of each configuration template shipped in the repository (config.pilot.{toml,yaml}, config.example.{toml,yaml}); on the one-step frontier (rows that are safe or violate exactly one condition) every single deviation of a remaining setting (all other configuration fields, incl. http_host loopback / non-loopback) x the three routes; oracle: accepted => independent safety predicate transcribed from the property; the three self-contained routes must agree; non-trivial = accepted evaluations. server level: the REAL binary is launched on loopback with one configuration per (environment, single violated condition) x {TOML, YAML, environment overrides}: an unsafe configuration must make the process exit non-zero before its port opens; safe baselines (production, pilot with a real API-key file, benchmark with everything off) must start");
    ev.set("remaining_setting_deviations", deviations().len() as u64);
    ev.set("frontier_rows", tot["frontier"]);
    ev.set("deviation_evaluations", tot["dev_evals"]);
    ev.set("template_evaluations", tot["tpl_evals"]);
    let never: Vec<&str> = deviations().iter().map(|(n, _)| *n).filter(|n| dev_acc.get(*n).copied().unwrap_or(0) == 0).collect();
    ev.set("deviations_never_accepted", json!(never));
    if !never.is_empty() {
        eprintln!("C18: machinery error: deviations never accepted on any safe row (invalid value in the catalogue?): {never:?}");
        return 2;
    }
    ev.set("samples", json!([all[3], all[all.len() / 2], {"toml": toml_of(&all[all.len() / 3], &deviations()[2].1)}]));
    ev.set("exhaustive", true);
    ev.set("rows", distinct.len() as u64);
    ev.set("accepted", tot["accepted"]);
    ev.set("rejected", tot["rejected"]);
    ev.set("accepted_by_environment", json!(by_env));
    ev.set("rows_where_routes_disagree", tot["route_disagree"]);
    ev.assume("server-level slice: 'refuses to start' = the process exits with a non-zero status before its gRPC port accepts a connection");
    ev.assume("api_keys_file / TLS cert+key paths are supplied whenever auth / TLS are enabled so that rows are not rejected for unrelated reasons");
    ev.assume("loopback = the host (brackets stripped) is 'localhost' or parses as a loopback IP address");
    ev.violations = rep.violations as i64;
    ev.write();
    println!("C18 {tier}: rows={} evaluations={} accepted={} rejected={} by_env={:?} violations={}", distinct.len(), tot["evals"], tot["accepted"], tot["rejected"], by_env, rep.violations);
    rep.finish()
}
