//! C18 — unsafe durability and exposure settings are refused outside benchmark mode.
//! Full cross product of the safety-relevant settings, each delivered as TOML file, YAML file and
//! KYRODB__ environment overrides, through the real KyroDbConfig::load + validate.

use kyrodb_engine::config::KyroDbConfig;
use serde_json::{json, Value};
use std::collections::BTreeSet;
use vcore::evidence::Evidence;
use vcore::findings::{Reporter, SigBag};

#[derive(Clone, Debug, serde::Serialize)]
pub struct Row {
    pub env: String,
    pub fsync: &'static str,
    pub snap: u64,
    pub recovery: &'static str,
    pub strategy: &'static str,
    pub auth: bool,
    pub rate: bool,
    pub obs: &'static str,
    pub fresh: bool,
    pub tls: bool,
    pub host: &'static str,
    pub variant: u8,
}

fn rows(tier: &str) -> Vec<Row> {
    let envs: Vec<&str> = if tier == "thorough" {
        vec!["production", "pilot", "benchmark", "Pilot", " pilot ", "PRODUCTION", "bench"]
    } else {
        vec!["production", "pilot", "benchmark", " Pilot "]
    };
    let hosts: Vec<&'static str> = if tier == "thorough" {
        vec!["127.0.0.1", "localhost", "::1", "0.0.0.0", "10.0.0.5", "[::1]"]
    } else {
        vec!["127.0.0.1", "0.0.0.0", "[::1]", "10.0.0.5"]
    };
    let mut v = Vec::new();
    for env in &envs {
        for fsync in ["none", "data_only", "full"] {
            for snap in [0u64, 5] {
                for recovery in ["strict", "best_effort"] {
                    for strategy in ["lru", "learned", "abtest"] {
                        for auth in [false, true] {
                            for rate in [false, true] {
                                for obs in ["disabled", "metrics_and_slo", "all"] {
                                    for fresh in [false, true] {
                                        for tls in [false, true] {
                                            for host in &hosts {
                                                v.push(Row { env: env.to_string(), fsync, snap, recovery, strategy, auth, rate, obs, fresh, tls, host, variant: 0 });
                                            }
                                        }
                                    }
                                }
                            }
                        }
                    }
                }
            }
        }
    }
    // second "remaining settings" variant on a slice (every 7th row)
    let extra: Vec<Row> = v.iter().step_by(7).map(|r| Row { variant: 1, ..r.clone() }).collect();
    v.extend(extra);
    v
}

fn is_loopback(host: &str) -> bool {
    let t = host.trim();
    let t = t.strip_prefix('[').and_then(|x| x.strip_suffix(']')).unwrap_or(t);
    if t.eq_ignore_ascii_case("localhost") {
        return true;
    }
    t.parse::<std::net::IpAddr>().map(|ip| ip.is_loopback()).unwrap_or(false)
}

/// Independent safety predicate transcribed from the property statement.
/// Returns None if safe, Some(reason) if the row must not be accepted.
fn unsafe_reason(r: &Row) -> Option<&'static str> {
    let env = r.env.trim().to_ascii_lowercase();
    match env.as_str() {
        "benchmark" => return None,
        "production" | "pilot" => {}
        _ => return Some("unknown-environment-accepted"),
    }
    if r.fsync == "none" {
        return Some("fsync-disabled");
    }
    if r.snap == 0 {
        return Some("snapshots-disabled");
    }
    if r.recovery != "strict" {
        return Some("recovery-not-strict");
    }
    if r.strategy != "learned" {
        return Some("cache-strategy-not-learned");
    }
    if env == "pilot" {
        if !r.auth {
            return Some("pilot-without-auth");
        }
        if !r.rate {
            return Some("pilot-without-rate-limit");
        }
        if r.obs == "disabled" {
            return Some("pilot-unprotected-observability");
        }
        if r.fresh {
            return Some("pilot-fresh-start-after-failed-recovery");
        }
        if !r.tls && !is_loopback(r.host) {
            return Some("pilot-non-loopback-without-tls");
        }
    }
    if env == "production" && !is_loopback(r.host) && !r.auth {
        return Some("production-non-loopback-without-auth");
    }
    None
}

fn toml_of(r: &Row) -> String {
    let mut s = String::new();
    s += &format!("[environment]\ntype = {:?}\n", r.env);
    s += &format!("[server]\nhost = {:?}\nobservability_auth = {:?}\n", r.host, r.obs);
    if r.variant == 1 {
        s += "port = 6000\nmax_connections = 17\n";
    }
    s += &format!("[server.tls]\nenabled = {}\n", r.tls);
    if r.tls {
        s += "cert_path = \"/nonexistent/cert.pem\"\nkey_path = \"/nonexistent/key.pem\"\n";
    }
    s += &format!("[persistence]\nfsync_policy = {:?}\nsnapshot_interval_mutations = {}\nrecovery_mode = {:?}\nallow_fresh_start_on_recovery_failure = {}\n", r.fsync, r.snap, r.recovery, r.fresh);
    if r.variant == 1 {
        s += "max_wal_size_bytes = 4096\nwal_flush_interval_ms = 7\n";
    }
    s += &format!("[cache]\nstrategy = {:?}\n", r.strategy);
    if r.variant == 1 {
        s += "capacity = 123\nmin_training_samples = 5\nquery_cache_capacity = 9\n";
    }
    s += &format!("[auth]\nenabled = {}\n", r.auth);
    if r.auth {
        s += "api_keys_file = \"/nonexistent/keys.yaml\"\n";
    }
    s += &format!("[rate_limit]\nenabled = {}\n", r.rate);
    if r.variant == 1 {
        s += "[hnsw]\ndimension = 16\nm = 8\nef_construction = 64\n";
    }
    s
}

fn yaml_of(r: &Row) -> String {
    let mut s = String::new();
    s += &format!("environment:\n  type: {:?}\n", r.env);
    s += &format!("server:\n  host: {:?}\n  observability_auth: {:?}\n", r.host, r.obs);
    if r.variant == 1 {
        s += "  port: 6000\n  max_connections: 17\n";
    }
    s += &format!("  tls:\n    enabled: {}\n", r.tls);
    if r.tls {
        s += "    cert_path: \"/nonexistent/cert.pem\"\n    key_path: \"/nonexistent/key.pem\"\n";
    }
    s += &format!("persistence:\n  fsync_policy: {:?}\n  snapshot_interval_mutations: {}\n  recovery_mode: {:?}\n  allow_fresh_start_on_recovery_failure: {}\n", r.fsync, r.snap, r.recovery, r.fresh);
    if r.variant == 1 {
        s += "  max_wal_size_bytes: 4096\n  wal_flush_interval_ms: 7\n";
    }
    s += &format!("cache:\n  strategy: {:?}\n", r.strategy);
    if r.variant == 1 {
        s += "  capacity: 123\n  min_training_samples: 5\n  query_cache_capacity: 9\n";
    }
    s += &format!("auth:\n  enabled: {}\n", r.auth);
    if r.auth {
        s += "  api_keys_file: \"/nonexistent/keys.yaml\"\n";
    }
    s += &format!("rate_limit:\n  enabled: {}\n", r.rate);
    if r.variant == 1 {
        s += "hnsw:\n  dimension: 16\n  m: 8\n  ef_construction: 64\n";
    }
    s
}

fn env_of(r: &Row) -> Vec<(String, String)> {
    let mut v = vec![
        ("KYRODB__ENVIRONMENT__TYPE".to_string(), r.env.clone()),
        ("KYRODB__SERVER__HOST".to_string(), r.host.to_string()),
        ("KYRODB__SERVER__OBSERVABILITY_AUTH".to_string(), r.obs.to_string()),
        ("KYRODB__SERVER__TLS__ENABLED".to_string(), r.tls.to_string()),
        ("KYRODB__PERSISTENCE__FSYNC_POLICY".to_string(), r.fsync.to_string()),
        ("KYRODB__PERSISTENCE__SNAPSHOT_INTERVAL_MUTATIONS".to_string(), r.snap.to_string()),
        ("KYRODB__PERSISTENCE__RECOVERY_MODE".to_string(), r.recovery.to_string()),
        ("KYRODB__PERSISTENCE__ALLOW_FRESH_START_ON_RECOVERY_FAILURE".to_string(), r.fresh.to_string()),
        ("KYRODB__CACHE__STRATEGY".to_string(), r.strategy.to_string()),
        ("KYRODB__AUTH__ENABLED".to_string(), r.auth.to_string()),
        ("KYRODB__RATE_LIMIT__ENABLED".to_string(), r.rate.to_string()),
    ];
    if r.tls {
        v.push(("KYRODB__SERVER__TLS__CERT_PATH".into(), "/nonexistent/cert.pem".into()));
        v.push(("KYRODB__SERVER__TLS__KEY_PATH".into(), "/nonexistent/key.pem".into()));
    }
    if r.auth {
        v.push(("KYRODB__AUTH__API_KEYS_FILE".into(), "/nonexistent/keys.yaml".into()));
    }
    if r.variant == 1 {
        v.push(("KYRODB__SERVER__PORT".into(), "6000".into()));
        v.push(("KYRODB__CACHE__CAPACITY".into(), "123".into()));
        v.push(("KYRODB__CACHE__MIN_TRAINING_SAMPLES".into(), "5".into()));
    }
    v
}

fn clear_env() {
    let keys: Vec<String> = std::env::vars().map(|(k, _)| k).filter(|k| k.starts_with("KYRODB")).collect();
    for k in keys {
        std::env::remove_var(k);
    }
}

/// Load + validate through one delivery route. Ok(true) accepted, Ok(false) rejected.
fn deliver(r: &Row, route: &str, dir: &std::path::Path) -> bool {
    clear_env();
    let res = match route {
        "toml" => {
            let p = dir.join("c.toml");
            std::fs::write(&p, toml_of(r)).unwrap();
            KyroDbConfig::load(Some(p.to_str().unwrap()))
        }
        "yaml" => {
            let p = dir.join("c.yaml");
            std::fs::write(&p, yaml_of(r)).unwrap();
            KyroDbConfig::load(Some(p.to_str().unwrap()))
        }
        _ => {
            for (k, v) in env_of(r) {
                std::env::set_var(k, v);
            }
            KyroDbConfig::load(None)
        }
    };
    let ok = match res {
        Ok(cfg) => cfg.validate().is_ok(),
        Err(_) => false,
    };
    clear_env();
    ok
}

pub fn worker(wi: usize, wn: usize, tier: &str) {
    let scratch = vcore::Scratch::new(&format!("c18w{wi}"));
    let all = rows(tier);
    let mut evals = 0u64;
    let mut accepted = 0u64;
    let mut rejected = 0u64;
    let mut route_disagree = 0u64;
    let mut viol = SigBag::default();
    let mut accepted_by_env: std::collections::BTreeMap<String, u64> = Default::default();
    for (i, r) in all.iter().enumerate() {
        if i % wn != wi {
            continue;
        }
        let mut outs = Vec::new();
        for route in ["toml", "yaml", "env"] {
            let acc = deliver(r, route, &scratch.path);
            evals += 1;
            outs.push(acc);
            if acc {
                accepted += 1;
                *accepted_by_env.entry(r.env.trim().to_ascii_lowercase()).or_insert(0) += 1;
                if let Some(reason) = unsafe_reason(r) {
                    viol.push((format!("C18|accepted-unsafe|{reason}|via={route}"), json!({"engine":"seqmc","check":"C18","row":r,"route":route,"reason":reason})));
                }
            } else {
                rejected += 1;
            }
        }
        if !(outs[0] == outs[1] && outs[1] == outs[2]) {
            route_disagree += 1;
            viol.push(("C18|delivery-routes-disagree".to_string(), json!({"engine":"seqmc","check":"C18","row":r,"accepted_toml_yaml_env":outs})));
        }
    }
    vcore::par::worker_emit(&json!({"evals":evals,"accepted":accepted,"rejected":rejected,"route_disagree":route_disagree,"violations":viol.to_json(),"accepted_by_env":accepted_by_env}));
}

pub fn run(tier: &str, replay: Option<&str>) -> i32 {
    if let Some(p) = replay {
        let v: Value = serde_json::from_str(&std::fs::read_to_string(p).expect("read")).expect("json");
        println!("replay: row {} — re-run `bin/check C18` to reproduce (rows are self-describing)", v["case"]["row"]);
        return 0;
    }
    if let Some((i, n)) = vcore::par::worker_id() {
        worker(i, n, tier);
        return 0;
    }
    let res = vcore::par::run_workers(vcore::par::jobs(), &[]);
    let mut ev = Evidence::new("C18", tier, "exploration");
    let mut rep = Reporter::new("C18");
    let mut tot = std::collections::BTreeMap::new();
    let mut by_env: std::collections::BTreeMap<String, u64> = Default::default();
    for r in &res {
        for k in ["evals", "accepted", "rejected", "route_disagree"] {
            *tot.entry(k).or_insert(0u64) += r[k].as_u64().unwrap_or(0);
        }
        for (k, v) in r["accepted_by_env"].as_object().unwrap() {
            *by_env.entry(k.clone()).or_insert(0) += v.as_u64().unwrap();
        }
        rep.report_bag(&r["violations"]);
    }
    let all = rows(tier);
    let distinct: BTreeSet<String> = all.iter().map(|r| format!("{r:?}")).collect();
    ev.set("evaluations", tot["evals"]);
    ev.set("distinct_nontrivial", tot["accepted"]);
    ev.set("rule", "full cross product environment x fsync {none,data_only,full} x snapshot interval {0,5} x recovery {strict,best_effort} x strategy {lru,learned,abtest} x auth x rate limit x observability auth {disabled,metrics_and_slo,all} x fresh-start flag x TLS x bind host, plus a second 'remaining settings' variant on every 7th row; each row delivered three ways (TOML file, YAML file, KYRODB__ environment overrides over defaults) through KyroDbConfig::load + validate; oracle: accepted => independent safety predicate transcribed from the property; the three routes must agree; non-trivial = accepted evaluations");
    ev.set("samples", json!([all[3], all[all.len() / 2], {"toml": toml_of(&all[all.len() / 3])}]));
    ev.set("exhaustive", true);
    ev.set("rows", distinct.len() as u64);
    ev.set("accepted", tot["accepted"]);
    ev.set("rejected", tot["rejected"]);
    ev.set("accepted_by_environment", json!(by_env));
    ev.set("rows_where_routes_disagree", tot["route_disagree"]);
    ev.assume("api_keys_file / TLS cert+key paths are supplied whenever auth / TLS are enabled so that rows are not rejected for unrelated reasons");
    ev.assume("loopback = the host (brackets stripped) is 'localhost' or parses as a loopback IP address");
    ev.violations = rep.violations as i64;
    ev.write();
    println!("C18 {tier}: rows={} evaluations={} accepted={} rejected={} by_env={:?} violations={}", distinct.len(), tot["evals"], tot["accepted"], tot["rejected"], by_env, rep.violations);
    rep.finish()
}
