//! C04 — lookups by id return the canonical latest version whatever the caches hold.
//! C20 — caches and the recent-write tier stay within their configured bounds.
//! Both are decided on the same exhaustive exploration of TieredEngine histories.

use crate::te::*;
use serde_json::{json, Value};
use std::collections::BTreeSet;
use vcore::evidence::Evidence;
use vcore::exec::sequences;
use vcore::findings::{Reporter, SigBag};
use vcore::model::{meta1, RefModel};
use vcore::{dump_backend, Meta};

fn v_for(dim: usize, a: f32, b: f32) -> Vec<f32> {
    let mut v = vec![0.0f32; dim];
    v[0] = a;
    v[dim - 1] += b;
    v
}

pub fn alphabet(dim: usize, with_pokes: bool) -> Vec<TOp> {
    let mut m2: Meta = meta1("a", "2");
    m2.insert("b".into(), "x".into());
    let mut v = vec![
        TOp::Ins { id: 1, v: v_for(dim, 1.0, 0.0), m: meta1("a", "1") },
        TOp::Ins { id: 1, v: v_for(dim, 0.6, 0.8), m: m2 },
        TOp::Ins { id: 2, v: v_for(dim, 3.0, 4.0), m: Meta::new() },
        TOp::Del { id: 1 },
        TOp::BatchDel { ids: vec![1, 2, 1] },
        TOp::UpdMeta { id: 1, m: meta1("b", "2"), merge: true },
        TOp::UpdMeta { id: 1, m: meta1("c", "3"), merge: false },
        TOp::BulkLoad { docs: vec![(1, v_for(dim, 0.0, 1.0), meta1("bulk", "1")), (3, v_for(dim, -1.0, 0.0), meta1("bulk", "3"))] },
        // empty-metadata edge: bulk load / overwrite / replace that leave the canonical metadata
        // empty while an older mirror may still carry some
        TOp::BulkLoad { docs: vec![(1, v_for(dim, 0.0, -1.0), Meta::new()), (2, v_for(dim, -3.0, 4.0), Meta::new())] },
        TOp::Ins { id: 1, v: v_for(dim, -0.6, 0.8), m: Meta::new() },
        TOp::UpdMeta { id: 1, m: Meta::new(), merge: false },
        TOp::Flush { force: true },
        TOp::Flush { force: false },
        TOp::Tick,
        TOp::Search { q: v_for(dim, 1.0, 0.0), k: 1 },
        TOp::Search { q: v_for(dim, 0.0, 1.0), k: 2 },
    ];
    if with_pokes {
        for variant in 0..3u8 {
            v.push(TOp::PokeL1a { id: 1, variant });
            v.push(TOp::PokeHot { id: 1, variant });
        }
        v.push(TOp::PokeHot { id: 3, variant: 1 });
    }
    v
}

pub fn grid(tier: &str) -> Vec<TeCfg> {
    let mk = |s: &str, l1a: usize, soft: usize, hard: usize, metric: &str, qc: usize| TeCfg {
        strategy: s.into(),
        l1a_capacity: l1a,
        hot_soft: soft,
        hot_hard: hard,
        metric: metric.into(),
        dim: 2,
        qcache_capacity: qc,
        qcache_threshold: 1.0,
        hnsw_capacity: 64,
    };
    let mut v = Vec::new();
    if tier == "thorough" {
        for s in ["lru", "learned", "learned_semantic", "ab"] {
            for l1a in [1usize, 2, 8] {
                for (soft, hard) in [(1usize, 1usize), (1, 2), (2, 4), (8, 8)] {
                    v.push(mk(s, l1a, soft, hard, if l1a == 2 { "cosine" } else { "euclidean" }, if soft == 1 { 1 } else { 2 }));
                }
            }
        }
    } else {
        v.push(mk("lru", 1, 1, 1, "euclidean", 1));
        v.push(mk("lru", 2, 1, 2, "cosine", 2));
        v.push(mk("learned", 1, 2, 4, "euclidean", 1));
        v.push(mk("learned", 8, 8, 8, "cosine", 2));
        v.push(mk("learned_semantic", 2, 1, 2, "euclidean", 1));
        v.push(mk("learned_semantic", 1, 1, 1, "inner_product", 2));
        v.push(mk("ab", 2, 2, 4, "euclidean", 2));
        v.push(mk("ab", 8, 1, 1, "cosine", 1));
    }
    // tiny index (capacity 3 with ids {1,2,3}): a few writes fill it and the next one runs tombstone
    // compaction, which renumbers the canonical store under whatever the caches and the
    // recent-write tier still hold
    let mut tiny = vec![mk("lru", 2, 8, 8, "euclidean", 2), mk("learned", 1, 2, 4, "cosine", 1)];
    if tier == "thorough" {
        tiny.push(mk("ab", 2, 1, 2, "euclidean", 1));
        tiny.push(mk("learned_semantic", 8, 8, 8, "inner_product", 2));
    }
    for mut c in tiny {
        c.hnsw_capacity = 3;
        v.push(c);
    }
    // hard limit BELOW the soft drain threshold (nothing enforces hard >= soft; the hard limit must
    // hold on its own)
    v.push(mk("lru", 2, 8, 1, "euclidean", 2));
    v.push(mk("learned", 2, 4, 2, "cosine", 1));
    v
}

#[derive(Default)]
pub struct Stats {
    pub histories: u64,
    pub steps: u64,
    pub reads: u64,
    pub states: BTreeSet<u64>,
    pub c04: SigBag,
    pub c20: SigBag,
    pub poke_histories: u64,
    pub refused_full: u64,
    pub first_touch_histories: u64,
    pub emergency_drains: u64,
    pub max_l1a: usize,
    pub max_qc: usize,
    pub max_hot_after_insert: usize,
    pub at_capacity_steps: u64,
}

fn op_kind(op: &TOp) -> &'static str {
    match op {
        TOp::Ins { .. } => "insert",
        TOp::Del { .. } => "delete",
        TOp::BatchDel { .. } => "batch-delete",
        TOp::UpdMeta { .. } => "update-metadata",
        TOp::BulkLoad { .. } => "bulk-load",
        TOp::Flush { .. } => "flush",
        TOp::Tick => "tick",
        TOp::Search { .. } => "search",
        TOp::PokeL1a { .. } => "poke-l1a",
        TOp::PokeHot { .. } => "poke-hot",
    }
}

fn hash_state(te: &Te, model: &RefModel) -> u64 {
    use std::hash::{Hash, Hasher};
    let mut h = std::collections::hash_map::DefaultHasher::new();
    format!("{:?}", model.docs).hash(&mut h);
    te.engine.cache_size().hash(&mut h);
    te.engine.hot_tier().len().hash(&mut h);
    te.qcache.len().hash(&mut h);
    let mut ids = te.engine.hot_tier().snapshot_doc_ids();
    ids.sort_unstable();
    ids.hash(&mut h);
    h.finish()
}

pub fn run_history(cfg: &TeCfg, hist: &[TOp], st: &mut Stats) {
    run_history_mode(cfg, hist, st, false)
}

/// `quiet`: the harness issues its reads only after the LAST step. Reads are not neutral — a
/// read that finds a stale copy scrubs it — so reading after every step hides whatever needs a
/// stale copy to survive until a later drain. Both modes are explored.
pub fn run_history_mode(cfg: &TeCfg, hist: &[TOp], st: &mut Stats, quiet: bool) {
    run_history_first(cfg, hist, st, quiet, 0)
}

/// `first`: the read flavour issued first for every id (te::check_reads_first) — the first-touch
/// passes of quiet histories that contain an adversarial poke.
pub fn run_history_first(cfg: &TeCfg, hist: &[TOp], st: &mut Stats, quiet: bool, first: u8) {
    st.histories += 1;
    let rt = paused_runtime();
    let te = Te::new(cfg);
    let (tx, rx) = tokio::sync::broadcast::channel::<()>(1);
    let task = rt.block_on(async { te.engine.clone().spawn_flush_task(rx) });
    let mut model = RefModel::default();
    let ids = [1u64, 2, 3];
    let mut poked_hot = false;
    if hist.iter().any(|o| o.is_poke()) {
        st.poke_histories += 1;
    }
    let l1a_cap = l1a_bound(cfg);
    for (i, op) in hist.iter().enumerate() {
        st.steps += 1;
        if matches!(op, TOp::PokeHot { .. }) {
            poked_hot = true;
        }
        let cold_before = if matches!(op, TOp::Flush { .. } | TOp::Tick) { Some(dump_backend(te.engine.cold_tier())) } else { None };
        let emerg_before = te.engine.stats().hot_tier_emergency_evictions;
        // tiny-index configurations (hnsw_capacity 3: every few writes run tombstone compaction):
        // a write may be legitimately refused because the index holds `capacity` LIVE documents
        let live_before = model.docs.len();
        let new_ids = match op {
            TOp::Ins { id, .. } => (!model.docs.contains_key(id)) as usize,
            TOp::BulkLoad { docs } => docs.iter().filter(|(id, _, _)| !model.docs.contains_key(id)).count(),
            _ => 0,
        };
        // an overwrite takes a fresh slot before the old one is tombstoned: it needs one slot
        // beyond the live documents (of the op's own new ids too: the rows are applied in order)
        let has_overwrite = match op {
            TOp::Ins { id, .. } => model.docs.contains_key(id),
            TOp::BulkLoad { docs } => docs.iter().any(|(id, _, _)| model.docs.contains_key(id)),
            _ => false,
        };
        let r = apply(&te, &mut model, op, Some(&rt));
        if let Err(e) = &r {
            // (a planted hot-only orphan may have been drained into the cold tier — the C04/C05
            // known finding — and then occupies a slot the model does not know about)
            let room_needed = live_before + new_ids + has_overwrite as usize;
            if cfg.hnsw_capacity <= 4 && matches!(op, TOp::Ins { .. } | TOp::BulkLoad { .. }) && (room_needed > cfg.hnsw_capacity || poked_hot) && (e.contains("full") || e.contains("bulk_load loaded=")) {
                st.refused_full += 1;
                break;
            }
        }
        if te.engine.stats().hot_tier_emergency_evictions > emerg_before {
            st.emergency_drains += 1;
        }
        let replay = |detail: &str| json!({"engine":"seqmc","check":"C04","cfg":cfg,"history":hist,"step":i,"quiet":quiet,"first_read_flavour":first,"detail":detail});
        if let Err(e) = r {
            let retval_only = e.contains(" returned ");
            if !(retval_only && poked_hot) {
                st.c04.push((format!("C04|op-result|{}", op_kind(op)), replay(&e)));
                break;
            }
        }
        // a planted hot-only mirror that ends up in the canonical store (drain "repair")
        if poked_hot {
            let cd = dump_backend(te.engine.cold_tier());
            if cd.values().any(|(_, m)| m.get("poked").map(|s| s == "yes").unwrap_or(false)) {
                st.c04.push((
                    format!("C04|hot-only-mirror-repaired-into-canonical-store|via={}", op_kind(op)),
                    replay(&format!("canonical store now holds the planted mirror payload: {}", vcore::dump_to_json(&cd))),
                ));
                break;
            }
        }
        // drain / audit must not change the canonical store
        if let Some(cb) = cold_before {
            let ca = dump_backend(te.engine.cold_tier());
            if ca != cb {
                st.c04.push((
                    format!("C04|{}-changed-canonical-store|poked-hot={}", op_kind(op), poked_hot),
                    replay(&format!("canonical store before {} after {}", vcore::dump_to_json(&cb), vcore::dump_to_json(&ca))),
                ));
                break;
            }
        }
        // C20 bounds
        let l1a = te.engine.cache_size();
        let qc = te.qcache.len();
        let hot = te.engine.hot_tier().len();
        st.max_l1a = st.max_l1a.max(l1a);
        st.max_qc = st.max_qc.max(qc);
        if l1a == l1a_cap || qc == cfg.qcache_capacity {
            st.at_capacity_steps += 1;
        }
        let r20 = |what: &str, got: usize, bound: usize| json!({"engine":"seqmc","check":"C20","cfg":cfg,"history":hist,"step":i,"what":what,"size":got,"bound":bound});
        if l1a > l1a_cap {
            st.c20.push((format!("C20|document-cache-over-capacity|{}", cfg.strategy), r20("l1a", l1a, l1a_cap)));
        }
        if qc > cfg.qcache_capacity {
            st.c20.push(("C20|query-cache-over-capacity".into(), r20("query-cache", qc, cfg.qcache_capacity)));
        }
        if matches!(op, TOp::Ins { .. }) {
            st.max_hot_after_insert = st.max_hot_after_insert.max(hot);
            if hot > cfg.hot_hard {
                st.c20.push(("C20|hot-tier-over-hard-limit-after-insert".into(), r20("hot-tier", hot, cfg.hot_hard)));
            }
        }
        // reads
        if quiet && i + 1 != hist.len() {
            continue;
        }
        match check_reads_first(&te, &model, &ids, first) {
            Ok(n) => st.reads += n,
            Err((flavour, detail)) => {
                let kind = if detail.contains("= None") {
                    "missing-but-present"
                } else if detail.contains("model None") {
                    "found-but-absent"
                } else {
                    "wrong-content"
                };
                st.c04.push((format!("C04|{flavour}|{kind}|after={}|poked-hot={}{}", op_kind(op), poked_hot, if first != 0 { "|first-touch" } else { "" }), replay(&detail)));
                break;
            }
        }
        st.states.insert(hash_state(&te, &model));
    }
    drop(tx);
    task.abort();
    drop(rt);
}

// ------------------------------------------------------------------------------------------
// C20, query-result cache section: many DISTINCT queries against tiny capacities
// ------------------------------------------------------------------------------------------
#[derive(Clone, Debug, serde::Serialize, serde::Deserialize)]
pub enum QOp {
    /// search with query number q (distinct directions) and k
    S(usize, usize),
    /// insert/overwrite document id with vector number v
    I(u64, usize),
    D(u64),
    Flush,
    /// metadata update / bulk load: both clear the query cache wholesale
    UM(u64),
    Bulk(u64, usize),
}

fn q_vecs() -> Vec<Vec<f32>> {
    // six pairwise non-parallel directions in the plane
    vec![vec![1.0, 0.0], vec![0.0, 1.0], vec![0.6, 0.8], vec![0.8, -0.6], vec![-1.0, 0.1], vec![0.28, 0.96]]
}

fn q_alphabet() -> Vec<QOp> {
    vec![QOp::S(0, 1), QOp::S(1, 1), QOp::S(2, 2), QOp::S(3, 1), QOp::S(4, 2), QOp::I(1, 0), QOp::I(2, 2), QOp::I(3, 5), QOp::I(1, 3), QOp::D(1), QOp::Flush, QOp::UM(8), QOp::Bulk(2, 1)]
}

pub fn run_qhistory(cap: usize, metric: &str, hist: &[QOp], st: &mut Stats) {
    st.histories += 1;
    let cfg = TeCfg { strategy: "lru".into(), l1a_capacity: 2, hot_soft: 2, hot_hard: 4, metric: metric.into(), dim: 2, qcache_capacity: cap, qcache_threshold: 1.0, hnsw_capacity: 64 };
    let te = Te::new(&cfg);
    let vs = q_vecs();
    // two documents are there from the start so that the first searches cache non-empty lists
    let _ = te.engine.insert(8, vec![0.5, 0.5], Default::default());
    let _ = te.engine.insert(9, vec![-0.5, 0.7], Default::default());
    for (i, op) in hist.iter().enumerate() {
        st.steps += 1;
        match op {
            QOp::S(q, k) => {
                let _ = te.engine.knn_search_with_ef_detailed(&vs[*q], *k, None);
            }
            QOp::I(id, v) => {
                let _ = te.engine.insert(*id, vs[*v].clone(), Default::default());
            }
            QOp::D(id) => {
                let _ = te.engine.delete(*id);
            }
            QOp::Flush => {
                let _ = te.engine.flush_hot_tier(true);
            }
            QOp::UM(id) => {
                let _ = te.engine.update_metadata(*id, vcore::to_hash(&meta1("u", "1")), true);
            }
            QOp::Bulk(id, v) => {
                let _ = te.engine.bulk_load_cold_tier(vec![(*id, vs[*v].clone(), Default::default())]);
            }
        }
        let qc = te.qcache.len();
        st.max_qc = st.max_qc.max(qc);
        if qc == cap {
            st.at_capacity_steps += 1;
        }
        if qc > cap {
            st.c20.push((
                "C20|query-cache-over-capacity".into(),
                json!({"engine":"seqmc","check":"C20","section":"query-cache","capacity":cap,"metric":metric,"qhistory":hist,"step":i,"what":"query-cache","size":qc,"bound":cap}),
            ));
            return;
        }
    }
}

pub fn explore_qcache(tier: &str) -> (Stats, usize, usize) {
    let depth: usize = std::env::var("C20_QDEPTH").ok().and_then(|s| s.parse().ok()).unwrap_or(if tier == "thorough" { 6 } else { 5 });
    let alpha = q_alphabet();
    let mut shards: Vec<(usize, &str, usize, usize)> = Vec::new();
    for cap in [1usize, 2] {
        for metric in ["euclidean", "cosine"] {
            for a in 0..alpha.len() {
                for b in 0..alpha.len() {
                    shards.push((cap, metric, a, b));
                }
            }
        }
    }
    let results = vcore::par::par_map(&shards, |_i, (cap, metric, a, b)| {
        let mut st = Stats::default();
        for seq in sequences(alpha.len(), depth, &[*a, *b]) {
            let hist: Vec<QOp> = seq.iter().map(|&i| alpha[i].clone()).collect();
            run_qhistory(*cap, metric, &hist, &mut st);
        }
        st
    });
    let mut tot = Stats::default();
    for s in results {
        tot.histories += s.histories;
        tot.steps += s.steps;
        tot.c20.merge(s.c20);
        tot.max_qc = tot.max_qc.max(s.max_qc);
        tot.at_capacity_steps += s.at_capacity_steps;
    }
    (tot, depth, alpha.len())
}

fn depth_for(tier: &str) -> usize {
    std::env::var("C04_DEPTH").ok().and_then(|s| s.parse().ok()).unwrap_or(if tier == "thorough" { 4 } else { 3 })
}

/// Quiet histories that contain an adversarial poke are replayed once per vector- or
/// metadata-reading flavour other than `query`, with that flavour touching every id first.
fn first_touch_passes(cfg: &TeCfg, hist: &[TOp], st: &mut Stats, enabled: bool) {
    if !enabled || !hist.iter().any(|o| o.is_poke()) {
        return;
    }
    for f in [1u8, 2, 3, 5] {
        st.first_touch_histories += 1;
        run_history_first(cfg, hist, st, true, f);
    }
}

pub fn explore(tier: &str, first_touch: bool) -> (Stats, Vec<TeCfg>, usize, usize, Vec<Value>) {
    let depth = depth_for(tier);
    let cfgs = grid(tier);
    let nletters = alphabet(2, true).len();
    let mut shards: Vec<(usize, usize)> = Vec::new();
    for c in 0..cfgs.len() {
        for l in 0..nletters {
            shards.push((c, l));
        }
    }
    let results = vcore::par::par_map(&shards, |_si, (ci, first)| {
        let cfg = &cfgs[*ci];
        let alpha = alphabet(cfg.dim, true);
        let mut st = Stats::default();
        for seq in sequences(alpha.len(), depth, &[*first]) {
            let hist: Vec<TOp> = seq.iter().map(|&i| alpha[i].clone()).collect();
            run_history(cfg, &hist, &mut st);
            run_history_mode(cfg, &hist, &mut st, true);
            first_touch_passes(cfg, &hist, &mut st, first_touch);
        }
        for len in 2..depth {
            for seq in sequences(alpha.len(), len, &[*first]) {
                let hist: Vec<TOp> = seq.iter().map(|&i| alpha[i].clone()).collect();
                run_history_mode(cfg, &hist, &mut st, true);
                first_touch_passes(cfg, &hist, &mut st, first_touch);
            }
        }
        st
    });
    let mut tot = Stats::default();
    for s in results {
        tot.histories += s.histories;
        tot.steps += s.steps;
        tot.reads += s.reads;
        tot.states.extend(s.states);
        tot.c04.merge(s.c04);
        tot.c20.merge(s.c20);
        tot.poke_histories += s.poke_histories;
        tot.refused_full += s.refused_full;
        tot.first_touch_histories += s.first_touch_histories;
        tot.emergency_drains += s.emergency_drains;
        tot.max_l1a = tot.max_l1a.max(s.max_l1a);
        tot.max_qc = tot.max_qc.max(s.max_qc);
        tot.max_hot_after_insert = tot.max_hot_after_insert.max(s.max_hot_after_insert);
        tot.at_capacity_steps += s.at_capacity_steps;
    }
    let alpha = alphabet(2, true);
    let samples = vec![
        json!({"cfg": cfgs[0].label(), "history": [alpha[0].short(), alpha[14].short(), alpha[10].short()]}),
        json!({"cfg": cfgs[cfgs.len() - 1].label(), "history": [alpha[2].short(), alpha[7].short(), alpha[8].short()]}),
    ];
    (tot, cfgs, depth, nletters, samples)
}

pub fn run(prop: &str, tier: &str, replay: Option<&str>) -> i32 {
    if let Some(p) = replay {
        return run_replay(prop, p);
    }
    let (tot, cfgs, depth, nletters, samples) = explore(tier, prop == "C04");
    let is20 = prop == "C20";
    let mut ev = Evidence::new(prop, tier, "model_checking");
    let mut rep = Reporter::new(prop);
    rep.report_sigbag(if is20 { &tot.c20 } else { &tot.c04 });
    let mut qinfo: Option<(Stats, usize, usize)> = None;
    if is20 {
        let q = explore_qcache(tier);
        rep.report_sigbag(&q.0.c20);
        qinfo = Some(q);
    }
    ev.set("states", tot.states.len() as u64);
    ev.set("transitions", tot.steps);
    ev.set("traces_validated_against_impl", tot.histories);
    ev.set("evaluations", tot.histories);
    ev.set("distinct_nontrivial", tot.poke_histories);
    ev.set("samples", Value::Array(samples));
    ev.set("exhaustive", true);
    ev.set("depth", depth as u64);
    ev.set("alphabet_size", nletters as u64);
    ev.set("configurations", cfgs.iter().map(|c| c.label()).collect::<Vec<_>>());
    if is20 {
        ev.set("rule", format!("all {nletters}^{depth} TieredEngine histories (writes, deletes, metadata updates, bulk load, forced/threshold drain, background tick, two searches, adversarial pokes) per configuration (strategy x L1a capacity x hot soft/hard limit x query-cache capacity); after every operation document-cache size <= capacity (both halves for A/B), query-cache size <= capacity, and hot-tier size <= hard limit whenever an insert has just returned; non-trivial = histories containing a poke; states = distinct (model, cache sizes, hot-tier id set)"));
        if let Some((q, qd, qn)) = &qinfo {
            ev.set("query_cache_section_rule", format!("all {qn}^{qd} histories over five DISTINCT queries (k 1/2), inserts that fall inside cached top-k boundaries, an overwrite, a delete, a drain, a metadata update and a bulk load (both clear the cache wholesale), for query-cache capacity {{1,2}} x metric {{euclidean,cosine}} on a TieredEngine holding two documents; after every operation query-cache size <= capacity"));
            ev.set("query_cache_section_histories", q.histories);
            ev.set("query_cache_section_steps", q.steps);
            ev.set("query_cache_section_steps_at_capacity", q.at_capacity_steps);
            ev.set("query_cache_section_max_size_seen", q.max_qc as u64);
            ev.set("evaluations", tot.histories + q.histories);
            ev.set("traces_validated_against_impl", tot.histories + q.histories);
            ev.set("transitions", tot.steps + q.steps);
        }
        ev.set("max_document_cache_size_seen", tot.max_l1a as u64);
        ev.set("max_query_cache_size_seen", tot.max_qc as u64);
        ev.set("max_hot_tier_size_after_insert_seen", tot.max_hot_after_insert as u64);
        ev.set("steps_with_a_cache_at_capacity", tot.at_capacity_steps);
        ev.set("emergency_drains_triggered", tot.emergency_drains);
        ev.assume("evicted/drained content staying readable is the C04 read oracle, which runs in the same exploration");
    } else {
        ev.set("first_touch_histories", tot.first_touch_histories);
        ev.set("histories_ended_by_a_legitimate_index_full_refusal", tot.refused_full);
        ev.set("rule", format!("all {nletters}^{depth} TieredEngine histories per configuration, each run twice (and every quiet history that contains an adversarial poke four more times, with get_document_with_metadata / get_embedding_cache_aware / get_metadata / bulk_query as the FIRST reader of every id instead of query, since the first read scrubs what it finds): reading after EVERY step, and quiet (reads only after the last step, for every length 2..{depth}, because a read scrubs the stale copy it finds and would mask defects that need it to survive until a drain); at each read point every read flavour (query, get_document_with_metadata, get_embedding_cache_aware, get_metadata, exists, bulk_query with/without embeddings) is issued for ids {{1,2,3}} and compared with the reference map; drain and tick steps must leave the canonical store dump unchanged; non-trivial = histories containing an adversarial poke (stale/corrupt L1a or hot-tier entries planted through harness handles)"));
        ev.set("reads_checked", tot.reads);
        ev.set("emergency_drains_triggered", tot.emergency_drains);
        ev.assume("background task driven on a paused tokio clock (flush_interval 1 ns) so one TICK = one coherence audit + threshold drain");
        ev.assume("pokes go through public handles: CacheStrategy::insert_cached and HotTier::insert_with_coherence");
    }
    ev.assume("non-persistent cold tier for the grid (persistence is covered by C01/C02)");
    ev.violations = rep.violations as i64;
    ev.write();
    println!(
        "{prop} {tier}: configs={} depth={} histories={} steps={} reads={} states={} emergency_drains={} max_l1a={} max_qc={} violations={}",
        cfgs.len(), depth, tot.histories, tot.steps, tot.reads, tot.states.len(), tot.emergency_drains, tot.max_l1a, tot.max_qc, rep.violations
    );
    rep.finish()
}

fn run_replay(prop: &str, path: &str) -> i32 {
    let v: Value = serde_json::from_str(&std::fs::read_to_string(path).expect("read")).expect("json");
    let c = &v["case"];
    if c.get("qhistory").is_some() {
        let hist: Vec<QOp> = serde_json::from_value(c["qhistory"].clone()).unwrap();
        let mut st = Stats::default();
        run_qhistory(c["capacity"].as_u64().unwrap() as usize, c["metric"].as_str().unwrap(), &hist, &mut st);
        return if let Some((s, r)) = st.c20.any_first() {
            println!("replay: reproduced {s}: size {} bound {}", r["size"], r["bound"]);
            println!("VIOLATION property={prop} replay={path}");
            1
        } else {
            println!("replay: no violation");
            0
        };
    }
    let cfg: TeCfg = serde_json::from_value(c["cfg"].clone()).unwrap();
    let hist: Vec<TOp> = serde_json::from_value(c["history"].clone()).unwrap();
    let mut st = Stats::default();
    run_history_first(&cfg, &hist, &mut st, c["quiet"].as_bool().unwrap_or(false), c["first_read_flavour"].as_u64().unwrap_or(0) as u8);
    let bag = if prop == "C20" { &st.c20 } else { &st.c04 };
    if let Some((s, r)) = bag.any_first() {
        println!("replay: reproduced {s}: {}", r.get("detail").or(r.get("what")).unwrap_or(&Value::Null));
        println!("VIOLATION property={prop} replay={path}");
        1
    } else {
        println!("replay: no violation");
        0
    }
}
