//! C12 — restoring a backup reproduces the collection as of that backup.
//! (1) histories with full/incremental backups at quiescent points, every backup restored by id
//!     and by point-in-time; (2) every single-byte tampering / truncation of archives and
//!     metadata; (3) the clear guard matrix; (4) retention timelines x policies.

use kyrodb_engine::backup::{BackupManager, ClearDirectoryOptions, RestoreManager, RetentionPolicy};
use serde_json::{json, Value};
use std::collections::{BTreeMap, BTreeSet};
use std::path::{Path, PathBuf};
use vcore::evidence::Evidence;
use vcore::exec::{apply_backend, sequences, BackendCfg};
use vcore::findings::{Reporter, SigBag};
use vcore::model::{dump_vs_model, meta1, Op, RefModel};
use vcore::shimctl as sc;
use vcore::{dump_backend, Scratch};

#[derive(Clone, Debug, serde::Serialize, serde::Deserialize, PartialEq)]
pub enum BOp {
    W(Op),
    Snap,
    Restart,
    Full,
    Incr,
    /// incremental whose parent is the last FULL backup (differential layout: siblings)
    IncrFromFull,
}

fn alphabet() -> Vec<BOp> {
    vec![
        BOp::W(Op::Ins { id: 1, v: vec![1.0, 0.0], m: meta1("a", "1") }),
        BOp::W(Op::Ins { id: 2, v: vec![0.0, 1.0], m: meta1("a", "2") }),
        BOp::W(Op::Ins { id: 1, v: vec![3.0, 4.0], m: meta1("a", "3") }),
        BOp::W(Op::Del { id: 1 }),
        BOp::Snap,
        BOp::Restart,
        BOp::Full,
        BOp::Incr,
        BOp::IncrFromFull,
    ]
}

fn short(o: &BOp) -> String {
    match o {
        BOp::W(op) => op.short(),
        BOp::Snap => "SNAP".into(),
        BOp::Restart => "RESTART".into(),
        BOp::Full => "FULL".into(),
        BOp::Incr => "INCR".into(),
        BOp::IncrFromFull => "INCR(parent=last FULL)".into(),
    }
}

fn bcfg() -> BackendCfg {
    BackendCfg { metric: "euclidean".into(), dim: 2, capacity: 64, snap_interval: 0, rotation: 1, fsync: "never".into() }
}

#[derive(Default)]
pub struct Stats {
    pub histories: u64,
    pub backups: u64,
    pub restores: u64,
    pub pitr: u64,
    pub incr_with_compaction_between: u64,
    pub states: BTreeSet<u64>,
    pub tamper_cases: u64,
    pub tamper_rejected: u64,
    pub tamper_accepted: u64,
    pub tamper_demoted: u64,
    pub clear_cases: u64,
    pub retention_cases: u64,
    pub retention_deleting: u64,
    pub large_member_histories: u64,
    pub viol: SigBag,
}

fn advance(secs: i64) {
    sc::ctl(sc::CMD_CLOCK_ADVANCE_NS, secs * 1_000_000_000, 0);
}

fn dir_image(d: &Path) -> BTreeMap<String, Vec<u8>> {
    let mut m = BTreeMap::new();
    if let Ok(rd) = std::fs::read_dir(d) {
        for e in rd.flatten() {
            if e.path().is_file() {
                m.insert(e.file_name().to_string_lossy().to_string(), std::fs::read(e.path()).unwrap_or_default());
            }
        }
    }
    m
}

struct Taken {
    id: String,
    restore: Box<dyn Fn(&RestoreManager) -> anyhow::Result<()>>,
    ts: u64,
    model: RefModel,
    kind: &'static str,
    compaction_since_parent: bool,
}

pub fn run_history(hist: &[BOp], scratch: &Scratch, st: &mut Stats) {
    run_history_cfg(&bcfg(), hist, scratch, st)
}

/// Histories whose files exceed the backup archive's 64 KiB streaming chunk several times over
/// (dimension 64, hundreds of documents: WAL segments and snapshots of 100-250 KiB), with and
/// without rotation: a full backup, more writes and deletes, an incremental, a snapshot (WAL
/// compaction), further writes, a second incremental and a sibling incremental.
pub fn large_member_histories() -> Vec<(BackendCfg, Vec<BOp>)> {
    let dim = 64usize;
    let vecg = |i: usize, salt: usize| -> Vec<f32> { (0..dim).map(|j| (((i * 7919 + j * 104_729 + i * j * 31 + salt * 613) % 2001) as f32 / 1000.0 - 1.0) * 1.5).collect() };
    let ins = |i: usize, salt: usize| BOp::W(Op::Ins { id: i as u64 + 1, v: vecg(i, salt), m: meta1("i", &format!("{i}-{salt}")) });
    let mut h: Vec<BOp> = Vec::new();
    for i in 0..400 {
        h.push(ins(i, 0));
    }
    h.push(BOp::Full);
    for i in 0..120 {
        h.push(ins(i * 3, 1));
    }
    for i in 0..40 {
        h.push(BOp::W(Op::Del { id: (i * 7 + 2) as u64 }));
    }
    h.push(BOp::Incr);
    h.push(BOp::Snap);
    for i in 400..520 {
        h.push(ins(i, 2));
    }
    h.push(BOp::Incr);
    h.push(BOp::IncrFromFull);
    h.push(BOp::Restart);
    for i in 0..30 {
        h.push(ins(i, 4));
    }
    h.push(BOp::Full);
    let mk = |rot: u64| BackendCfg { metric: "euclidean".into(), dim, capacity: 1024, snap_interval: 0, rotation: rot, fsync: "never".into() };
    vec![(mk(1 << 30), h.clone()), (mk(100_000), h)]
}

pub fn run_history_cfg(cfg: &BackendCfg, hist: &[BOp], scratch: &Scratch, st: &mut Stats) {
    st.histories += 1;
    let cfg = cfg.clone();
    let data = scratch.path.join("data");
    let bdir = scratch.path.join("backups");
    let _ = std::fs::remove_dir_all(&data);
    let _ = std::fs::remove_dir_all(&bdir);
    std::fs::create_dir_all(&bdir).unwrap();
    let mut b = match cfg.open_fresh(&data) {
        Ok(b) => b,
        Err(_) => return,
    };
    let mut model = RefModel::default();
    let mgr = BackupManager::new(&bdir, &data).expect("backup manager");
    let mut taken: Vec<Taken> = Vec::new();
    let mut last: Option<(kyrodb_engine::backup::BackupMetadata, bool)> = None;
    let mut last_full: Option<kyrodb_engine::backup::BackupMetadata> = None;
    let mut snap_since = false;
    for op in hist {
        advance(2);
        match op {
            BOp::W(o) => {
                if apply_backend(&b, o).is_err() {
                    return;
                }
                model.apply(o);
            }
            BOp::Snap => {
                if b.create_snapshot().is_err() {
                    return;
                }
                snap_since = true;
            }
            BOp::Restart => {
                drop(b);
                b = match cfg.recover(&data) {
                    Ok(x) => x,
                    Err(_) => return,
                };
            }
            BOp::Full => {
                if let Ok(meta) = mgr.create_full_backup("full".into()) {
                    st.backups += 1;
                    let id = meta.id;
                    taken.push(Taken { id: id.to_string(), restore: Box::new(move |r: &RestoreManager| r.restore_from_backup(id)), ts: meta.timestamp, model: model.clone(), kind: "full", compaction_since_parent: false });
                    last_full = Some(meta.clone());
                    last = Some((meta, true));
                    snap_since = false;
                }
            }
            BOp::IncrFromFull => {
                if let Some(parent) = &last_full {
                    if let Ok(meta) = mgr.create_incremental_backup(parent.id, "diff".into()) {
                        st.backups += 1;
                        let id = meta.id;
                        taken.push(Taken { id: id.to_string(), restore: Box::new(move |r: &RestoreManager| r.restore_from_backup(id)), ts: meta.timestamp, model: model.clone(), kind: "incremental-sibling", compaction_since_parent: snap_since });
                        last = Some((meta, false));
                    }
                }
            }
            BOp::Incr => {
                if let Some((parent, _)) = &last {
                    if let Ok(meta) = mgr.create_incremental_backup(parent.id, "incr".into()) {
                        st.backups += 1;
                        if snap_since {
                            st.incr_with_compaction_between += 1;
                        }
                        let id = meta.id;
                        taken.push(Taken { id: id.to_string(), restore: Box::new(move |r: &RestoreManager| r.restore_from_backup(id)), ts: meta.timestamp, model: model.clone(), kind: "incremental", compaction_since_parent: snap_since });
                        last = Some((meta, false));
                        snap_since = false;
                    }
                }
            }
        }
    }
    drop(b);
    {
        use std::hash::{Hash, Hasher};
        let mut h = std::collections::hash_map::DefaultHasher::new();
        format!("{:?}|{}", model.docs, taken.len()).hash(&mut h);
        st.states.insert(h.finish());
    }
    let large = hist.len() > 100;
    let ctx = |detail: String| if large { json!({"engine":"seqmc","check":"C12","part":1,"large_member_cfg":cfg,"detail":detail}) } else { json!({"engine":"seqmc","check":"C12","part":1,"history":hist,"detail":detail}) };
    // restore every backup by id, and by point in time at its timestamp
    for (i, t) in taken.iter().enumerate() {
        for pitr in [false, true] {
            let target = scratch.path.join("restore");
            let _ = std::fs::remove_dir_all(&target);
            std::fs::create_dir_all(&target).unwrap();
            let rm = RestoreManager::new(&bdir, &target).expect("restore manager");
            let (res, expect): (anyhow::Result<()>, &RefModel) = if pitr {
                st.pitr += 1;
                // point-in-time target = this backup's timestamp: the newest backup at or before it
                let newest_at = taken.iter().filter(|x| x.ts <= t.ts).max_by_key(|x| x.ts).unwrap();
                (rm.restore_point_in_time(t.ts), &newest_at.model)
            } else {
                st.restores += 1;
                ((t.restore)(&rm), &t.model)
            };
            let how = if pitr { "point-in-time" } else { "by-id" };
            let comp = if t.compaction_since_parent { "after-snapshot-compaction" } else { "plain" };
            if let Err(e) = res {
                st.viol.push((format!("C12|restore-{how}|{}|{comp}|verified-backup-rejected", t.kind), ctx(format!("backup #{i} ({}): {e:#}", t.id))));
                return;
            }
            match cfg.recover(&target) {
                Err(e) => {
                    st.viol.push((format!("C12|restore-{how}|{}|{comp}|restored-directory-does-not-start", t.kind), ctx(format!("backup #{i}: {e:#}"))));
                    return;
                }
                Ok(rb) => {
                    let d = dump_backend(&rb);
                    if let Err(e) = dump_vs_model(cfg.metric(), &d, expect) {
                        let sym = if e.contains("missing") { "documents-missing" } else if e.contains("absent") { "documents-resurrected" } else { "documents-differ" };
                        st.viol.push((format!("C12|restore-{how}|{}|{comp}|{sym}", t.kind), ctx(format!("backup #{i} ({}, ts {}): {e}; restored {} expected ids {:?}", t.kind, t.ts, vcore::dump_to_json(&d), expect.docs.keys().collect::<Vec<_>>()))));
                        return;
                    }
                }
            }
        }
    }
}

// ------------------------------------------------------------------------------------------
// Part 2: tampering
// ------------------------------------------------------------------------------------------
fn part2(tier: &str, wi: usize, wn: usize, scratch: &Scratch, st: &mut Stats) {
    let cfg = bcfg();
    let data = scratch.path.join("t_data");
    let bdir = scratch.path.join("t_backups");
    let _ = std::fs::remove_dir_all(&data);
    let _ = std::fs::remove_dir_all(&bdir);
    std::fs::create_dir_all(&bdir).unwrap();
    let b = cfg.open_fresh(&data).unwrap();
    let mut model = RefModel::default();
    let mgr = BackupManager::new(&bdir, &data).unwrap();
    let w = |b: &kyrodb_engine::HnswBackend, model: &mut RefModel, o: Op| {
        advance(2);
        apply_backend(b, &o).unwrap();
        model.apply(&o);
    };
    w(&b, &mut model, Op::Ins { id: 1, v: vec![1.0, 0.0], m: meta1("a", "1") });
    w(&b, &mut model, Op::Ins { id: 2, v: vec![0.0, 1.0], m: meta1("a", "2") });
    advance(2);
    let full = mgr.create_full_backup("full".into()).unwrap();
    let model_full = model.clone();
    w(&b, &mut model, Op::Ins { id: 3, v: vec![1.0, 1.0], m: meta1("a", "3") });
    advance(2);
    let incr = mgr.create_incremental_backup(full.id, "incr".into());
    drop(b);
    let pristine = dir_image(&bdir);
    let mut targets: Vec<(String, Box<dyn Fn(&RestoreManager, &ClearDirectoryOptions) -> anyhow::Result<()>>, RefModel)> = Vec::new();
    let fid = full.id;
    targets.push(("full".into(), Box::new(move |r, o| r.restore_from_backup_with_options(fid, o)), model_full.clone()));
    if let Ok(im) = &incr {
        let iid = im.id;
        targets.push(("incremental".into(), Box::new(move |r, o| r.restore_from_backup_with_options(iid, o)), model.clone()));
    }
    // the same two restore points through the point-in-time path (its own preflight: the chain is
    // selected by timestamp, and every archive of the chain must be verified before the target is
    // cleared)
    let fts = full.timestamp;
    targets.push(("pitr-at-full".into(), Box::new(move |r, o| r.restore_point_in_time_with_options(fts, o)), model_full.clone()));
    if let Ok(im) = &incr {
        let its = im.timestamp;
        targets.push(("pitr-at-incremental".into(), Box::new(move |r, o| r.restore_point_in_time_with_options(its, o)), model.clone()));
    }
    let sentinel: BTreeMap<String, Vec<u8>> = [("SENTINEL".to_string(), b"do not touch".to_vec()), ("wal_1.wal".to_string(), vec![1, 2, 3])].into_iter().collect();
    let pats: Vec<u8> = if tier == "thorough" { vec![0x01, 0x80, 0x00, 0xFF] } else { vec![0x01, 0xFF] };
    // structural field of an archive offset: [u32 count] then per member
    // [u32 name_len][name][u64 data_len][data]
    fn archive_field(c: &[u8], off: usize) -> &'static str {
        if off < 4 {
            return "member-count";
        }
        let mut p = 4usize;
        while p + 4 <= c.len() {
            let nl = u32::from_le_bytes(c[p..p + 4].try_into().unwrap()) as usize;
            if off < p + 4 {
                return "member.name-length";
            }
            if off < p + 4 + nl {
                return "member.name";
            }
            if p + 4 + nl + 8 > c.len() {
                break;
            }
            let dl = u64::from_le_bytes(c[p + 4 + nl..p + 12 + nl].try_into().unwrap()) as usize;
            if off < p + 12 + nl {
                return "member.data-length";
            }
            if off < p + 12 + nl + dl {
                return "member.data";
            }
            p += 12 + nl + dl;
        }
        "tail"
    }
    let mut case_idx = 0usize;
    for (fname, content) in &pristine {
        let role = if fname.ends_with(".json") { "metadata" } else { "archive" };
        let mut variants: Vec<(String, Vec<u8>, &'static str)> = Vec::new();
        for off in 0..content.len() {
            for p in &pats {
                let mut c = content.clone();
                let nb = match p {
                    0x00 => 0x00,
                    0xFF => 0xFF,
                    x => c[off] ^ x,
                };
                if nb == c[off] {
                    continue;
                }
                c[off] = nb;
                variants.push((format!("byte {off} -> {nb:#04x}"), c, if role == "archive" { archive_field(content, off) } else { "json" }));
            }
        }
        let step = if tier == "thorough" { 1 } else { 7 };
        for len in (0..content.len()).step_by(step) {
            variants.push((format!("truncate to {len}"), content[..len].to_vec(), "truncation"));
        }
        for (vlabel, vcontent, field) in variants {
            let role = format!("{role}:{field}");
            let role = role.as_str();
            case_idx += 1;
            if case_idx % wn != wi {
                continue;
            }
            for (tname, restore, expect) in &targets {
                st.tamper_cases += 1;
                // reset backup dir
                for (n, c) in &pristine {
                    std::fs::write(bdir.join(n), c).unwrap();
                }
                std::fs::write(bdir.join(fname), &vcontent).unwrap();
                let target = scratch.path.join("t_target");
                let _ = std::fs::remove_dir_all(&target);
                std::fs::create_dir_all(&target).unwrap();
                for (n, c) in &sentinel {
                    std::fs::write(target.join(n), c).unwrap();
                }
                let rm = RestoreManager::new(&bdir, &target).unwrap();
                let res = std::panic::catch_unwind(std::panic::AssertUnwindSafe(|| restore(&rm, &ClearDirectoryOptions::new().with_allow_clear(true))));
                let ctx = |detail: String| json!({"engine":"seqmc","check":"C12","part":2,"tampered_file_role":role,"tampered_file":fname,"tampering":vlabel,"restore_target":tname,"detail":detail});
                match res {
                    Err(_) => {
                        st.viol.push((format!("C12|tamper|{role}|restore-panicked"), ctx("panic".into())));
                    }
                    Ok(Err(_)) => {
                        st.tamper_rejected += 1;
                        if dir_image(&target) != sentinel {
                            st.viol.push((format!("C12|tamper|{role}|rejected-but-target-touched|restoring-{tname}"), ctx("the restore was refused, yet the target directory changed".into())));
                        }
                    }
                    Ok(Ok(())) => {
                        st.tamper_accepted += 1;
                        match cfg.recover(&target) {
                            Err(e) => st.viol.push((format!("C12|tamper|{role}|accepted-but-restored-directory-does-not-start|restoring-{tname}"), ctx(format!("{e:#}")))),
                            Ok(rb) => {
                                let d = dump_backend(&rb);
                                // point in time = "the newest backup at or before T": when the
                                // altered file is a metadata file and the incremental thereby drops
                                // out of the selection (unparseable, or its timestamp moved past T),
                                // restoring the intact full backup is the right answer for T
                                let demoted = role.starts_with("metadata") && tname == "pitr-at-incremental" && dump_vs_model(cfg.metric(), &d, &model_full).is_ok();
                                if demoted {
                                    st.tamper_demoted += 1;
                                } else if dump_vs_model(cfg.metric(), &d, expect).is_err() {
                                    st.viol.push((format!("C12|tamper|{role}|accepted-with-wrong-collection|restoring-{tname}"), ctx(format!("restored {}", vcore::dump_to_json(&d)))));
                                }
                            }
                        }
                    }
                }
            }
        }
    }
}

// ------------------------------------------------------------------------------------------
// Part 3: clear guard
// ------------------------------------------------------------------------------------------
fn part3(scratch: &Scratch, st: &mut Stats) {
    let cfg = bcfg();
    let data = scratch.path.join("g_data");
    let bdir = scratch.path.join("g_backups");
    let _ = std::fs::remove_dir_all(&data);
    let _ = std::fs::remove_dir_all(&bdir);
    std::fs::create_dir_all(&bdir).unwrap();
    let b = cfg.open_fresh(&data).unwrap();
    b.insert(1, vec![1.0, 0.0], Default::default()).unwrap();
    let mgr = BackupManager::new(&bdir, &data).unwrap();
    let full = mgr.create_full_backup("g".into()).unwrap();
    drop(b);
    for nonempty in [false, true] {
        for allow in [false, true] {
            for env in [None, Some("true"), Some("TRUE"), Some("1"), Some("false"), Some("yes")] {
                for pitr in [false, true] {
                    st.clear_cases += 1;
                    let target = scratch.path.join("g_target");
                    let _ = std::fs::remove_dir_all(&target);
                    std::fs::create_dir_all(&target).unwrap();
                    if nonempty {
                        std::fs::write(target.join("SENTINEL"), b"keep").unwrap();
                    }
                    match env {
                        None => std::env::remove_var("BACKUP_ALLOW_CLEAR"),
                        Some(v) => std::env::set_var("BACKUP_ALLOW_CLEAR", v),
                    }
                    let rm = RestoreManager::new(&bdir, &target).unwrap();
                    let opts = ClearDirectoryOptions::new().with_allow_clear(allow);
                    let res = if pitr { rm.restore_point_in_time_with_options(full.timestamp, &opts) } else { rm.restore_from_backup_with_options(full.id, &opts) };
                    std::env::remove_var("BACKUP_ALLOW_CLEAR");
                    let confirmed = allow || env.map(|v| v.to_lowercase() == "true").unwrap_or(false);
                    let sentinel_gone = nonempty && !target.join("SENTINEL").exists();
                    if sentinel_gone && !confirmed {
                        st.viol.push(("C12|clear-guard|non-empty-target-cleared-without-confirmation".into(), json!({"engine":"seqmc","check":"C12","part":3,"allow_clear":allow,"env":env,"pitr":pitr,"detail":format!("result {:?}", res.is_ok())})));
                    }
                    if nonempty && !confirmed && res.is_ok() {
                        st.viol.push(("C12|clear-guard|restore-into-non-empty-target-succeeded-without-confirmation".into(), json!({"allow_clear":allow,"env":env,"pitr":pitr})));
                    }
                }
            }
        }
    }
}

// ------------------------------------------------------------------------------------------
// Part 4: retention
// ------------------------------------------------------------------------------------------
fn part4(tier: &str, wi: usize, wn: usize, scratch: &Scratch, st: &mut Stats) {
    let ages: [u64; 5] = [1800, 7200, 26 * 3600, 8 * 86400, 40 * 86400];
    let now = (sc::ctl(sc::CMD_CLOCK_NOW_NS, 0, 0).unwrap_or(0) / 1_000_000_000) as u64;
    let bdir = scratch.path.join("r_backups");
    let data = scratch.path.join("r_data");
    std::fs::create_dir_all(&data).unwrap();
    let uuid = |i: usize| format!("00000000-0000-4000-8000-{:012}", i + 1);
    let nmax = if tier == "thorough" { 4 } else { 3 };
    let mut case_idx = 0usize;
    for n in 2..=nmax {
        // ages: non-increasing sequences (backup 0 oldest); parents: each backup i>0 is full or has parent j<i
        for age_sel in sequences(ages.len(), n, &[]) {
            if !age_sel.windows(2).all(|w| w[0] >= w[1]) {
                continue;
            }
            let mut parent_choices: Vec<Vec<Option<usize>>> = vec![vec![None]];
            for i in 1..n {
                let mut next = Vec::new();
                for pc in &parent_choices {
                    let mut p = pc.clone();
                    p.push(None);
                    next.push(p);
                    for j in 0..i {
                        let mut p = pc.clone();
                        p.push(Some(j));
                        next.push(p);
                    }
                }
                parent_choices = next;
            }
            for parents in &parent_choices {
                for pol in 0..32u32 {
                    case_idx += 1;
                    if case_idx % wn != wi {
                        continue;
                    }
                    st.retention_cases += 1;
                    let policy = RetentionPolicy {
                        hourly_hours: if pol & 1 != 0 { 24 } else { 0 },
                        daily_days: if pol & 2 != 0 { 7 } else { 0 },
                        weekly_weeks: if pol & 4 != 0 { 4 } else { 0 },
                        monthly_months: if pol & 8 != 0 { 12 } else { 0 },
                        min_age_days: if pol & 16 != 0 { 1 } else { 0 },
                    };
                    let _ = std::fs::remove_dir_all(&bdir);
                    std::fs::create_dir_all(&bdir).unwrap();
                    for i in 0..n {
                        // within one age class later backups are a little younger
                        let ts = now - ages[age_sel[i]] + (i as u64) * 60;
                        let meta = json!({
                            "id": uuid(i), "timestamp": ts,
                            "backup_type": if parents[i].is_some() { "Incremental" } else { "Full" },
                            "size_bytes": 10, "vector_count": 1, "checksum": 0,
                            "parent_id": parents[i].map(uuid), "description": format!("b{i}"),
                        });
                        std::fs::write(bdir.join(format!("backup_{}.json", uuid(i))), serde_json::to_vec(&meta).unwrap()).unwrap();
                        std::fs::write(bdir.join(format!("backup_{}.tar", uuid(i))), b"x").unwrap();
                    }
                    let mgr = BackupManager::new(&bdir, &data).unwrap();
                    let Ok(deleted) = mgr.prune_backups(&policy) else { continue };
                    if !deleted.is_empty() {
                        st.retention_deleting += 1;
                    }
                    let retained: Vec<usize> = (0..n).filter(|i| bdir.join(format!("backup_{}.json", uuid(*i))).exists()).collect();
                    let ctx = |detail: String| json!({"engine":"seqmc","check":"C12","part":4,"ages_s": age_sel.iter().map(|a| ages[*a]).collect::<Vec<_>>(),"parents":parents,"policy":format!("{policy:?}"),"retained":retained,"detail":detail});
                    for i in &retained {
                        if let Some(p) = parents[*i] {
                            if !retained.contains(&p) {
                                st.viol.push(("C12|retention|pruned-a-backup-a-retained-backup-depends-on".into(), ctx(format!("backup {i} is retained but its parent {p} was deleted"))));
                                break;
                            }
                        }
                    }
                    for i in 0..n {
                        let age = ages[age_sel[i]] - (i as u64) * 60;
                        if !retained.contains(&i) && age < policy.min_age_days * 86400 {
                            st.viol.push(("C12|retention|deleted-backup-younger-than-min-age".into(), ctx(format!("backup {i} aged {age}s was deleted"))));
                            break;
                        }
                    }
                }
            }
        }
    }
}

pub fn worker(wi: usize, wn: usize, tier: &str) {
    let depth: usize = std::env::var("C12_DEPTH").ok().and_then(|s| s.parse().ok()).unwrap_or(if tier == "thorough" { 6 } else { 5 });
    let scratch = Scratch::new(&format!("c12w{wi}"));
    sc::ctl(sc::CMD_CLOCK_MODE, 1, 0);
    sc::set_root(&scratch.path.to_string_lossy());
    sc::ctl(sc::CMD_MTIME_MODE, 1, 0);
    let mut st = Stats::default();
    let alpha = alphabet();
    let mut idx = 0usize;
    for first in 0..alpha.len() {
        for second in 0..alpha.len() {
            idx += 1;
            if idx % wn != wi {
                continue;
            }
            for s in sequences(alpha.len(), depth, &[first, second]) {
                let hist: Vec<BOp> = s.iter().map(|&i| alpha[i].clone()).collect();
                if !hist.iter().any(|o| matches!(o, BOp::Full)) {
                    continue; // no backup in the history: nothing to restore
                }
                run_history(&hist, &scratch, &mut st);
            }
        }
    }
    for (li, (cfg, hist)) in large_member_histories().into_iter().enumerate() {
        if (li + 1) % wn == wi {
            run_history_cfg(&cfg, &hist, &scratch, &mut st);
            st.large_member_histories += 1;
        }
    }
    part2(tier, wi, wn, &scratch, &mut st);
    if wi == 0 {
        part3(&scratch, &mut st);
    }
    part4(tier, wi, wn, &scratch, &mut st);
    sc::clear_root();
    vcore::par::worker_emit(&json!({"large":st.large_member_histories,"histories":st.histories,"backups":st.backups,"restores":st.restores,"pitr":st.pitr,"incr_comp":st.incr_with_compaction_between,
        "states":st.states.iter().collect::<Vec<_>>(),"tamper":st.tamper_cases,"tamper_rejected":st.tamper_rejected,"tamper_accepted":st.tamper_accepted,
        "clear":st.clear_cases,"retention":st.retention_cases,"retention_deleting":st.retention_deleting,"violations":st.viol.to_json()}));
}

pub fn run(tier: &str, replay: Option<&str>) -> i32 {
    if !sc::loaded() {
        eprintln!("C12: kvshim not loaded (machinery error)");
        return 2;
    }
    if let Some(p) = replay {
        let v: Value = serde_json::from_str(&std::fs::read_to_string(p).expect("read")).expect("json");
        let c = &v["case"];
        if c["part"] == 1 {
            let scratch = Scratch::new("c12replay");
            sc::ctl(sc::CMD_CLOCK_MODE, 1, 0);
            sc::set_root(&scratch.path.to_string_lossy());
            sc::ctl(sc::CMD_MTIME_MODE, 1, 0);
            let mut st = Stats::default();
            if !c["large_member_cfg"].is_null() {
                let want: BackendCfg = serde_json::from_value(c["large_member_cfg"].clone()).unwrap();
                for (cfg, hist) in large_member_histories() {
                    if cfg.rotation == want.rotation {
                        run_history_cfg(&cfg, &hist, &scratch, &mut st);
                    }
                }
            } else {
                let hist: Vec<BOp> = serde_json::from_value(c["history"].clone()).unwrap();
                run_history(&hist, &scratch, &mut st);
            }
            sc::clear_root();
            if let Some((s, r)) = st.viol.any_first() {
                println!("replay: reproduced {s}: {}", r["detail"]);
                println!("VIOLATION property=C12 replay={p}");
                return 1;
            }
            println!("replay: no violation");
            return 0;
        }
        println!("replay: parts 2-4 cases are self-describing; re-run bin/check C12");
        return 0;
    }
    if let Some((i, n)) = vcore::par::worker_id() {
        worker(i, n, tier);
        return 0;
    }
    let res = vcore::par::run_workers(vcore::par::jobs(), &[]);
    let mut ev = Evidence::new("C12", tier, "model_checking");
    let mut rep = Reporter::new("C12");
    let mut tot: BTreeMap<&str, u64> = BTreeMap::new();
    let mut states: BTreeSet<u64> = BTreeSet::new();
    for r in &res {
        for k in ["histories", "backups", "restores", "pitr", "incr_comp", "tamper", "tamper_rejected", "tamper_accepted", "clear", "retention", "retention_deleting", "large"] {
            *tot.entry(k).or_insert(0) += r[k].as_u64().unwrap_or(0);
        }
        for s in r["states"].as_array().unwrap() {
            states.insert(s.as_u64().unwrap());
        }
        rep.report_bag(&r["violations"]);
    }
    let depth: usize = std::env::var("C12_DEPTH").ok().and_then(|s| s.parse().ok()).unwrap_or(if tier == "thorough" { 6 } else { 5 });
    ev.set("states", states.len() as u64);
    ev.set("transitions", tot["restores"] + tot["pitr"] + tot["tamper"] + tot["clear"] + tot["retention"]);
    ev.set("traces_validated_against_impl", tot["histories"]);
    ev.set("evaluations", tot["histories"] + tot["tamper"] + tot["clear"] + tot["retention"]);
    ev.set("distinct_nontrivial", tot["incr_comp"] + tot["tamper_rejected"] + tot["retention_deleting"]);
    ev.set("rule", format!("(1) all histories of length {depth} over {{insert 1, insert 2, overwrite 1, delete 1, SNAP, RESTART, FULL backup, INCREMENTAL backup (parent = latest), INCREMENTAL backup (parent = last FULL: siblings)}} that contain a full backup, rotation threshold 1 byte so snapshots compact segments between backups, logical clock +2 s per step with virtual mtimes; every backup taken is restored by id AND by point-in-time (target = its timestamp) into an empty directory, recovered, and must equal the reference map as of that backup; (2) one full+incremental chain: every byte of every archive and metadata file x {{xor 0x01, 0xFF (thorough: +xor 0x80, 0x00)}} and truncations, restored over a target holding sentinel files with clearing allowed: rejected => target byte-identical, accepted => collection as expected; (3) target {{empty, non-empty}} x allow_clear x BACKUP_ALLOW_CLEAR {{unset,true,TRUE,1,false,yes}} x {{by id, point-in-time}}: cleared only with confirmation; (4) every timeline of 2..{} backups with ages on {{1/2 h, 2 h, 26 h, 8 d, 40 d}}, every parent assignment, 32 policies, fixed clock: the retained set is closed under parent_id and nothing younger than min_age is deleted. non-trivial = incrementals taken after an intervening snapshot + rejected tamperings + prunes that delete something", if tier == "thorough" { 4 } else { 3 }));
    ev.set("samples", json!([{"history": ["I(1)", "FULL", "I(2)", "SNAP", "INCR"]}, {"tamper": "archive byte 17 -> 0xff"}, {"retention": {"ages_s": [93600, 7200], "parents": [null, 0]}}]));
    ev.set("exhaustive", true);
    ev.set("large_member_histories", json!({"histories": tot["large"], "rule": "dimension 64, 400-550 documents, rotation {none, 100 kB}: WAL segments and snapshots of 100-250 KiB (several 64 KiB archive streaming chunks); full backup, overwrites + deletes, incremental, snapshot (compaction), writes, incremental, sibling incremental, restart, writes, second full backup; every backup restored by id and by point in time and compared with the reference map"}));
    ev.set("backups_taken", tot["backups"]);
    ev.set("restores_by_id", tot["restores"]);
    ev.set("restores_point_in_time", tot["pitr"]);
    ev.set("incrementals_after_snapshot_compaction", tot["incr_comp"]);
    ev.set("tamper_cases", tot["tamper"]);
    ev.set("tamper_rejected", tot["tamper_rejected"]);
    ev.set("tamper_accepted_and_correct", tot["tamper_accepted"]);
    ev.set("clear_guard_cases", tot["clear"]);
    ev.set("retention_cases", tot["retention"]);
    ev.assume("time is kvshim's logical REALTIME clock and file mtimes are virtual (statx reports the logical time of the last write), so backup timestamps, PITR targets and the incremental mtime comparison are exact functions of the history");
    ev.assume("a tampering that is accepted must still restore the expected collection (a flip in a free-text metadata field is harmless and is not required to be rejected)");
    ev.violations = rep.violations as i64;
    ev.write();
    println!("C12 {tier}: histories={} backups={} restores={} pitr={} incr_after_compaction={} tamper={} (rejected {}, accepted {}) clear={} retention={} violations={}", tot["histories"], tot["backups"], tot["restores"], tot["pitr"], tot["incr_comp"], tot["tamper"], tot["tamper_rejected"], tot["tamper_accepted"], tot["clear"], tot["retention"], rep.violations);
    rep.finish()
}
