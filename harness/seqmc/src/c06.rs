//! C06 — search results are sound and reflect acknowledged recent writes.
//! Histories x dimensions (SIMD tails) x metrics x k x ef x query lattice x entry points.

use crate::te::*;
use kyrodb_engine::config::DistanceMetric;
use kyrodb_engine::SearchResult;
use serde_json::{json, Value};
use std::collections::{BTreeMap, BTreeSet};
use vcore::evidence::Evidence;
use vcore::exec::sequences;
use vcore::findings::{Reporter, SigBag};
use vcore::Meta;

/// Lattice vectors of dimension `dim`: axis vectors at the SIMD-relevant coordinates, pairwise
/// sums, a negative axis, and a tail-only vector; `scale` makes them un-normalised.
pub fn lattice(dim: usize, scale: f32) -> Vec<Vec<f32>> {
    let mut coords: BTreeSet<usize> = BTreeSet::new();
    coords.insert(0);
    coords.insert(dim - 1);
    coords.insert(dim / 2);
    if dim > 8 {
        coords.insert(8 * ((dim - 1) / 8)); // first coordinate of the SIMD tail
    }
    let cs: Vec<usize> = coords.into_iter().collect();
    let mut out: Vec<Vec<f32>> = Vec::new();
    for &c in &cs {
        let mut v = vec![0.0f32; dim];
        v[c] = scale;
        out.push(v);
    }
    // negative first axis
    let mut n = vec![0.0f32; dim];
    n[0] = -scale;
    out.push(n);
    if dim >= 2 {
        // 3-4-5 combinations (exactly unit when scale = 1)
        let mut a = vec![0.0f32; dim];
        a[0] = 0.6 * scale;
        a[dim - 1] = 0.8 * scale;
        out.push(a);
        let mut b = vec![0.0f32; dim];
        b[0] = 0.8 * scale;
        b[dim - 1] = -0.6 * scale;
        out.push(b);
    }
    out.sort_by(|x, y| x.partial_cmp(y).unwrap());
    out.dedup();
    out
}

pub fn true_distance(metric: DistanceMetric, q: &[f32], v: &[f32]) -> f64 {
    match metric {
        DistanceMetric::Euclidean => q.iter().zip(v).map(|(a, b)| ((*a as f64) - (*b as f64)).powi(2)).sum::<f64>().sqrt(),
        _ => {
            let dot: f64 = q.iter().zip(v).map(|(a, b)| (*a as f64) * (*b as f64)).sum();
            let nq: f64 = q.iter().map(|a| (*a as f64).powi(2)).sum::<f64>().sqrt();
            let nv: f64 = v.iter().map(|a| (*a as f64).powi(2)).sum::<f64>().sqrt();
            1.0 - (dot / (nq * nv)).clamp(-1.0, 1.0)
        }
    }
}

/// The engine's documented normalisation tolerance (NORMALIZATION_NORM_SQ_MIN/MAX in
/// hnsw_backend.rs, hnsw_index.rs, tiered_engine.rs): under cosine / inner product a query or
/// document whose squared norm lies in [0.98, 1.02] counts as unit length and is used as given, so
/// the distance the engine defines is 1 - <q', v'> with x' = x inside the band and x/|x| outside.
/// Returns that value (None for Euclidean or when neither operand is strictly inside the band).
pub fn banded_distance(metric: DistanceMetric, q: &[f32], v: &[f32]) -> Option<f64> {
    if matches!(metric, DistanceMetric::Euclidean) {
        return None;
    }
    let n2 = |x: &[f32]| x.iter().map(|a| (*a as f64).powi(2)).sum::<f64>();
    let (nq, nv) = (n2(q), n2(v));
    let in_band = |n: f64| (0.9799..=1.0201).contains(&n);
    if !in_band(nq) && !in_band(nv) {
        return None;
    }
    let eff = |x: &[f32], n: f64| -> Vec<f64> {
        if in_band(n) {
            x.iter().map(|a| *a as f64).collect()
        } else {
            x.iter().map(|a| (*a as f64) / n.sqrt()).collect()
        }
    };
    let (eq, evv) = (eff(q, nq), eff(v, nv));
    Some(1.0 - eq.iter().zip(&evv).map(|(a, b)| a * b).sum::<f64>())
}

pub struct SearchCheck<'a> {
    pub metric: DistanceMetric,
    pub model: &'a BTreeMap<u64, Vec<f32>>,
    pub hot_ids: &'a BTreeSet<u64>,
}

/// Validate one result list; returns Err(symptom, detail).
pub fn check_results(sc: &SearchCheck, q: &[f32], k: usize, res: &[SearchResult], degraded: bool) -> Result<(), (String, String)> {
    let tol = |d: f64| 1e-4 * d.abs().max(1.0);
    if res.len() > k {
        return Err(("more-than-k".into(), format!("{} results for k={k}", res.len())));
    }
    let mut seen = BTreeSet::new();
    let mut prev = f32::NEG_INFINITY;
    for r in res {
        if !seen.insert(r.doc_id) {
            return Err(("duplicate-id".into(), format!("doc {} twice", r.doc_id)));
        }
        let Some(v) = sc.model.get(&r.doc_id) else {
            return Err(("non-live-document".into(), format!("doc {} is not live", r.doc_id)));
        };
        let td = true_distance(sc.metric, q, v);
        if ((r.distance as f64) - td).abs() > tol(td) {
            // inside the engine's normalisation tolerance band the defined distance is the
            // un-normalised 1 - <q, v> (possibly clamped at 0); nothing else is accepted
            let banded = banded_distance(sc.metric, q, v).map(|b| ((r.distance as f64) - b).abs() <= tol(b) || ((r.distance as f64) - b.max(0.0)).abs() <= tol(b)).unwrap_or(false);
            if !banded {
                return Err(("wrong-distance".into(), format!("doc {} reported {} true {}", r.doc_id, r.distance, td)));
            }
        }
        if r.distance < prev {
            return Err(("not-sorted".into(), format!("distance {} after {}", r.distance, prev)));
        }
        prev = r.distance;
    }
    if degraded {
        return Ok(());
    }
    // recent-write completeness: a live doc still mirrored in the hot tier that is strictly closer
    // than the k-th returned document must be present
    let kth: f64 = if res.len() == k { res[k - 1].distance as f64 } else { f64::INFINITY };
    for id in sc.hot_ids {
        if seen.contains(id) {
            continue;
        }
        if let Some(v) = sc.model.get(id) {
            let td = true_distance(sc.metric, q, v);
            if td + tol(td) + tol(kth.min(1e9)) < kth {
                return Err(("recent-write-missing".into(), format!("doc {id} (in the recent-write tier, true distance {td}) is absent although the k-th result is at {kth}")));
            }
        }
    }
    Ok(())
}

#[derive(Default)]
pub struct Stats {
    pub histories: u64,
    pub searches: u64,
    pub results: u64,
    pub nonempty: u64,
    pub states: BTreeSet<u64>,
    pub paths: BTreeSet<String>,
    pub viol: SigBag,
    pub tombstone_max_pct: u64,
    pub degraded_timed: u64,
    pub large_batch_items: u64,
}

#[derive(Clone, Debug, serde::Serialize, serde::Deserialize)]
pub struct Case {
    pub cfg: TeCfg,
    pub scale: f32,
    pub history: Vec<TOp>,
    /// None: the mixed sweep (all entry points per query). Some(e): first-touch pass — a fresh
    /// engine, and every query goes through entry point `e` only ("sync" | "batch" | "timed"),
    /// k = 1000 first. Searches are not neutral (a search that meets a stale recent-write mirror
    /// scrubs it), so in the mixed sweep the first entry point would always clean up for the rest.
    #[serde(default)]
    pub pure: Option<String>,
}

fn alphabet(dim: usize, scale: f32) -> Vec<TOp> {
    let lat = lattice(dim, scale);
    let pick = [lat[0].clone(), lat[lat.len() - 1].clone(), lat[lat.len() / 2].clone()];
    let mut v = Vec::new();
    for id in 1..=3u64 {
        for (j, p) in pick.iter().enumerate() {
            if (id as usize + j) % 3 == 0 && id != 1 {
                continue; // keep the alphabet small: id 1 gets all three vectors (overwrites)
            }
            v.push(TOp::Ins { id, v: p.clone(), m: Meta::new() });
        }
    }
    v.push(TOp::Del { id: 1 });
    v.push(TOp::Del { id: 2 });
    v.push(TOp::Flush { force: true });
    // bulk loads bypass the recent-write tier: an overwrite that leaves an older mirror behind,
    // and a new document that has no mirror at all
    v.push(TOp::BulkLoad { docs: vec![(1, pick[1].clone(), Meta::new())] });
    v.push(TOp::BulkLoad { docs: vec![(2, pick[0].clone(), Meta::new()), (3, pick[2].clone(), Meta::new())] });
    v
}

/// Counters that move when a timed answer was produced under a timeout, an open circuit
/// breaker or load shedding (the execution path alone does not tell).
fn degradation_counters(te: &Te) -> u64 {
    let s = te.engine.stats();
    s.hot_tier_timeouts + s.cold_tier_timeouts + s.partial_results_returned + s.queries_rejected + s.circuit_breaker_rejections + s.worker_saturation_count
}

fn sweep_pure(te: &Te, rt: &tokio::runtime::Runtime, model: &BTreeMap<u64, Vec<f32>>, case: &Case, st: &mut Stats, entry: &str) {
    let metric = te.cfg.metric();
    let hot_ids: BTreeSet<u64> = te.engine.hot_tier().snapshot_doc_ids().into_iter().collect();
    let sc = SearchCheck { metric, model, hot_ids: &hot_ids };
    let queries = lattice(te.cfg.dim, 1.0);
    for &k in &[1000usize, 1, 2] {
        for (qidx, q) in queries.iter().enumerate() {
            st.searches += 1;
            let out: Result<Vec<(Vec<f32>, Vec<SearchResult>, String)>, String> = match entry {
                "sync" => te.engine.knn_search_with_ef_detailed(q, k, None).map(|(r, p)| vec![(q.clone(), r, format!("{p:?}"))]).map_err(|e| format!("{e:#}")),
                "batch" => {
                    let q2 = queries[(qidx + 1) % queries.len()].clone();
                    te.engine
                        .knn_search_batch_with_ef_detailed(&[q.clone(), q2.clone()], k, None)
                        .map(|all| all.into_iter().enumerate().map(|(i, (r, p))| (if i == 0 { q.clone() } else { q2.clone() }, r, format!("{p:?}"))).collect())
                        .map_err(|e| format!("{e:#}"))
                }
                _ => {
                    let before = degradation_counters(te);
                    let r = rt.block_on(te.engine.knn_search_with_timeouts_with_ef(q, k, None));
                    let degraded_now = degradation_counters(te) != before;
                    r.map(|(r, p)| vec![(q.clone(), r, if degraded_now { "Degraded".to_string() } else { format!("{p:?}") })]).map_err(|e| format!("{e:#}"))
                }
            };
            let name = match entry {
                "sync" => "knn_search",
                "batch" => "knn_search_batch",
                _ => "knn_search_with_timeouts",
            };
            match out {
                Ok(list) => {
                    for (qq, res, path) in list {
                        st.paths.insert(format!("first-touch:{entry}:{path}"));
                        st.results += res.len() as u64;
                        if !res.is_empty() {
                            st.nonempty += 1;
                        }
                        let degraded = path == "Degraded";
                        if let Err((sym, d)) = check_results(&sc, &qq, k, &res, degraded) {
                            st.viol.push((
                                format!("C06|{name}[{path}]|{sym}|{}", vcore::metric_name(metric)),
                                json!({"engine":"seqmc","check":"C06","case":case,"query":qq,"k":k,"ef":null,"entry":name,"detail":d}),
                            ));
                            return;
                        }
                    }
                }
                Err(e) => {
                    st.viol.push((format!("C06|{name}|error|{}", vcore::metric_name(metric)), json!({"engine":"seqmc","check":"C06","case":case,"query":q,"k":k,"entry":name,"detail":e})));
                    return;
                }
            }
        }
    }
}

fn sweep(te: &Te, rt: &tokio::runtime::Runtime, model: &BTreeMap<u64, Vec<f32>>, case: &Case, st: &mut Stats, thorough: bool) {
    if let Some(e) = &case.pure {
        return sweep_pure(te, rt, model, case, st, e);
    }
    let metric = te.cfg.metric();
    let dim = te.cfg.dim;
    let hot_ids: BTreeSet<u64> = te.engine.hot_tier().snapshot_doc_ids().into_iter().collect();
    let sc = SearchCheck { metric, model, hot_ids: &hot_ids };
    let mut queries = lattice(dim, 1.0);
    // un-normalised queries: always under the Euclidean metric (nothing normalises them there)
    if thorough || matches!(metric, DistanceMetric::Euclidean) {
        queries.extend(lattice(dim, 2.5));
    }
    let ks: &[usize] = if thorough { &[1, 2, 3, 1000] } else { &[1, 2, 1000] };
    let efs: &[Option<usize>] = &[None, Some(1), Some(10_000)];
    let mut fail = |st: &mut Stats, entry: &str, sym: String, detail: String, q: &Vec<f32>, k: usize, ef: Option<usize>| {
        st.viol.push((
            format!("C06|{entry}|{sym}|{}", vcore::metric_name(metric)),
            json!({"engine":"seqmc","check":"C06","case":case,"query":q,"k":k,"ef":ef,"entry":entry,"detail":detail}),
        ));
    };
    for (qidx, q) in queries.iter().enumerate() {
        // the batch pairs the query just cached by the single search (a hit) with the next lattice
        // query, which has not been searched yet (a miss): mixed hit/miss batches
        let next_q = queries[(qidx + 1) % queries.len()].clone();
        for &k in ks {
            for &ef in efs {
                // 1. sync single search
                st.searches += 1;
                match te.engine.knn_search_with_ef_detailed(q, k, ef) {
                    Ok((res, path)) => {
                        st.paths.insert(format!("{path:?}"));
                        st.results += res.len() as u64;
                        if !res.is_empty() {
                            st.nonempty += 1;
                        }
                        // a cache hit is C07's business, but it must still be sound
                        if let Err((s, d)) = check_results(&sc, q, k, &res, false) {
                            fail(st, &format!("knn_search[{path:?}]"), s, d, q, k, ef);
                            return;
                        }
                    }
                    Err(e) => {
                        fail(st, "knn_search", "error".into(), format!("{e:#}"), q, k, ef);
                        return;
                    }
                }
                // 2. batch
                st.searches += 1;
                match te.engine.knn_search_batch_with_ef_detailed(&[q.clone(), next_q.clone()], k, ef) {
                    Ok(all) => {
                        for (qi, (res, path)) in all.iter().enumerate() {
                            let qq = if qi == 0 { q } else { &next_q };
                            st.paths.insert(format!("batch:{path:?}"));
                            if let Err((s, d)) = check_results(&sc, qq, k, res, false) {
                                fail(st, &format!("knn_search_batch[{path:?}]"), s, d, qq, k, ef);
                                return;
                            }
                        }
                    }
                    Err(e) => {
                        fail(st, "knn_search_batch", "error".into(), format!("{e:#}"), q, k, ef);
                        return;
                    }
                }
                // 3. cold tier directly (no recent-write completeness: the hot tier is not consulted)
                st.searches += 1;
                if !te.engine.cold_tier().is_empty() {
                    match te.engine.cold_tier().knn_search_with_ef(&normalise_for(metric, q), k, ef) {
                        Ok(res) => {
                            let none = BTreeSet::new();
                            let sc2 = SearchCheck { metric, model, hot_ids: &none };
                            if let Err((s, d)) = check_results(&sc2, q, k, &res, false) {
                                fail(st, "HnswBackend::knn_search", s, d, q, k, ef);
                                return;
                            }
                        }
                        Err(e) => {
                            fail(st, "HnswBackend::knn_search", "error".into(), format!("{e:#}"), q, k, ef);
                            return;
                        }
                    }
                }
            }
            // 4. timed path (generous timeouts: a degraded answer is excluded by the statement)
            st.searches += 1;
            let deg_before = degradation_counters(te);
            match rt.block_on(te.engine.knn_search_with_timeouts_with_ef(q, k, Some(64))) {
                Ok((res, path)) => {
                    st.paths.insert(format!("timed:{path:?}"));
                    let degraded = format!("{path:?}") == "Degraded" || degradation_counters(te) != deg_before;
                    if degraded {
                        st.degraded_timed += 1;
                    }
                    if let Err((s, d)) = check_results(&sc, q, k, &res, degraded) {
                        fail(st, &format!("knn_search_with_timeouts[{path:?}]"), s, d, q, k, Some(64));
                        return;
                    }
                }
                Err(e) => {
                    fail(st, "knn_search_with_timeouts", "error".into(), format!("{e:#}"), q, k, Some(64));
                    return;
                }
            }
        }
    }
}

pub fn normalise_for_pub(metric: DistanceMetric, q: &[f32]) -> Vec<f32> {
    normalise_for(metric, q)
}

fn normalise_for(metric: DistanceMetric, q: &[f32]) -> Vec<f32> {
    if matches!(metric, DistanceMetric::Euclidean) {
        return q.to_vec();
    }
    let n: f64 = q.iter().map(|a| (*a as f64).powi(2)).sum::<f64>().sqrt();
    q.iter().map(|a| ((*a as f64) / n) as f32).collect()
}

pub fn run_case(case: &Case, rt: &tokio::runtime::Runtime, st: &mut Stats, thorough: bool, sweep_every_step: bool) {
    st.histories += 1;
    let te = Te::new(&case.cfg);
    let mut model: BTreeMap<u64, Vec<f32>> = BTreeMap::new();
    let n = case.history.len();
    for (i, op) in case.history.iter().enumerate() {
        match op {
            TOp::Ins { id, v, m } => {
                if te.engine.insert(*id, v.clone(), vcore::to_hash(m)).is_err() {
                    return;
                }
                model.insert(*id, v.clone());
            }
            TOp::Del { id } => {
                let _ = te.engine.delete(*id);
                model.remove(id);
            }
            TOp::Flush { force } => {
                let _ = te.engine.flush_hot_tier(*force);
            }
            TOp::BulkLoad { docs } => {
                let d: Vec<(u64, Vec<f32>, std::collections::HashMap<String, String>)> = docs.iter().map(|(id, v, m)| (*id, v.clone(), vcore::to_hash(m))).collect();
                if te.engine.bulk_load_cold_tier(d).is_err() {
                    return;
                }
                for (id, v, _) in docs {
                    model.insert(*id, v.clone());
                }
            }
            _ => {}
        }
        if sweep_every_step || i + 1 == n {
            use std::hash::{Hash, Hasher};
            let mut h = std::collections::hash_map::DefaultHasher::new();
            format!("{:?}{:?}", model, te.engine.hot_tier().len()).hash(&mut h);
            st.states.insert(h.finish());
            let before = st.viol.len();
            sweep(&te, rt, &model, case, st, thorough);
            if st.viol.len() > before {
                return;
            }
        }
    }
}

/// Batch sizes that cross the cold tier's internal chunking of a batch search
/// (chunk = max(32, 8 x rayon threads) queries per index read-lock hold).
fn large_batch_sizes() -> Vec<usize> {
    let threads = std::env::var("RAYON_NUM_THREADS").ok().and_then(|s| s.parse::<usize>().ok()).filter(|n| *n > 0).unwrap_or_else(|| std::thread::available_parallelism().map(|n| n.get()).unwrap_or(1));
    let chunk = (threads * 8).max(32);
    let mut v = vec![33usize, 71, chunk + 1, 3 * chunk + 7];
    v.sort();
    v.dedup();
    v
}

fn gen_vec(dim: usize, i: usize, salt: usize, scale: f32) -> Vec<f32> {
    let mut v: Vec<f32> = (0..dim).map(|j| (((i * 7919 + j * 104_729 + i * j * 31 + salt * 613) % 2001) as f32 / 1000.0 - 1.0) * scale).collect();
    if v.iter().all(|x| x.abs() < 1e-3) {
        v[0] = scale;
    }
    v
}

/// Large batches: 40 cold documents + 3 recent writes + an overwrite + a delete, then one batch
/// search per size in `large_batch_sizes()` through TieredEngine::knn_search_batch and
/// HnswBackend::knn_search_batch. Every item is checked by the soundness oracle against ITS query
/// and must carry the same distances as a single search for that query on the same collection.
fn large_batch_section(metric_s: &str, dim: usize, st: &mut Stats) -> u64 {
    let cfg = cfg_for(metric_s, dim, 8, 16, 128);
    let te = Te::new(&cfg);
    let metric = cfg.metric();
    let scale = if matches!(metric, DistanceMetric::Euclidean) { 2.5 } else { 1.0 };
    let mut model: BTreeMap<u64, Vec<f32>> = BTreeMap::new();
    for id in 1..=40u64 {
        let v = gen_vec(dim, id as usize, 1, scale);
        if te.engine.insert(id, v.clone(), Default::default()).is_ok() {
            model.insert(id, v);
        }
    }
    let _ = te.engine.flush_hot_tier(true);
    for id in [41u64, 42, 43, 7] {
        let v = gen_vec(dim, id as usize, 2, scale);
        if te.engine.insert(id, v.clone(), Default::default()).is_ok() {
            model.insert(id, v);
        }
    }
    let _ = te.engine.delete(9);
    model.remove(&9);
    let hot_ids: BTreeSet<u64> = te.engine.hot_tier().snapshot_doc_ids().into_iter().collect();
    let none = BTreeSet::new();
    let sizes = large_batch_sizes();
    let maxb = *sizes.last().unwrap();
    let queries: Vec<Vec<f32>> = (0..maxb).map(|i| gen_vec(dim, i, 5, scale)).collect();
    let case = json!({"section":"large-batch","metric":metric_s,"dim":dim,"sizes":sizes});
    let mut items = 0u64;
    let tol = |d: f64| 1e-4 * d.abs().max(1.0);
    for (k, ef) in [(5usize, None), (1usize, Some(64usize))] {
        // single-search answers first (the 4-entry query cache keeps only the last four)
        let mut single: Vec<Vec<f32>> = Vec::with_capacity(maxb);
        for q in &queries {
            single.push(te.engine.knn_search_with_ef_detailed(q, k, ef).map(|(r, _)| r.iter().map(|x| x.distance).collect()).unwrap_or_default());
        }
        for &b in &sizes {
            st.searches += 1;
            let sc = SearchCheck { metric, model: &model, hot_ids: &hot_ids };
            let mut fail = |st: &mut Stats, entry: &str, sym: String, detail: String, qi: usize| {
                st.viol.push((format!("C06|{entry}|{sym}|{}|large-batch", vcore::metric_name(metric)), json!({"engine":"seqmc","check":"C06","case":case,"batch_size":b,"item":qi,"k":k,"ef":ef,"entry":entry,"detail":detail})));
            };
            match te.engine.knn_search_batch_with_ef_detailed(&queries[..b], k, ef) {
                Ok(all) => {
                    if all.len() != b {
                        fail(st, "knn_search_batch", "item-count".into(), format!("{} answers for {b} queries", all.len()), 0);
                        return items;
                    }
                    for (qi, (res, path)) in all.iter().enumerate() {
                        items += 1;
                        st.paths.insert(format!("batch:{path:?}"));
                        if let Err((s, d)) = check_results(&sc, &queries[qi], k, res, false) {
                            fail(st, &format!("knn_search_batch[{path:?}]"), s, format!("{d}; query {:?}; answer {:?}", queries[qi], res.iter().map(|x| (x.doc_id, x.distance)).collect::<Vec<_>>()), qi);
                            return items;
                        }
                        let got: Vec<f32> = res.iter().map(|x| x.distance).collect();
                        if got.len() != single[qi].len() || got.iter().zip(&single[qi]).any(|(a, b)| ((*a as f64) - (*b as f64)).abs() > tol(*b as f64)) {
                            fail(st, "knn_search_batch", "item-differs-from-single-search".into(), format!("batch distances {got:?}, single search {:?}", single[qi]), qi);
                            return items;
                        }
                    }
                }
                Err(e) => {
                    fail(st, "knn_search_batch", "error".into(), format!("{e:#}"), 0);
                    return items;
                }
            }
            // cold tier directly
            st.searches += 1;
            let nq: Vec<Vec<f32>> = queries[..b].iter().map(|q| normalise_for(metric, q)).collect();
            let sc2 = SearchCheck { metric, model: &model, hot_ids: &none };
            match te.engine.cold_tier().knn_search_batch(&nq, k, ef) {
                Ok(all) => {
                    if all.len() != b {
                        fail(st, "HnswBackend::knn_search_batch", "item-count".into(), format!("{} answers for {b} queries", all.len()), 0);
                        return items;
                    }
                    for (qi, res) in all.iter().enumerate() {
                        items += 1;
                        if let Err((s, d)) = check_results(&sc2, &queries[qi], k, res, false) {
                            fail(st, "HnswBackend::knn_search_batch", s, d, qi);
                            return items;
                        }
                        let one = te.engine.cold_tier().knn_search_with_ef(&nq[qi], k, ef).unwrap_or_default();
                        if one.len() != res.len() || one.iter().zip(res.iter()).any(|(a, b)| ((a.distance as f64) - (b.distance as f64)).abs() > tol(a.distance as f64)) {
                            fail(st, "HnswBackend::knn_search_batch", "item-differs-from-single-search".into(), format!("batch {:?}, single {:?}", res.iter().map(|x| (x.doc_id, x.distance)).collect::<Vec<_>>(), one.iter().map(|x| (x.doc_id, x.distance)).collect::<Vec<_>>()), qi);
                            return items;
                        }
                    }
                }
                Err(e) => {
                    fail(st, "HnswBackend::knn_search_batch", "error".into(), format!("{e:#}"), 0);
                    return items;
                }
            }
        }
    }
    items
}

fn dims(tier: &str) -> Vec<usize> {
    if tier == "thorough" {
        vec![1, 3, 7, 8, 9, 15, 16, 17, 33]
    } else {
        vec![3, 9, 17, 33]
    }
}

fn cfg_for(metric: &str, dim: usize, hot_soft: usize, hot_hard: usize, cap: usize) -> TeCfg {
    TeCfg {
        strategy: "lru".into(),
        l1a_capacity: 4,
        hot_soft,
        hot_hard,
        metric: metric.into(),
        dim,
        qcache_capacity: 4,
        qcache_threshold: 1.0,
        hnsw_capacity: cap,
    }
}

/// Long delete-heavy history: n inserts, all but two deleted (~95 % tombstones), then more inserts
/// than the remaining capacity so that tombstone compaction runs.
fn tombstone_history(dim: usize, scale: f32) -> Vec<TOp> {
    let lat = lattice(dim, scale);
    let mut h = Vec::new();
    let n = 40u64;
    for id in 1..=n {
        h.push(TOp::Ins { id, v: lat[(id as usize) % lat.len()].clone(), m: Meta::new() });
    }
    h.push(TOp::Flush { force: true });
    for id in 3..=n {
        h.push(TOp::Del { id });
    }
    h
}

pub fn run(tier: &str, replay: Option<&str>) -> i32 {
    if let Some(p) = replay {
        return run_replay(p);
    }
    if let Some((wi, wn)) = vcore::par::worker_id() {
        // concurrent slice worker process (the scheduler is process-global)
        let bound: usize = if tier == "thorough" { 3 } else { 2 };
        let max_execs: usize = if tier == "thorough" { 200_000 } else { 30_000 };
        let mut rs = crate::c06r::RStats::default();
        for (i, p) in crate::c06r::programs(tier).iter().enumerate() {
            if i % wn != wi {
                continue;
            }
            crate::c06r::check_program(p, bound, max_execs, &mut rs);
        }
        vcore::par::worker_emit(&json!({"programs":rs.programs,"executions":rs.executions,"points":rs.points,"capped":rs.capped,"incomplete":rs.incomplete,"pairs":rs.judged_pairs,"outcomes":rs.outcomes.iter().collect::<Vec<_>>(),"violations":rs.viol.to_json()}));
        return 0;
    }
    let thorough = tier == "thorough";
    let depth: usize = std::env::var("C06_DEPTH").ok().and_then(|s| s.parse().ok()).unwrap_or(if thorough { 4 } else { 3 });
    // one job per (metric, dim, scale, first letter) + one per (metric, dim, scale) for the long
    // tombstone histories (first = usize::MAX)
    let nletters = alphabet(3, 1.0).len();
    let mut jobs: Vec<(String, usize, f32, usize)> = Vec::new();
    for metric in ["cosine", "euclidean", "inner_product"] {
        for dim in dims(tier) {
            for scale in [1.0f32, 3.0] {
                jobs.push((metric.to_string(), dim, scale, usize::MAX));
                if scale == 1.0 && (dim == 3 || dim == 9) {
                    jobs.push((metric.to_string(), dim, scale, usize::MAX - 1));
                }
                for first in 0..nletters {
                    jobs.push((metric.to_string(), dim, scale, first));
                }
            }
        }
    }
    let results = vcore::par::par_map(&jobs, |_i, (metric, dim, scale, first)| {
        let rt = tokio::runtime::Builder::new_multi_thread().worker_threads(1).max_blocking_threads(4).enable_all().build().unwrap();
        let mut st = Stats::default();
        if *first == usize::MAX - 1 {
            st.large_batch_items = large_batch_section(metric, *dim, &mut st);
            return st;
        }
        let cfg = cfg_for(metric, *dim, 2, 4, 64);
        let alpha = alphabet(*dim, *scale);
        if *first != usize::MAX {
            for seq in sequences(alpha.len(), depth, &[*first]) {
                let mut case = Case { cfg: cfg.clone(), scale: *scale, history: seq.iter().map(|&i| alpha[i].clone()).collect(), pure: None };
                run_case(&case, &rt, &mut st, thorough, false);
                for e in ["sync", "batch", "timed"] {
                    case.pure = Some(e.to_string());
                    run_case(&case, &rt, &mut st, thorough, false);
                }
            }
            return st;
        }
        // tombstone-heavy history: sweep after every step from the first delete on
        let tcase = Case { cfg: cfg_for(metric, *dim, 64, 128, 48), scale: *scale, history: tombstone_history(*dim, *scale), pure: None };
        run_case(&tcase, &rt, &mut st, thorough, false);
        st.tombstone_max_pct = 95;
        // ... and continue it past the index capacity so tombstone compaction runs
        let mut h2 = tombstone_history(*dim, *scale);
        let lat = lattice(*dim, *scale);
        for id in 100..112u64 {
            h2.push(TOp::Ins { id, v: lat[(id as usize) % lat.len()].clone(), m: Meta::new() });
        }
        let tcase2 = Case { cfg: cfg_for(metric, *dim, 64, 128, 48), scale: *scale, history: h2, pure: None };
        run_case(&tcase2, &rt, &mut st, thorough, false);
        st
    });
    let mut tot = Stats::default();
    for s in results {
        tot.histories += s.histories;
        tot.searches += s.searches;
        tot.results += s.results;
        tot.nonempty += s.nonempty;
        tot.states.extend(s.states);
        tot.paths.extend(s.paths);
        tot.viol.merge(s.viol);
        tot.tombstone_max_pct = tot.tombstone_max_pct.max(s.tombstone_max_pct);
        tot.degraded_timed += s.degraded_timed;
        tot.large_batch_items += s.large_batch_items;
    }
    let mut ev = Evidence::new("C06", tier, "model_checking");
    ev.set("timed_answers_produced_under_timeout_or_breaker_and_checked_for_soundness_only", tot.degraded_timed);
    ev.set("large_batch", json!({"batch_sizes": large_batch_sizes(), "items_checked": tot.large_batch_items, "rule": "metric x dim {3,9}: 40 drained documents + 3 recent writes + an overwrite + a delete; one batch search per size (sizes straddle the cold tier's internal chunk = max(32, 8 x rayon threads)) x (k,ef) {(5,default),(1,64)} through TieredEngine::knn_search_batch and HnswBackend::knn_search_batch; every item passes the soundness oracle for ITS query and carries the distances of a single search for that query"}));
    let mut rep = Reporter::new("C06");
    rep.report_sigbag(&tot.viol);
    // concurrent slice: search racing a compaction-triggering insert, in worker processes
    {
        let rres = vcore::par::run_workers(vcore::par::jobs(), &[]);
        let mut rt: BTreeMap<&str, u64> = BTreeMap::new();
        let mut routcomes: BTreeSet<String> = BTreeSet::new();
        for r in &rres {
            for k in ["programs", "executions", "points", "capped", "incomplete", "pairs"] {
                *rt.entry(k).or_insert(0) += r[k].as_u64().unwrap_or(0);
            }
            for o in r["outcomes"].as_array().unwrap() {
                routcomes.insert(o.as_str().unwrap_or("").to_string());
            }
            rep.report_bag(&r["violations"]);
        }
        ev.set("concurrent_slice", json!({"programs": rt["programs"], "scheduled_executions": rt["executions"], "scheduling_points": rt["points"], "programs_capped": rt["capped"], "executions_not_completed": rt["incomplete"], "judged_result_pairs": rt["pairs"], "distinct_answers": routcomes.len(),
            "rule": "beyond the statement's sequential quantifier: one searcher (knn_search, knn_search_batch, HnswBackend::knn_search, HnswBackend::knn_search_batch; k 1 and 3) x one writer (insert of a new id / overwrite) on a FULL capacity-3 index whose slot 0 is a tombstone, so the write runs tombstone compaction, which renumbers the internal ids the search maps back to documents after it has released the index lock; every schedule with <= 2 (3) preemptions at lock granularity; every returned (document, distance) pair must be the true distance to a version of THAT document that existed during the race"}));
    }
    ev.set("states", tot.states.len() as u64);
    ev.set("transitions", tot.searches);
    ev.set("traces_validated_against_impl", tot.histories);
    ev.set("evaluations", tot.searches);
    ev.set("distinct_nontrivial", tot.nonempty);
    ev.set("rule", format!("for every metric x dimension {:?} x input scale {{1 (unit), 3 (un-normalised)}}: all histories of length {depth} over a 12-letter alphabet (inserts/overwrites of ids 1-3 with lattice vectors, deletes, forced drain, bulk loads that overwrite / add documents behind the recent-write tier) plus a 40-insert/38-delete history (95 % tombstones) and its continuation past the index capacity (tombstone compaction); after each history every lattice query x k x ef {{default,1,10000}} is issued through knn_search, knn_search_batch, HnswBackend::knn_search and knn_search_with_timeouts, and — because a search that meets a stale mirror scrubs it — each history is replayed on three more fresh engines whose queries (k = 1000 first) go through ONE entry point only (first-touch pass); oracle = f64 brute force: <=k, distinct, live, true distance within 1e-4*max(1,d), sorted, and every live document still in the recent-write tier that is strictly closer than the k-th result is present; non-trivial = searches with a non-empty answer", dims(tier)));
    ev.set("samples", json!([{"metric":"cosine","dim":dims(tier)[1],"history":alphabet(dims(tier)[1],1.0).iter().take(3).map(|o| o.short()).collect::<Vec<_>>(),"query":lattice(dims(tier)[1],1.0)[0]}]));
    ev.set("exhaustive", true);
    ev.set("result_rows_checked", tot.results);
    ev.set("execution_paths_seen", tot.paths.iter().cloned().collect::<Vec<_>>());
    ev.assume("history / lattice vectors are exactly unit length or far outside the engine's [0.98,1.02] squared-norm pass-through band, so 1-dot and 1-cos agree to float tolerance; the large-batch section's generated queries do fall inside the band (e.g. [0.797,-0.606,-0.008], squared norm 1.0025): there the engine's documented normalisation tolerance uses the vector as given, and the oracle accepts exactly 1 - <q',v'> (x' = x inside the band, x/|x| outside), nothing looser");
    ev.assume("the timed path runs with 60 s tier timeouts; an answer during which the engine's timeout / partial-result / breaker / shedding counters moved (the execution path alone does not tell) is checked for soundness only, as the statement exempts it from completeness");
    ev.violations = rep.violations as i64;
    ev.write();
    println!(
        "C06 {tier}: jobs={} histories={} searches={} result_rows={} states={} paths={:?} violations={}",
        jobs.len(), tot.histories, tot.searches, tot.results, tot.states.len(), tot.paths, rep.violations
    );
    rep.finish()
}

fn run_replay(path: &str) -> i32 {
    let v: Value = serde_json::from_str(&std::fs::read_to_string(path).expect("read")).expect("json");
    let rt = tokio::runtime::Builder::new_multi_thread().worker_threads(1).enable_all().build().unwrap();
    let mut st = Stats::default();
    if v["case"]["case"]["section"] == "large-batch" {
        let _ = large_batch_section(v["case"]["case"]["metric"].as_str().unwrap_or("cosine"), v["case"]["case"]["dim"].as_u64().unwrap_or(3) as usize, &mut st);
    } else {
        let case: Case = serde_json::from_value(v["case"]["case"].clone()).unwrap();
        run_case(&case, &rt, &mut st, true, false);
    }
    if let Some((s, r)) = st.viol.any_first() {
        println!("replay: reproduced {s}: {}", r["detail"]);
        println!("VIOLATION property=C06 replay={path}");
        1
    } else {
        println!("replay: no violation");
        0
    }
}
