//! C06 — search results are sound and reflect acknowledged recent writes.
//! Histories x dimensions (SIMD tails) x metrics x k x ef x query lattice x entry points.

use crate::te::*;
use kyrodb_engine::config::DistanceMetric;
use kyrodb_engine::SearchResult;
use serde_json::{json, Value};
use std::collections::{BTreeMap, BTreeSet};
use vcore::evidence::Evidence;
use vcore::exec::sequences;
use vcore::findings::{Reporter, SigBag};
use vcore::Meta;

/// Lattice vectors of dimension `dim`: axis vectors at the SIMD-relevant coordinates, pairwise
/// sums, a negative axis, and a tail-only vector; `scale` makes them un-normalised.
pub fn lattice(dim: usize, scale: f32) -> Vec<Vec<f32>> {
    let mut coords: BTreeSet<usize> = BTreeSet::new();
    coords.insert(0);
    coords.insert(dim - 1);
    coords.insert(dim / 2);
    if dim > 8 {
        coords.insert(8 * ((dim - 1) / 8)); // first coordinate of the SIMD tail
    }
    let cs: Vec<usize> = coords.into_iter().collect();
    let mut out: Vec<Vec<f32>> = Vec::new();
    for &c in &cs {
        let mut v = vec![0.0f32; dim];
        v[c] = scale;
        out.push(v);
    }
    // negative first axis
    let mut n = vec![0.0f32; dim];
    n[0] = -scale;
    out.push(n);
    if dim >= 2 {
        // 3-4-5 combinations (exactly unit when scale = 1)
        let mut a = vec![0.0f32; dim];
        a[0] = 0.6 * scale;
        a[dim - 1] = 0.8 * scale;
        out.push(a);
        let mut b = vec![0.0f32; dim];
        b[0] = 0.8 * scale;
        b[dim - 1] = -0.6 * scale;
        out.push(b);
    }
    out.sort_by(|x, y| x.partial_cmp(y).unwrap());
    out.dedup();
    out
}

pub fn true_distance(metric: DistanceMetric, q: &[f32], v: &[f32]) -> f64 {
    match metric {
        DistanceMetric::Euclidean => q.iter().zip(v).map(|(a, b)| ((*a as f64) - (*b as f64)).powi(2)).sum::<f64>().sqrt(),
        _ => {
            let dot: f64 = q.iter().zip(v).map(|(a, b)| (*a as f64) * (*b as f64)).sum();
            let nq: f64 = q.iter().map(|a| (*a as f64).powi(2)).sum::<f64>().sqrt();
            let nv: f64 = v.iter().map(|a| (*a as f64).powi(2)).sum::<f64>().sqrt();
            1.0 - (dot / (nq * nv)).clamp(-1.0, 1.0)
        }
    }
}

pub struct SearchCheck<'a> {
    pub metric: DistanceMetric,
    pub model: &'a BTreeMap<u64, Vec<f32>>,
    pub hot_ids: &'a BTreeSet<u64>,
}

/// Validate one result list; returns Err(symptom, detail).
pub fn check_results(sc: &SearchCheck, q: &[f32], k: usize, res: &[SearchResult], degraded: bool) -> Result<(), (String, String)> {
    let tol = |d: f64| 1e-4 * d.abs().max(1.0);
    if res.len() > k {
        return Err(("more-than-k".into(), format!("{} results for k={k}", res.len())));
    }
    let mut seen = BTreeSet::new();
    let mut prev = f32::NEG_INFINITY;
    for r in res {
        if !seen.insert(r.doc_id) {
            return Err(("duplicate-id".into(), format!("doc {} twice", r.doc_id)));
        }
        let Some(v) = sc.model.get(&r.doc_id) else {
            return Err(("non-live-document".into(), format!("doc {} is not live", r.doc_id)));
        };
        let td = true_distance(sc.metric, q, v);
        if ((r.distance as f64) - td).abs() > tol(td) {
            return Err(("wrong-distance".into(), format!("doc {} reported {} true {}", r.doc_id, r.distance, td)));
        }
        if r.distance < prev {
            return Err(("not-sorted".into(), format!("distance {} after {}", r.distance, prev)));
        }
        prev = r.distance;
    }
    if degraded {
        return Ok(());
    }
    // recent-write completeness: a live doc still mirrored in the hot tier that is strictly closer
    // than the k-th returned document must be present
    let kth: f64 = if res.len() == k { res[k - 1].distance as f64 } else { f64::INFINITY };
    for id in sc.hot_ids {
        if seen.contains(id) {
            continue;
        }
        if let Some(v) = sc.model.get(id) {
            let td = true_distance(sc.metric, q, v);
            if td + tol(td) + tol(kth.min(1e9)) < kth {
                return Err(("recent-write-missing".into(), format!("doc {id} (in the recent-write tier, true distance {td}) is absent although the k-th result is at {kth}")));
            }
        }
    }
    Ok(())
}

#[derive(Default)]
pub struct Stats {
    pub histories: u64,
    pub searches: u64,
    pub results: u64,
    pub nonempty: u64,
    pub states: BTreeSet<u64>,
    pub paths: BTreeSet<String>,
    pub viol: SigBag,
    pub tombstone_max_pct: u64,
    pub degraded_timed: u64,
}

#[derive(Clone, Debug, serde::Serialize, serde::Deserialize)]
pub struct Case {
    pub cfg: TeCfg,
    pub scale: f32,
    pub history: Vec<TOp>,
    /// None: the mixed sweep (all entry points per query). Some(e): first-touch pass — a fresh
    /// engine, and every query goes through entry point `e` only ("sync" | "batch" | "timed"),
    /// k = 1000 first. Searches are not neutral (a search that meets a stale recent-write mirror
    /// scrubs it), so in the mixed sweep the first entry point would always clean up for the rest.
    #[serde(default)]
    pub pure: Option<String>,
}

fn alphabet(dim: usize, scale: f32) -> Vec<TOp> {
    let lat = lattice(dim, scale);
    let pick = [lat[0].clone(), lat[lat.len() - 1].clone(), lat[lat.len() / 2].clone()];
    let mut v = Vec::new();
    for id in 1..=3u64 {
        for (j, p) in pick.iter().enumerate() {
            if (id as usize + j) % 3 == 0 && id != 1 {
                continue; // keep the alphabet small: id 1 gets all three vectors (overwrites)
            }
            v.push(TOp::Ins { id, v: p.clone(), m: Meta::new() });
        }
    }
    v.push(TOp::Del { id: 1 });
    v.push(TOp::Del { id: 2 });
    v.push(TOp::Flush { force: true });
    // bulk loads bypass the recent-write tier: an overwrite that leaves an older mirror behind,
    // and a new document that has no mirror at all
    v.push(TOp::BulkLoad { docs: vec![(1, pick[1].clone(), Meta::new())] });
    v.push(TOp::BulkLoad { docs: vec![(2, pick[0].clone(), Meta::new()), (3, pick[2].clone(), Meta::new())] });
    v
}

/// Counters that move when a timed answer was produced under a timeout, an open circuit
/// breaker or load shedding (the execution path alone does not tell).
fn degradation_counters(te: &Te) -> u64 {
    let s = te.engine.stats();
    s.hot_tier_timeouts + s.cold_tier_timeouts + s.partial_results_returned + s.queries_rejected + s.circuit_breaker_rejections + s.worker_saturation_count
}

fn sweep_pure(te: &Te, rt: &tokio::runtime::Runtime, model: &BTreeMap<u64, Vec<f32>>, case: &Case, st: &mut Stats, entry: &str) {
    let metric = te.cfg.metric();
    let hot_ids: BTreeSet<u64> = te.engine.hot_tier().snapshot_doc_ids().into_iter().collect();
    let sc = SearchCheck { metric, model, hot_ids: &hot_ids };
    let queries = lattice(te.cfg.dim, 1.0);
    for &k in &[1000usize, 1, 2] {
        for (qidx, q) in queries.iter().enumerate() {
            st.searches += 1;
            let out: Result<Vec<(Vec<f32>, Vec<SearchResult>, String)>, String> = match entry {
                "sync" => te.engine.knn_search_with_ef_detailed(q, k, None).map(|(r, p)| vec![(q.clone(), r, format!("{p:?}"))]).map_err(|e| format!("{e:#}")),
                "batch" => {
                    let q2 = queries[(qidx + 1) % queries.len()].clone();
                    te.engine
                        .knn_search_batch_with_ef_detailed(&[q.clone(), q2.clone()], k, None)
                        .map(|all| all.into_iter().enumerate().map(|(i, (r, p))| (if i == 0 { q.clone() } else { q2.clone() }, r, format!("{p:?}"))).collect())
                        .map_err(|e| format!("{e:#}"))
                }
                _ => {
                    let before = degradation_counters(te);
                    let r = rt.block_on(te.engine.knn_search_with_timeouts_with_ef(q, k, None));
                    let degraded_now = degradation_counters(te) != before;
                    r.map(|(r, p)| vec![(q.clone(), r, if degraded_now { "Degraded".to_string() } else { format!("{p:?}") })]).map_err(|e| format!("{e:#}"))
                }
            };
            let name = match entry {
                "sync" => "knn_search",
                "batch" => "knn_search_batch",
                _ => "knn_search_with_timeouts",
            };
            match out {
                Ok(list) => {
                    for (qq, res, path) in list {
                        st.paths.insert(format!("first-touch:{entry}:{path}"));
                        st.results += res.len() as u64;
                        if !res.is_empty() {
                            st.nonempty += 1;
                        }
                        let degraded = path == "Degraded";
                        if let Err((sym, d)) = check_results(&sc, &qq, k, &res, degraded) {
                            st.viol.push((
                                format!("C06|{name}[{path}]|{sym}|{}", vcore::metric_name(metric)),
                                json!({"engine":"seqmc","check":"C06","case":case,"query":qq,"k":k,"ef":null,"entry":name,"detail":d}),
                            ));
                            return;
                        }
                    }
                }
                Err(e) => {
                    st.viol.push((format!("C06|{name}|error|{}", vcore::metric_name(metric)), json!({"engine":"seqmc","check":"C06","case":case,"query":q,"k":k,"entry":name,"detail":e})));
                    return;
                }
            }
        }
    }
}

fn sweep(te: &Te, rt: &tokio::runtime::Runtime, model: &BTreeMap<u64, Vec<f32>>, case: &Case, st: &mut Stats, thorough: bool) {
    if let Some(e) = &case.pure {
        return sweep_pure(te, rt, model, case, st, e);
    }
    let metric = te.cfg.metric();
    let dim = te.cfg.dim;
    let hot_ids: BTreeSet<u64> = te.engine.hot_tier().snapshot_doc_ids().into_iter().collect();
    let sc = SearchCheck { metric, model, hot_ids: &hot_ids };
    let mut queries = lattice(dim, 1.0);
    // un-normalised queries: always under the Euclidean metric (nothing normalises them there)
    if thorough || matches!(metric, DistanceMetric::Euclidean) {
        queries.extend(lattice(dim, 2.5));
    }
    let ks: &[usize] = if thorough { &[1, 2, 3, 1000] } else { &[1, 2, 1000] };
    let efs: &[Option<usize>] = &[None, Some(1), Some(10_000)];
    let mut fail = |st: &mut Stats, entry: &str, sym: String, detail: String, q: &Vec<f32>, k: usize, ef: Option<usize>| {
        st.viol.push((
            format!("C06|{entry}|{sym}|{}", vcore::metric_name(metric)),
            json!({"engine":"seqmc","check":"C06","case":case,"query":q,"k":k,"ef":ef,"entry":entry,"detail":detail}),
        ));
    };
    for (qidx, q) in queries.iter().enumerate() {
        // the batch pairs the query just cached by the single search (a hit) with the next lattice
        // query, which has not been searched yet (a miss): mixed hit/miss batches
        let next_q = queries[(qidx + 1) % queries.len()].clone();
        for &k in ks {
            for &ef in efs {
                // 1. sync single search
                st.searches += 1;
                match te.engine.knn_search_with_ef_detailed(q, k, ef) {
                    Ok((res, path)) => {
                        st.paths.insert(format!("{path:?}"));
                        st.results += res.len() as u64;
                        if !res.is_empty() {
                            st.nonempty += 1;
                        }
                        // a cache hit is C07's business, but it must still be sound
                        if let Err((s, d)) = check_results(&sc, q, k, &res, false) {
                            fail(st, &format!("knn_search[{path:?}]"), s, d, q, k, ef);
                            return;
                        }
                    }
                    Err(e) => {
                        fail(st, "knn_search", "error".into(), format!("{e:#}"), q, k, ef);
                        return;
                    }
                }
                // 2. batch
                st.searches += 1;
                match te.engine.knn_search_batch_with_ef_detailed(&[q.clone(), next_q.clone()], k, ef) {
                    Ok(all) => {
                        for (qi, (res, path)) in all.iter().enumerate() {
                            let qq = if qi == 0 { q } else { &next_q };
                            st.paths.insert(format!("batch:{path:?}"));
                            if let Err((s, d)) = check_results(&sc, qq, k, res, false) {
                                fail(st, &format!("knn_search_batch[{path:?}]"), s, d, qq, k, ef);
                                return;
                            }
                        }
                    }
                    Err(e) => {
                        fail(st, "knn_search_batch", "error".into(), format!("{e:#}"), q, k, ef);
                        return;
                    }
                }
                // 3. cold tier directly (no recent-write completeness: the hot tier is not consulted)
                st.searches += 1;
                if !te.engine.cold_tier().is_empty() {
                    match te.engine.cold_tier().knn_search_with_ef(&normalise_for(metric, q), k, ef) {
                        Ok(res) => {
                            let none = BTreeSet::new();
                            let sc2 = SearchCheck { metric, model, hot_ids: &none };
                            if let Err((s, d)) = check_results(&sc2, q, k, &res, false) {
                                fail(st, "HnswBackend::knn_search", s, d, q, k, ef);
                                return;
                            }
                        }
                        Err(e) => {
                            fail(st, "HnswBackend::knn_search", "error".into(), format!("{e:#}"), q, k, ef);
                            return;
                        }
                    }
                }
            }
            // 4. timed path (generous timeouts: a degraded answer is excluded by the statement)
            st.searches += 1;
            let deg_before = degradation_counters(te);
            match rt.block_on(te.engine.knn_search_with_timeouts_with_ef(q, k, Some(64))) {
                Ok((res, path)) => {
                    st.paths.insert(format!("timed:{path:?}"));
                    let degraded = format!("{path:?}") == "Degraded" || degradation_counters(te) != deg_before;
                    if degraded {
                        st.degraded_timed += 1;
                    }
                    if let Err((s, d)) = check_results(&sc, q, k, &res, degraded) {
                        fail(st, &format!("knn_search_with_timeouts[{path:?}]"), s, d, q, k, Some(64));
                        return;
                    }
                }
                Err(e) => {
                    fail(st, "knn_search_with_timeouts", "error".into(), format!("{e:#}"), q, k, Some(64));
                    return;
                }
            }
        }
    }
}

fn normalise_for(metric: DistanceMetric, q: &[f32]) -> Vec<f32> {
    if matches!(metric, DistanceMetric::Euclidean) {
        return q.to_vec();
    }
    let n: f64 = q.iter().map(|a| (*a as f64).powi(2)).sum::<f64>().sqrt();
    q.iter().map(|a| ((*a as f64) / n) as f32).collect()
}

pub fn run_case(case: &Case, rt: &tokio::runtime::Runtime, st: &mut Stats, thorough: bool, sweep_every_step: bool) {
    st.histories += 1;
    let te = Te::new(&case.cfg);
    let mut model: BTreeMap<u64, Vec<f32>> = BTreeMap::new();
    let n = case.history.len();
    for (i, op) in case.history.iter().enumerate() {
        match op {
            TOp::Ins { id, v, m } => {
                if te.engine.insert(*id, v.clone(), vcore::to_hash(m)).is_err() {
                    return;
                }
                model.insert(*id, v.clone());
            }
            TOp::Del { id } => {
                let _ = te.engine.delete(*id);
                model.remove(id);
            }
            TOp::Flush { force } => {
                let _ = te.engine.flush_hot_tier(*force);
            }
            TOp::BulkLoad { docs } => {
                let d: Vec<(u64, Vec<f32>, std::collections::HashMap<String, String>)> = docs.iter().map(|(id, v, m)| (*id, v.clone(), vcore::to_hash(m))).collect();
                if te.engine.bulk_load_cold_tier(d).is_err() {
                    return;
                }
                for (id, v, _) in docs {
                    model.insert(*id, v.clone());
                }
            }
            _ => {}
        }
        if sweep_every_step || i + 1 == n {
            use std::hash::{Hash, Hasher};
            let mut h = std::collections::hash_map::DefaultHasher::new();
            format!("{:?}{:?}", model, te.engine.hot_tier().len()).hash(&mut h);
            st.states.insert(h.finish());
            let before = st.viol.len();
            sweep(&te, rt, &model, case, st, thorough);
            if st.viol.len() > before {
                return;
            }
        }
    }
}

fn dims(tier: &str) -> Vec<usize> {
    if tier == "thorough" {
        vec![1, 3, 7, 8, 9, 15, 16, 17, 33]
    } else {
        vec![3, 9, 17, 33]
    }
}

fn cfg_for(metric: &str, dim: usize, hot_soft: usize, hot_hard: usize, cap: usize) -> TeCfg {
    TeCfg {
        strategy: "lru".into(),
        l1a_capacity: 4,
        hot_soft,
        hot_hard,
        metric: metric.into(),
        dim,
        qcache_capacity: 4,
        qcache_threshold: 1.0,
        hnsw_capacity: cap,
    }
}

/// Long delete-heavy history: n inserts, all but two deleted (~95 % tombstones), then more inserts
/// than the remaining capacity so that tombstone compaction runs.
fn tombstone_history(dim: usize, scale: f32) -> Vec<TOp> {
    let lat = lattice(dim, scale);
    let mut h = Vec::new();
    let n = 40u64;
    for id in 1..=n {
        h.push(TOp::Ins { id, v: lat[(id as usize) % lat.len()].clone(), m: Meta::new() });
    }
    h.push(TOp::Flush { force: true });
    for id in 3..=n {
        h.push(TOp::Del { id });
    }
    h
}

pub fn run(tier: &str, replay: Option<&str>) -> i32 {
    if let Some(p) = replay {
        return run_replay(p);
    }
    let thorough = tier == "thorough";
    let depth: usize = std::env::var("C06_DEPTH").ok().and_then(|s| s.parse().ok()).unwrap_or(if thorough { 4 } else { 3 });
    // one job per (metric, dim, scale, first letter) + one per (metric, dim, scale) for the long
    // tombstone histories (first = usize::MAX)
    let nletters = alphabet(3, 1.0).len();
    let mut jobs: Vec<(String, usize, f32, usize)> = Vec::new();
    for metric in ["cosine", "euclidean", "inner_product"] {
        for dim in dims(tier) {
            for scale in [1.0f32, 3.0] {
                jobs.push((metric.to_string(), dim, scale, usize::MAX));
                for first in 0..nletters {
                    jobs.push((metric.to_string(), dim, scale, first));
                }
            }
        }
    }
    let results = vcore::par::par_map(&jobs, |_i, (metric, dim, scale, first)| {
        let rt = tokio::runtime::Builder::new_multi_thread().worker_threads(1).max_blocking_threads(4).enable_all().build().unwrap();
        let mut st = Stats::default();
        let cfg = cfg_for(metric, *dim, 2, 4, 64);
        let alpha = alphabet(*dim, *scale);
        if *first != usize::MAX {
            for seq in sequences(alpha.len(), depth, &[*first]) {
                let mut case = Case { cfg: cfg.clone(), scale: *scale, history: seq.iter().map(|&i| alpha[i].clone()).collect(), pure: None };
                run_case(&case, &rt, &mut st, thorough, false);
                for e in ["sync", "batch", "timed"] {
                    case.pure = Some(e.to_string());
                    run_case(&case, &rt, &mut st, thorough, false);
                }
            }
            return st;
        }
        // tombstone-heavy history: sweep after every step from the first delete on
        let tcase = Case { cfg: cfg_for(metric, *dim, 64, 128, 48), scale: *scale, history: tombstone_history(*dim, *scale), pure: None };
        run_case(&tcase, &rt, &mut st, thorough, false);
        st.tombstone_max_pct = 95;
        // ... and continue it past the index capacity so tombstone compaction runs
        let mut h2 = tombstone_history(*dim, *scale);
        let lat = lattice(*dim, *scale);
        for id in 100..112u64 {
            h2.push(TOp::Ins { id, v: lat[(id as usize) % lat.len()].clone(), m: Meta::new() });
        }
        let tcase2 = Case { cfg: cfg_for(metric, *dim, 64, 128, 48), scale: *scale, history: h2, pure: None };
        run_case(&tcase2, &rt, &mut st, thorough, false);
        st
    });
    let mut tot = Stats::default();
    for s in results {
        tot.histories += s.histories;
        tot.searches += s.searches;
        tot.results += s.results;
        tot.nonempty += s.nonempty;
        tot.states.extend(s.states);
        tot.paths.extend(s.paths);
        tot.viol.merge(s.viol);
        tot.tombstone_max_pct = tot.tombstone_max_pct.max(s.tombstone_max_pct);
        tot.degraded_timed += s.degraded_timed;
    }
    let mut ev = Evidence::new("C06", tier, "model_checking");
    ev.set("timed_answers_produced_under_timeout_or_breaker_and_checked_for_soundness_only", tot.degraded_timed);
    let mut rep = Reporter::new("C06");
    rep.report_sigbag(&tot.viol);
    ev.set("states", tot.states.len() as u64);
    ev.set("transitions", tot.searches);
    ev.set("traces_validated_against_impl", tot.histories);
    ev.set("evaluations", tot.searches);
    ev.set("distinct_nontrivial", tot.nonempty);
    ev.set("rule", format!("for every metric x dimension {:?} x input scale {{1 (unit), 3 (un-normalised)}}: all histories of length {depth} over a 12-letter alphabet (inserts/overwrites of ids 1-3 with lattice vectors, deletes, forced drain, bulk loads that overwrite / add documents behind the recent-write tier) plus a 40-insert/38-delete history (95 % tombstones) and its continuation past the index capacity (tombstone compaction); after each history every lattice query x k x ef {{default,1,10000}} is issued through knn_search, knn_search_batch, HnswBackend::knn_search and knn_search_with_timeouts, and — because a search that meets a stale mirror scrubs it — each history is replayed on three more fresh engines whose queries (k = 1000 first) go through ONE entry point only (first-touch pass); oracle = f64 brute force: <=k, distinct, live, true distance within 1e-4*max(1,d), sorted, and every live document still in the recent-write tier that is strictly closer than the k-th result is present; non-trivial = searches with a non-empty answer", dims(tier)));
    ev.set("samples", json!([{"metric":"cosine","dim":dims(tier)[1],"history":alphabet(dims(tier)[1],1.0).iter().take(3).map(|o| o.short()).collect::<Vec<_>>(),"query":lattice(dims(tier)[1],1.0)[0]}]));
    ev.set("exhaustive", true);
    ev.set("result_rows_checked", tot.results);
    ev.set("execution_paths_seen", tot.paths.iter().cloned().collect::<Vec<_>>());
    ev.assume("alphabet vectors are exactly unit length or far outside the engine's [0.98,1.02] pass-through band, so 1-dot and 1-cos agree to float tolerance");
    ev.assume("the timed path runs with 60 s tier timeouts; an answer during which the engine's timeout / partial-result / breaker / shedding counters moved (the execution path alone does not tell) is checked for soundness only, as the statement exempts it from completeness");
    ev.violations = rep.violations as i64;
    ev.write();
    println!(
        "C06 {tier}: jobs={} histories={} searches={} result_rows={} states={} paths={:?} violations={}",
        jobs.len(), tot.histories, tot.searches, tot.results, tot.states.len(), tot.paths, rep.violations
    );
    rep.finish()
}

fn run_replay(path: &str) -> i32 {
    let v: Value = serde_json::from_str(&std::fs::read_to_string(path).expect("read")).expect("json");
    let case: Case = serde_json::from_value(v["case"]["case"].clone()).unwrap();
    let rt = tokio::runtime::Builder::new_multi_thread().worker_threads(1).enable_all().build().unwrap();
    let mut st = Stats::default();
    run_case(&case, &rt, &mut st, true, false);
    if let Some((s, r)) = st.viol.any_first() {
        println!("replay: reproduced {s}: {}", r["detail"]);
        println!("VIOLATION property=C06 replay={path}");
        1
    } else {
        println!("replay: no violation");
        0
    }
}
