//! TieredEngine driver shared by C04 / C20 / C06 / C07 / C11: configurations, operation alphabet
//! including adversarial pokes through handles the harness keeps, and the read oracle.

use kyrodb_engine::cache_strategy::{AbTestSplitter, CacheStrategy, LearnedCacheStrategy, LruCacheStrategy};
use kyrodb_engine::coherence::VectorCoherenceToken;
use kyrodb_engine::config::DistanceMetric;
use kyrodb_engine::learned_cache::LearnedCachePredictor;
use kyrodb_engine::semantic_adapter::SemanticAdapter;
use kyrodb_engine::vector_cache::CachedVector;
use kyrodb_engine::{QueryHashCache, TieredEngine, TieredEngineConfig};
use serde::{Deserialize, Serialize};
use std::sync::Arc;
use std::time::{Duration, Instant};
use vcore::model::{stored_matches_input, RefModel};
use vcore::{bits, to_hash, to_meta, Meta};

#[derive(Clone, Debug, Serialize, Deserialize, PartialEq)]
pub struct TeCfg {
    pub strategy: String, // lru | learned | learned_semantic | ab
    pub l1a_capacity: usize,
    pub hot_soft: usize,
    pub hot_hard: usize,
    pub metric: String,
    pub dim: usize,
    pub qcache_capacity: usize,
    pub qcache_threshold: f32,
    pub hnsw_capacity: usize,
}

impl TeCfg {
    pub fn label(&self) -> String {
        format!(
            "{}/l1a{}/hot{}-{}/{}/d{}/qc{}",
            self.strategy, self.l1a_capacity, self.hot_soft, self.hot_hard, self.metric, self.dim, self.qcache_capacity
        )
    }
    pub fn metric(&self) -> DistanceMetric {
        vcore::metric_from(&self.metric)
    }
}

pub struct Te {
    pub engine: Arc<TieredEngine>,
    pub strategy: Arc<dyn CacheStrategy>,
    pub qcache: Arc<QueryHashCache>,
    pub cfg: TeCfg,
}

fn mk_strategy(kind: &str, cap: usize) -> Arc<dyn CacheStrategy> {
    match kind {
        "lru" => Arc::new(LruCacheStrategy::new(cap)),
        "learned" => Arc::new(LearnedCacheStrategy::new(cap, LearnedCachePredictor::new(cap.max(1)).expect("predictor"))),
        "learned_semantic" => Arc::new(LearnedCacheStrategy::new_with_semantic(
            cap,
            LearnedCachePredictor::new(cap.max(1)).expect("predictor"),
            SemanticAdapter::new(),
        )),
        "ab" => {
            // the A/B splitter shares the capacity between its halves
            let a = (cap / 2).max(1);
            let b = (cap - cap / 2).max(1);
            Arc::new(AbTestSplitter::new(
                Arc::new(LruCacheStrategy::new(a)),
                Arc::new(LearnedCacheStrategy::new(b, LearnedCachePredictor::new(b.max(1)).expect("predictor"))),
            ))
        }
        other => panic!("unknown strategy {other}"),
    }
}

/// Total L1a capacity the configuration allows (both halves for A/B).
pub fn l1a_bound(cfg: &TeCfg) -> usize {
    if cfg.strategy == "ab" {
        (cfg.l1a_capacity / 2).max(1) + (cfg.l1a_capacity - cfg.l1a_capacity / 2).max(1)
    } else {
        cfg.l1a_capacity
    }
}

pub fn engine_config(cfg: &TeCfg, data_dir: Option<String>) -> TieredEngineConfig {
    TieredEngineConfig {
        hot_tier_max_size: cfg.hot_soft,
        hot_tier_hard_limit: cfg.hot_hard,
        hot_tier_max_age: Duration::from_secs(3600),
        hnsw_max_elements: cfg.hnsw_capacity,
        embedding_dimension: cfg.dim,
        hnsw_distance: cfg.metric(),
        data_dir,
        snapshot_interval: 3,
        max_wal_size_bytes: 1,
        flush_interval: Duration::from_nanos(1),
        // generous tier timeouts: the statement exempts answers produced under a timeout, and a
        // loaded machine must not turn ordinary answers into degraded ones
        cache_timeout_ms: 60_000,
        hot_tier_timeout_ms: 60_000,
        cold_tier_timeout_ms: 60_000,
        ..TieredEngineConfig::default()
    }
}

impl Te {
    pub fn new(cfg: &TeCfg) -> Te {
        Self::new_in(cfg, None)
    }
    pub fn new_in(cfg: &TeCfg, data_dir: Option<String>) -> Te {
        let strategy = mk_strategy(&cfg.strategy, cfg.l1a_capacity);
        let qcache = Arc::new(QueryHashCache::new(cfg.qcache_capacity, cfg.qcache_threshold));
        let engine = TieredEngine::new_with_shared_strategy(
            strategy.clone(),
            qcache.clone(),
            vec![],
            vec![],
            engine_config(cfg, data_dir),
        )
        .expect("engine");
        Te { engine: Arc::new(engine), strategy, qcache, cfg: cfg.clone() }
    }
}

#[derive(Clone, Debug, Serialize, Deserialize, PartialEq)]
pub enum TOp {
    Ins { id: u64, v: Vec<f32>, m: Meta },
    Del { id: u64 },
    BatchDel { ids: Vec<u64> },
    UpdMeta { id: u64, m: Meta, merge: bool },
    BulkLoad { docs: Vec<(u64, Vec<f32>, Meta)> },
    Flush { force: bool },
    Search { q: Vec<f32>, k: usize },
    /// one background-task tick (coherence audit + threshold drain) on a paused tokio clock
    Tick,
    /// plant a stale L1a entry for `id`: variant 0 = older version + old payload (valid digest),
    /// 1 = canonical version number + different payload with its own valid digest,
    /// 2 = canonical token + payload that does not match it
    PokeL1a { id: u64, variant: u8 },
    /// same three variants as a hot-tier mirror entry
    PokeHot { id: u64, variant: u8 },
}

impl TOp {
    pub fn short(&self) -> String {
        match self {
            TOp::Ins { id, v, m } => format!("I({id},{v:?},{m:?})"),
            TOp::Del { id } => format!("D({id})"),
            TOp::BatchDel { ids } => format!("BD{ids:?}"),
            TOp::UpdMeta { id, m, merge } => format!("UM({id},{m:?},{})", if *merge { "merge" } else { "replace" }),
            TOp::BulkLoad { docs } => format!("BULK{:?}", docs.iter().map(|d| d.0).collect::<Vec<_>>()),
            TOp::Flush { force } => format!("FLUSH({})", if *force { "force" } else { "threshold" }),
            TOp::Tick => "TICK".into(),
            TOp::Search { q, k } => format!("SEARCH({q:?},k={k})"),
            TOp::PokeL1a { id, variant } => format!("POKE-L1A({id},v{variant})"),
            TOp::PokeHot { id, variant } => format!("POKE-HOT({id},v{variant})"),
        }
    }
    pub fn is_poke(&self) -> bool {
        matches!(self, TOp::PokeL1a { .. } | TOp::PokeHot { .. })
    }
}

pub fn poke_vector(dim: usize) -> Vec<f32> {
    // a unit vector no write in the alphabet uses, so a read that returns it is unmistakable
    let mut v = vec![0.0f32; dim];
    v[0] = -0.6;
    v[dim - 1] -= 0.8;
    if dim == 1 {
        v[0] = -1.0;
    }
    v
}

fn poke_payload(te: &Te, id: u64, variant: u8) -> (Vec<f32>, VectorCoherenceToken) {
    let pv = poke_vector(te.cfg.dim);
    let canon = te.engine.cold_tier().current_coherence_token(id);
    match variant {
        0 => (pv.clone(), VectorCoherenceToken::for_embedding(canon.map(|c| c.version.saturating_sub(1)).unwrap_or(1), &pv)),
        1 => (pv.clone(), VectorCoherenceToken::for_embedding(canon.map(|c| c.version).unwrap_or(1), &pv)),
        _ => match canon {
            Some(c) => (pv.clone(), c),
            None => (pv.clone(), VectorCoherenceToken::for_embedding(7, &[9.0f32])),
        },
    }
}

/// Apply an operation to the engine and the model. Returns Err(description) on a mismatch of
/// the operation's own return value.
pub fn apply(te: &Te, model: &mut RefModel, op: &TOp, rt: Option<&tokio::runtime::Runtime>) -> Result<(), String> {
    match op {
        TOp::Ins { id, v, m } => {
            te.engine.insert(*id, v.clone(), to_hash(m)).map_err(|e| format!("insert failed: {e:#}"))?;
            model.docs.insert(*id, (v.clone(), m.clone()));
        }
        TOp::Del { id } => {
            let got = te.engine.delete(*id).map_err(|e| format!("delete failed: {e:#}"))?;
            let want = model.docs.remove(id).is_some();
            // a planted hot-only orphan legitimately makes delete report "found"; the return value
            // is only compared when no poke targeted this id (handled by the caller via `strict_ret`)
            if got != want {
                return Err(format!("delete({id}) returned {got}, model {want}"));
            }
        }
        TOp::BatchDel { ids } => {
            let got = te.engine.batch_delete(ids).map_err(|e| format!("batch_delete failed: {e:#}"))?;
            let mut want = 0;
            let mut uniq = ids.clone();
            uniq.sort_unstable();
            uniq.dedup();
            for id in uniq {
                if model.docs.remove(&id).is_some() {
                    want += 1;
                }
            }
            if got != want {
                return Err(format!("batch_delete{ids:?} returned {got}, model {want}"));
            }
        }
        TOp::UpdMeta { id, m, merge } => {
            let got = te.engine.update_metadata(*id, to_hash(m), *merge).map_err(|e| format!("update_metadata failed: {e:#}"))?;
            let want = match model.docs.get_mut(id) {
                None => false,
                Some((_, cur)) => {
                    if *merge {
                        for (k, v) in m {
                            cur.insert(k.clone(), v.clone());
                        }
                    } else {
                        *cur = m.clone();
                    }
                    true
                }
            };
            if got != want {
                return Err(format!("update_metadata({id}) returned {got}, model {want}"));
            }
        }
        TOp::BulkLoad { docs } => {
            let d: Vec<_> = docs.iter().map(|(id, v, m)| (*id, v.clone(), to_hash(m))).collect();
            let (loaded, failed, _, _) = te.engine.bulk_load_cold_tier(d).map_err(|e| format!("bulk_load failed: {e:#}"))?;
            if failed != 0 || loaded as usize != docs.len() {
                return Err(format!("bulk_load loaded={loaded} failed={failed}"));
            }
            for (id, v, m) in docs {
                model.docs.insert(*id, (v.clone(), m.clone()));
            }
        }
        TOp::Flush { force } => {
            te.engine.flush_hot_tier(*force).map_err(|e| format!("flush failed: {e:#}"))?;
        }
        TOp::Search { q, k } => {
            let _ = te.engine.knn_search(q, *k);
        }
        TOp::Tick => {
            if let Some(rt) = rt {
                rt.block_on(async {
                    tokio::time::advance(Duration::from_millis(1)).await;
                    for _ in 0..4 {
                        tokio::task::yield_now().await;
                    }
                });
            }
        }
        TOp::PokeL1a { id, variant } => {
            let (v, tok) = poke_payload(te, *id, *variant);
            te.strategy.insert_cached(CachedVector { doc_id: *id, embedding: v, coherence: tok, distance: 0.0, cached_at: Instant::now() });
        }
        TOp::PokeHot { id, variant } => {
            let (v, tok) = poke_payload(te, *id, *variant);
            let mut m = std::collections::HashMap::new();
            m.insert("poked".to_string(), "yes".to_string());
            te.engine.hot_tier().insert_with_coherence(*id, v, m, tok);
        }
    }
    Ok(())
}

/// Issue every read flavour for every id and compare with the model.
pub fn check_reads(te: &Te, model: &RefModel, ids: &[u64]) -> Result<u64, (String, String)> {
    check_reads_first(te, model, ids, 0)
}

/// Read flavours: 0 query, 1 get_document_with_metadata, 2 get_embedding_cache_aware,
/// 3 get_metadata, 4 exists, 5 bulk_query(with embeddings), 6 bulk_query(without).
/// `first` is issued FIRST for every id (then the rest in order): reads are not neutral — a point
/// query that meets a stale or corrupted copy scrubs it — so a flavour only ever sees such a copy
/// when it is the first to touch it.
pub fn check_reads_first(te: &Te, model: &RefModel, ids: &[u64], first: u8) -> Result<u64, (String, String)> {
    let metric = te.cfg.metric();
    let e = &te.engine;
    let mut n = 0u64;
    let vec_ok = |got: &Vec<f32>, want: &Vec<f32>| stored_matches_input(metric, &bits(got), want);
    let bulk = |include: bool| -> Result<(), (String, String)> {
        let res = e.bulk_query(ids, include);
        for (i, &id) in ids.iter().enumerate() {
            let want = model.docs.get(&id);
            match (&res[i], want) {
                (None, None) => {}
                (Some((g, gm)), Some((v, m))) => {
                    let vok = if include { vec_ok(g, v) } else { g.is_empty() };
                    if !vok || &to_meta(gm) != m {
                        return Err(("bulk_query".into(), format!("bulk_query({ids:?},{include})[{id}] = ({g:?},{gm:?}), model {want:?}")));
                    }
                }
                (g, w) => return Err(("bulk_query".into(), format!("bulk_query({ids:?},{include})[{id}] = {g:?}, model {w:?}"))),
            }
        }
        Ok(())
    };
    if first == 5 || first == 6 {
        n += 1;
        bulk(first == 5)?;
    }
    let point = |flavour: u8, id: u64| -> Result<(), (String, String)> {
        let want = model.docs.get(&id);
        match flavour {
            0 => match (e.query(id, None), want) {
                (None, None) => Ok(()),
                (Some(g), Some((v, _))) if vec_ok(&g, v) => Ok(()),
                (g, w) => Err(("query".into(), format!("query({id}) = {g:?}, model {:?}", w.map(|x| &x.0)))),
            },
            1 => match (e.get_document_with_metadata(id), want) {
                (None, None) => Ok(()),
                (Some((g, gm)), Some((v, m))) if vec_ok(&g, v) && &to_meta(&gm) == m => Ok(()),
                (g, w) => Err(("get_document_with_metadata".into(), format!("get_document_with_metadata({id}) = {g:?}, model {w:?}"))),
            },
            2 => match (e.get_embedding_cache_aware(id), want) {
                (None, None) => Ok(()),
                (Some(g), Some((v, _))) if vec_ok(&g, v) => Ok(()),
                (g, w) => Err(("get_embedding_cache_aware".into(), format!("get_embedding_cache_aware({id}) = {g:?}, model {:?}", w.map(|x| &x.0)))),
            },
            3 => match (e.get_metadata(id), want) {
                (None, None) => Ok(()),
                (Some(gm), Some((_, m))) if &to_meta(&gm) == m => Ok(()),
                (g, w) => Err(("get_metadata".into(), format!("get_metadata({id}) = {g:?}, model {:?}", w.map(|x| &x.1)))),
            },
            _ => {
                if e.exists(id) != want.is_some() {
                    Err(("exists".into(), format!("exists({id}) = {}, model {}", e.exists(id), want.is_some())))
                } else {
                    Ok(())
                }
            }
        }
    };
    for &id in ids {
        let mut order: Vec<u8> = vec![0, 1, 2, 3, 4];
        if first < 5 {
            order.retain(|f| *f != first);
            order.insert(0, first);
        }
        for f in order {
            n += 1;
            point(f, id)?;
        }
    }
    for include in [true, false] {
        n += 1;
        bulk(include)?;
    }
    Ok(n)
}

pub fn paused_runtime() -> tokio::runtime::Runtime {
    tokio::runtime::Builder::new_current_thread().enable_time().start_paused(true).build().expect("runtime")
}
