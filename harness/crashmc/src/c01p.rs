//! C01, periodic-fsync clause: under `FsyncPolicy::Periodic(T)` every operation acknowledged more
//! than T before a power loss must survive it. Time is the kvshim logical clock; histories are
//! sequences of (gap, op) with gap in {0, 2.5 T} and a final idle gap before the failure, plus
//! steady streams (gaps of 0.4 T / 0.6 T) in which syncs fall due in the middle of the stream.

use crate::fsmodel::*;
use serde_json::{json, Value};
use std::collections::BTreeSet;
use vcore::exec::{apply_backend, sequences, BackendCfg};
use vcore::model::{dump_vs_model, meta1, Op, RefModel};
use vcore::shimctl as sc;
use vcore::{dump_backend, Scratch};

#[derive(Default)]
pub struct PerStats {
    pub cases: u64,
    pub crash_states: u64,
    pub recoveries: u64,
    pub nontrivial: u64,
    pub violations: vcore::findings::SigBag,
}

const INTERVAL_MS: i64 = 100;
const GAP_MS: i64 = 250;

fn letters() -> Vec<(i64, Op)> {
    let ops = vec![
        Op::Ins { id: 1, v: vec![1.0, 0.0], m: meta1("a", "1") },
        Op::Ins { id: 1, v: vec![0.6, 0.8], m: meta1("a", "2") },
        Op::Ins { id: 2, v: vec![3.0, 4.0], m: Default::default() },
        Op::Del { id: 1 },
    ];
    let mut v = Vec::new();
    for gap in [0, GAP_MS] {
        for o in &ops {
            v.push((gap, o.clone()));
        }
    }
    v
}

fn cfgs() -> Vec<BackendCfg> {
    let mk = |rot: u64| BackendCfg {
        metric: "euclidean".into(),
        dim: 2,
        capacity: 64,
        snap_interval: 0,
        rotation: rot,
        fsync: format!("periodic:{INTERVAL_MS}"),
    };
    vec![mk(1 << 20), mk(1)]
}

fn now_ns() -> i64 {
    sc::ctl(sc::CMD_CLOCK_NOW_NS, 0, 0).unwrap_or(0)
}

/// Run one (cfg, history, final idle) case. The whole history is recorded from the first open.
pub fn run_case(cfg: &BackendCfg, hist: &[(i64, Op)], final_idle_ms: i64, scratch: &Scratch, st: &mut PerStats) {
    st.cases += 1;
    let dir = scratch.path.join("pdata");
    let crash = scratch.path.join("pcrash");
    let _ = std::fs::remove_dir_all(&dir);
    std::fs::create_dir_all(&dir).unwrap();
    // logical REALTIME + MONOTONIC, monotonic does not tick by itself
    sc::ctl(sc::CMD_CLOCK_MODE, 3, 0);
    sc::ctl(sc::CMD_CLOCK_TICK_NS, 1000, 0);
    let b = match cfg.open_fresh(&dir) {
        Ok(b) => b,
        Err(_) => {
            sc::ctl(sc::CMD_CLOCK_MODE, 1, 0);
            return;
        }
    };
    let pre = FsModel::from_dir(&dir);
    let t_open = now_ns();
    sc::set_root(&dir.to_string_lossy());
    sc::ctl(sc::CMD_LOG_CLEAR, 0, 0);
    sc::ctl(sc::CMD_LOG_ON, 0, 0);
    // per op: (start effect index, end effect index, ack time)
    let mut spans: Vec<(usize, usize, i64, i64)> = Vec::new();
    let mut models: Vec<RefModel> = vec![RefModel::default()];
    let mut op_ok: Vec<bool> = Vec::new();
    let mut model = RefModel::default();
    let count_effects = || parse_log(&sc::take_log().unwrap_or_default()).len();
    for (gap, op) in hist {
        if *gap > 0 {
            sc::ctl(sc::CMD_CLOCK_ADVANCE_NS, gap * 1_000_000, 0);
        }
        let s = count_effects();
        let t_start = now_ns();
        let ok = apply_backend(&b, op).is_ok();
        let e = count_effects();
        let t_ack = now_ns();
        if ok {
            model.apply(op);
        }
        op_ok.push(ok);
        models.push(model.clone());
        spans.push((s, e, t_start, t_ack));
    }
    if final_idle_ms > 0 {
        sc::ctl(sc::CMD_CLOCK_ADVANCE_NS, final_idle_ms * 1_000_000, 0);
    }
    let t_end = now_ns();
    sc::ctl(sc::CMD_LOG_OFF, 0, 0);
    let effects = parse_log(&sc::take_log().unwrap_or_default());
    sc::clear_root();
    drop(b);
    sc::ctl(sc::CMD_CLOCK_MODE, 1, 0);

    let metric = cfg.metric();
    let n = effects.len();
    let mut m = pre.clone();
    let mut seen: BTreeSet<u64> = BTreeSet::new();
    for i in 0..=n {
        // which op is in flight at crash index i (effects [s,e) belong to op k)? crash time?
        let mut inflight: Option<usize> = None;
        let mut t_crash = t_end;
        for (k, (s, e, t_start, _)) in spans.iter().enumerate() {
            if i >= *s && i < *e {
                inflight = Some(k);
                t_crash = *t_start;
                break;
            }
            if i == *s && i == *e {
                continue;
            }
        }
        if inflight.is_none() && i < n {
            // at an op boundary before op k starts: crash time = start of next op
            if let Some((_, (_, _, t_start, _))) = spans.iter().enumerate().find(|(_, sp)| sp.0 >= i) {
                t_crash = *t_start;
            }
        }
        // ops that must survive: acked at <= t_crash - interval
        let must: usize = spans.iter().filter(|sp| sp.1 <= i && sp.3 <= t_crash - INTERVAL_MS * 1_000_000).count();
        let acked: usize = spans.iter().filter(|sp| sp.1 <= i).count();
        let (imgs, _capped) = m.powerloss_images(512);
        for img in imgs {
            st.crash_states += 1;
            use std::hash::{Hash, Hasher};
            let mut hh = std::collections::hash_map::DefaultHasher::new();
            img.hash(&mut hh);
            (must, acked, inflight).hash(&mut hh);
            if !seen.insert(hh.finish()) {
                continue;
            }
            materialize(&img, &crash);
            st.recoveries += 1;
            let res = cfg.start(&crash).map(|b| dump_backend(&b));
            let verdict: Option<String> = match &res {
                Err(e) => Some(format!("startup-fails:{}", e.to_string().chars().take(40).collect::<String>())),
                Ok(d) => {
                    // allowed: all ops < must applied, then any in-order subset of the later
                    // acknowledged ops and of the in-flight op (the property promises nothing
                    // about operations younger than one interval, not even prefix order).
                    let hi = (if inflight.is_some() { acked + 1 } else { acked }).min(hist.len());
                    let free = hi - must.min(hi);
                    let mut ok = false;
                    for mask in 0..(1u32 << free) {
                        let mut mm = RefModel::default();
                        for (j, (_, op)) in hist.iter().enumerate().take(hi) {
                            let take = j < must || (mask >> (j - must)) & 1 == 1;
                            if take && op_ok[j] {
                                mm.apply(op);
                            }
                        }
                        if dump_vs_model(metric, d, &mm).is_ok() {
                            ok = true;
                            break;
                        }
                    }
                    if ok {
                        None
                    } else {
                        // which old op is missing? find the first op < must whose WAL write is
                        // not in the image, and whether its segment is still the active one
                        let mut where_ = "unknown";
                        for (j, sp) in spans.iter().enumerate().take(must) {
                            let w = effects[sp.0..sp.1].iter().find(|e| e.kind == EKind::Write && role_of(&e.path) == "wal");
                            if let Some(w) = w {
                                let name = w.path.rsplit('/').next().unwrap_or("").to_string();
                                let present = img.get(&name).map(|c| c.len() >= (w.off as usize + w.data.len())).unwrap_or(false);
                                if !present {
                                    let rotated_later = effects[sp.1.min(i)..i].iter().any(|e| e.kind == EKind::Create && role_of(&e.path) == "wal")
                                        || effects[sp.0..sp.1].iter().any(|e| e.kind == EKind::Create && role_of(&e.path) == "wal");
                                    where_ = if rotated_later { "rotated-segment" } else { "active-segment" };
                                    let _ = j;
                                    break;
                                }
                            }
                        }
                        // Which ops did a DUE sync cover? Model of the documented policy: an
                        // append (an op with a WAL write) at time t syncs iff t - last_sync >= T,
                        // last_sync starting at the open. The known finding (no flusher task: an op
                        // followed by nothing but idleness is never synced) only loses ops that no
                        // due sync covers; losing an op a due sync DID cover is a different defect.
                        let mut last_sync = t_open;
                        let mut covered = 0usize; // ops [0, covered) are covered by a due sync of a completed op
                        for (j, sp) in spans.iter().enumerate() {
                            if sp.1 > i {
                                break;
                            }
                            let appended = op_ok[j] && effects[sp.0..sp.1].iter().any(|e| e.kind == EKind::Write && role_of(&e.path) == "wal");
                            if appended && sp.2 - last_sync >= INTERVAL_MS * 1_000_000 {
                                last_sync = sp.2;
                                covered = j + 1;
                            }
                        }
                        let cov = covered.min(must);
                        let mut explained_by_idle_gap = false;
                        let free2 = hi - cov.min(hi);
                        if free2 <= 16 {
                            for mask in 0..(1u32 << free2) {
                                let mut mm = RefModel::default();
                                for (j, (_, op)) in hist.iter().enumerate().take(hi) {
                                    let take = j < cov || (mask >> (j - cov)) & 1 == 1;
                                    if take && op_ok[j] {
                                        mm.apply(op);
                                    }
                                }
                                if dump_vs_model(metric, d, &mm).is_ok() {
                                    explained_by_idle_gap = true;
                                    break;
                                }
                            }
                        }
                        if explained_by_idle_gap {
                            Some(format!("old-acked-op-lost|unsynced-in={where_}"))
                        } else {
                            Some(format!("op-covered-by-a-due-sync-lost|unsynced-in={where_}"))
                        }
                    }
                }
            };
            if verdict.is_none() && must < acked {
                st.nontrivial += 1;
            }
            if let Some(sym) = verdict {
                let at = if inflight.is_some() { "in-op" } else { "idle" };
                let sig = format!("C01|periodic-powerloss|at={at}|{sym}");
                {
                    st.violations.push((
                        sig,
                        json!({"engine":"crashmc","check":"C01","mode":"periodic-powerloss","cfg":cfg,
                               "history": hist.iter().map(|(g,o)| json!({"gap_ms": g, "op": o})).collect::<Vec<_>>(),
                               "final_idle_ms": final_idle_ms, "crash_index": i, "effects": effects.iter().map(effect_label).collect::<Vec<_>>(),
                               "ops_that_must_survive": must, "ops_acked": acked,
                               "outcome": match &res { Ok(d) => vcore::dump_to_json(d), Err(e) => json!({"error": format!("{e:#}")}) }}),
                    ));
                }
            }
        }
        if i < n {
            m.apply(&effects[i]);
        }
    }
}

pub fn worker(i: usize, n: usize, tier: &str) -> PerStats {
    let depth: usize = std::env::var("C01P_DEPTH").ok().and_then(|s| s.parse().ok()).unwrap_or(if tier == "thorough" { 3 } else { 2 });
    let scratch = Scratch::new(&format!("c01p{i}"));
    let mut st = PerStats::default();
    let ls = letters();
    let mut idx = 0usize;
    for cfg in cfgs() {
        for d in 1..=depth {
            for seq in sequences(ls.len(), d, &[]) {
                for idle in [0, GAP_MS] {
                    idx += 1;
                    if idx % n != i {
                        continue;
                    }
                    let hist: Vec<(i64, Op)> = seq.iter().map(|&k| ls[k].clone()).collect();
                    run_case(&cfg, &hist, idle, &scratch, &mut st);
                }
            }
        }
    }
    // steady streams: 3-6 acknowledged writes a fraction of the interval apart (0.4 T, 0.6 T), so
    // that syncs fall due in the MIDDLE of the stream rather than after an idle gap, then a power
    // loss right away or after a long idle
    let ops = letters();
    for cfg in cfgs() {
        for gap in [40i64, 60] {
            for len in 3..=6usize {
                for rot in 0..2usize {
                    for idle in [0, GAP_MS] {
                        idx += 1;
                        if idx % n != i {
                            continue;
                        }
                        let hist: Vec<(i64, Op)> = (0..len).map(|k| (gap, ops[(k + rot * 2) % 4].1.clone())).collect();
                        run_case(&cfg, &hist, idle, &scratch, &mut st);
                    }
                }
            }
        }
    }
    st
}

pub fn replay(case: &Value) -> i32 {
    let cfg: BackendCfg = serde_json::from_value(case["cfg"].clone()).unwrap();
    let hist: Vec<(i64, Op)> = case["history"]
        .as_array()
        .unwrap()
        .iter()
        .map(|e| (e["gap_ms"].as_i64().unwrap(), serde_json::from_value(e["op"].clone()).unwrap()))
        .collect();
    let idle = case["final_idle_ms"].as_i64().unwrap_or(0);
    let scratch = Scratch::new("c01preplay");
    let mut st = PerStats::default();
    run_case(&cfg, &hist, idle, &scratch, &mut st);
    if let Some((s, r)) = st.violations.any_first() {
        println!("replay: reproduced {s}: {}", serde_json::to_string(&r["outcome"]).unwrap());
        println!("VIOLATION property=C01 replay=(periodic)");
        1
    } else {
        println!("replay: no violation");
        0
    }
}
