//! crashmc: exhaustive crash-point / power-loss / single-fault enumeration on the real engine.

mod c01;
mod c01p;
mod c03;
mod c13;
mod fsmodel;

fn main() {
    let args: Vec<String> = std::env::args().collect();
    if args.len() < 2 {
        eprintln!("usage: crashmc <PROPERTY> [quick|thorough] [--replay <file>]");
        std::process::exit(2);
    }
    let prop = args[1].as_str();
    let mut tier = vcore::tier_from_env_or(None);
    let mut replay: Option<String> = None;
    let mut i = 2;
    while i < args.len() {
        match args[i].as_str() {
            "--replay" => {
                replay = args.get(i + 1).cloned();
                i += 1;
            }
            t @ ("quick" | "thorough") => tier = t.to_string(),
            other => {
                eprintln!("unknown argument {other}");
                std::process::exit(2);
            }
        }
        i += 1;
    }
    let code = match prop {
        "C01" => c01::run(&tier, replay.as_deref()),
        "C13" => c13::run(&tier, replay.as_deref()),
        "C03" => c03::run(&tier, replay.as_deref()),
        _ => {
            eprintln!("crashmc: unknown property {prop}");
            2
        }
    };
    std::process::exit(code);
}
