//! C03 — a write that reports failure changes nothing, now or after restart.
//!
//! (i) invalid inputs: every class x write op x {new id, existing id} x metric x prefix history
//! (ii) storage faults: for every prefix history and every op, the n-th fs call under the data
//!      directory fails with each errno (or is shortened, then fails), singly and in pairs.
//! Oracle for every case: Err  => live dump and recovered dump == pre-call state;
//!                        Ok   => live dump and recovered dump == model after the call;
//! then one more valid write: Ok => durable, Err => again nothing changed.

use serde_json::{json, Value};
use std::collections::BTreeSet;
use vcore::exec::{apply_backend, sequences, BackendCfg};
use vcore::findings::SigBag;
use vcore::model::{dump_vs_model, meta1, Op, RefModel};
use vcore::shimctl as sc;
use vcore::{dump_backend, Scratch};

#[derive(Default)]
pub struct Stats {
    pub evals: u64,
    pub failed_calls: u64,
    pub ok_calls: u64,
    pub faults_fired: u64,
    pub nontrivial: u64,
    pub violations: SigBag,
    pub outcomes: BTreeSet<String>,
}

fn vec_for(dim: usize, a: f32, b: f32) -> Vec<f32> {
    let mut v = vec![0.0f32; dim];
    v[0] = a;
    v[dim - 1] += b;
    v
}

fn prefix_alphabet(dim: usize) -> Vec<Op> {
    vec![
        Op::Ins { id: 1, v: vec_for(dim, 1.0, 0.0), m: meta1("a", "1") },
        Op::Ins { id: 2, v: vec_for(dim, 0.0, 1.0), m: meta1("a", "2") },
        Op::Ins { id: 1, v: vec_for(dim, 0.6, 0.8), m: meta1("a", "3") },
        Op::Del { id: 1 },
        Op::Snap,
        Op::Restart,
    ]
}

fn faulted_ops(dim: usize) -> Vec<Op> {
    vec![
        Op::Ins { id: 1, v: vec_for(dim, 0.8, 0.6), m: meta1("w", "x") },
        Op::Ins { id: 3, v: vec_for(dim, -1.0, 0.0), m: meta1("w", "y") },
        Op::Del { id: 1 },
        Op::BatchDel { ids: vec![1, 2, 1] },
        Op::UpdMeta { id: 1, m: meta1("u", "1"), merge: true },
        Op::UpdMeta { id: 2, m: meta1("u", "2"), merge: false },
        Op::Snap,
    ]
}

fn invalid_vectors(dim: usize) -> Vec<(&'static str, Vec<f32>)> {
    let mut v = Vec::new();
    v.push(("dim-1", vec![1.0; dim.saturating_sub(1).max(1)]));
    if dim == 1 {
        v.pop();
        v.push(("dim-0", vec![]));
    }
    v.push(("dim+1", vec![1.0; dim + 1]));
    v.push(("zero", vec![0.0; dim]));
    v.push(("nan", vec_for(dim, f32::NAN, 0.5)));
    v.push(("nan-tail", vec_for(dim, 0.5, f32::NAN)));
    v.push(("+inf", vec_for(dim, f32::INFINITY, 0.0)));
    v.push(("-inf", vec_for(dim, 0.0, f32::NEG_INFINITY)));
    v.push(("overflow-1e30", vec_for(dim, 1e30, 1e30)));
    v.push(("f32-max", vec_for(dim, f32::MAX, 1.0)));
    v.push(("subnormal", vec_for(dim, 1e-40, 0.0)));
    v.push(("tiny-1e-20", vec_for(dim, 1e-20, 1e-20)));
    v
}

struct Ctx<'a> {
    cfg: &'a BackendCfg,
    scratch: &'a Scratch,
}

/// Execute prefix; returns backend, model or None if prefix fails.
fn run_prefix(ctx: &Ctx, h: &[Op]) -> Option<(kyrodb_engine::HnswBackend, RefModel)> {
    let dir = ctx.scratch.path.join("d");
    let _ = std::fs::remove_dir_all(&dir);
    let mut b = ctx.cfg.open_fresh(&dir).ok()?;
    let mut model = RefModel::default();
    for op in h {
        if matches!(op, Op::Restart) {
            drop(b);
            b = ctx.cfg.recover(&dir).ok()?;
            continue;
        }
        apply_backend(&b, op).ok()?;
        model.apply(op);
    }
    Some((b, model))
}

fn sigop(op: &Op) -> &'static str {
    match op {
        Op::Ins { id: 1, .. } | Op::Ins { id: 2, .. } => "insert-existing-or-low-id",
        Op::Ins { .. } => "insert",
        Op::Del { .. } => "delete",
        Op::BatchDel { .. } => "batch-delete",
        Op::UpdMeta { .. } => "update-metadata",
        Op::Snap => "snapshot",
        Op::Restart => "restart",
    }
}

/// Core oracle. `arm` is called right before the operation (to arm faults) and the fault slots
/// are cleared right after it. Returns (op_result_ok, violation?)
fn check_case<F: FnOnce()>(
    ctx: &Ctx,
    h: &[Op],
    op: &Op,
    overwrite: bool,
    arm: F,
    what: &str,
    detail: Value,
    st: &mut Stats,
) {
    let Some((b, model)) = run_prefix(ctx, h) else { return };
    st.evals += 1;
    let dir = ctx.scratch.path.join("d");
    let metric = ctx.cfg.metric();
    let before = model.clone();
    let mut after = model.clone();
    sc::set_root(&dir.to_string_lossy());
    sc::ctl(sc::CMD_TRACE_CLEAR, 0, 0);
    arm();
    let res = std::panic::catch_unwind(std::panic::AssertUnwindSafe(|| apply_backend(&b, op)));
    let fired0 = sc::ctl(sc::CMD_FAULT_FIRED, 0, 0).unwrap_or(0);
    let fired1 = sc::ctl(sc::CMD_FAULT_FIRED, 1, 0).unwrap_or(0);
    sc::ctl(sc::CMD_FAULT_CLEAR, 0, 0);
    sc::clear_root();
    if fired0 != 0 || fired1 != 0 {
        st.faults_fired += 1;
    }
    let opname = sigop(op);
    let ow = if overwrite { "existing-id" } else { "new-or-absent-id" };
    let mut push = |st: &mut Stats, sym: &str, extra: Value| {
        st.violations.push((
            if what.starts_with("fault") { format!("C03|{what}|{sym}") } else { format!("C03|{what}|{opname}|{ow}|{sym}") },
            json!({"engine":"crashmc","check":"C03","cfg":ctx.cfg,"history":h,"op":op,"case":detail.clone(),"symptom":sym,"extra":extra}),
        ));
    };
    let res = match res {
        Err(_) => {
            push(st, "panic", json!(null));
            return;
        }
        Ok(r) => r,
    };
    let expect = match &res {
        Ok(_) => {
            st.ok_calls += 1;
            after.apply(op);
            &after
        }
        Err(_) => {
            st.failed_calls += 1;
            &before
        }
    };
    let tag = if res.is_ok() { "acked" } else { "failed" };
    st.outcomes.insert(format!("{tag}:{}", res.as_ref().err().map(|e| e.chars().take(30).collect::<String>()).unwrap_or_default()));
    if res.is_err() && (fired0 != 0 || what == "invalid-input") {
        st.nontrivial += 1;
    }
    // live
    let live = dump_backend(&b);
    if let Err(e) = dump_vs_model(metric, &live, expect) {
        push(st, &format!("{tag}-but-live-state-wrong"), json!({"why": e, "error": res.as_ref().err()}));
        return;
    }
    // follow-up valid write on the same engine
    let follow = Op::Ins { id: 9, v: vec_for(ctx.cfg.dim, 0.0, -1.0), m: meta1("f", "9") };
    let inconsistent = b.is_wal_inconsistent();
    // recovered (copy the directory first so the follow-up does not disturb this check)
    let copy = ctx.scratch.path.join("copy");
    let _ = std::fs::remove_dir_all(&copy);
    vcore::copy_dir(&dir, &copy);
    match ctx.cfg.start(&copy) {
        Err(e) => {
            push(st, &format!("{tag}-then-restart-fails"), json!({"recover_error": format!("{e:#}"), "error": res.as_ref().err()}));
            return;
        }
        Ok(rb) => {
            let rd = dump_backend(&rb);
            if let Err(e) = dump_vs_model(metric, &rd, expect) {
                push(st, &format!("{tag}-but-recovered-state-wrong"), json!({"why": e, "error": res.as_ref().err(), "wal_inconsistent_flag": inconsistent}));
                return;
            }
        }
    }
    let fres = apply_backend(&b, &follow);
    let mut expect2 = expect.clone();
    if fres.is_ok() {
        expect2.apply(&follow);
    }
    let live2 = dump_backend(&b);
    if let Err(e) = dump_vs_model(metric, &live2, &expect2) {
        push(st, "followup-live-state-wrong", json!({"why": e, "followup_error": fres.as_ref().err()}));
        return;
    }
    drop(b);
    match ctx.cfg.start(&dir) {
        Err(e) => push(st, "followup-then-restart-fails", json!({"recover_error": format!("{e:#}"), "followup_ok": fres.is_ok()})),
        Ok(rb) => {
            let rd = dump_backend(&rb);
            if let Err(e) = dump_vs_model(metric, &rd, &expect2) {
                push(st, "followup-recovered-state-wrong", json!({"why": e, "followup_ok": fres.is_ok()}));
            }
        }
    }
}

fn cfgs(tier: &str) -> Vec<BackendCfg> {
    let mk = |metric: &str, dim: usize, snap: usize, rot: u64, cap: usize| BackendCfg {
        metric: metric.into(),
        dim,
        capacity: cap,
        snap_interval: snap,
        rotation: rot,
        fsync: "always".into(),
    };
    // the capacity-3 configuration carries the index-full class (refusals at capacity)
    // "cosine!" = cosine with hnsw.disable_normalization_check = true (the index then accepts
    // whatever the normalisation step hands it)
    let mut v = vec![mk("euclidean", 2, 0, 1 << 20, 64), mk("cosine", 2, 2, 1, 64), mk("euclidean", 3, 2, 1 << 20, 3), mk("cosine!", 2, 0, 1 << 20, 64)];
    if tier == "thorough" {
        v.push(mk("inner_product", 3, 0, 1, 3));
    }
    v
}

const ERRNOS: [(i64, &str); 5] = [(28, "ENOSPC"), (5, "EIO"), (122, "EDQUOT"), (4, "EINTR"), (13, "EACCES")];

fn call_label(c: i64) -> String {
    let role = match (c >> 16) & 0xf {
        1 => "wal",
        2 => "manifest",
        3 => "snapshot",
        4 => "dir",
        _ => "?",
    };
    format!("{}({})", class_name(c & 0xffff), role)
}

fn class_name(c: i64) -> &'static str {
    match c {
        1 => "write",
        2 => "fsync",
        4 => "fdatasync",
        8 => "ftruncate",
        16 => "rename",
        32 => "open",
        64 => "unlink",
        256 => "fsync-dir",
        _ => "other",
    }
}

pub fn worker(wi: usize, wn: usize, tier: &str) {
    let scratch = Scratch::new(&format!("c03w{wi}"));
    let mut st = Stats::default();
    let mut samples: Vec<Value> = Vec::new();
    let pdepth: usize = std::env::var("C03_PREFIX_DEPTH").ok().and_then(|s| s.parse().ok()).unwrap_or(if tier == "thorough" { 3 } else { 2 });
    let pairs = tier == "thorough" || std::env::var("C03_PAIRS").is_ok();
    // virtual monotonic clock: the WAL retry back-off sleeps cost nothing
    sc::ctl(sc::CMD_CLOCK_MODE, 3, 0);
    sc::ctl(sc::CMD_CLOCK_TICK_NS, 1000, 1000);
    let mut idx = 0usize;
    for cfg in cfgs(tier) {
        let ctx = Ctx { cfg: &cfg, scratch: &scratch };
        let pa = prefix_alphabet(cfg.dim);
        let mut prefixes: Vec<Vec<usize>> = vec![vec![]];
        for d in 1..=pdepth {
            prefixes.extend(sequences(pa.len(), d, &[]));
        }
        for pseq in &prefixes {
            idx += 1;
            if idx % wn != wi {
                continue;
            }
            let h: Vec<Op> = pseq.iter().map(|&k| pa[k].clone()).collect();
            // model of prefix to know which ids exist
            let mut pm = RefModel::default();
            for op in &h {
                pm.apply(op);
            }
            // (i) invalid inputs
            for (cls, v) in invalid_vectors(cfg.dim) {
                for id in [1u64, 3] {
                    let op = Op::Ins { id, v: v.clone(), m: meta1("bad", cls) };
                    check_case(&ctx, &h, &op, pm.docs.contains_key(&id), || {}, "invalid-input", json!({"class": cls}), &mut st);
                }
            }
            // index full (capacity 3): fill with distinct new ids then one more
            if cfg.capacity == 3 {
                let mut hh = h.clone();
                for id in 10..13u64 {
                    hh.push(Op::Ins { id, v: vec_for(cfg.dim, 0.3, 0.4), m: Default::default() });
                }
                // only meaningful if the prefix itself still executes
                let op = Op::Ins { id: 20, v: vec_for(cfg.dim, 0.5, 0.5), m: Default::default() };
                check_case(&ctx, &hh[..hh.len().min(h.len() + 3)], &op, false, || {}, "index-full", json!({}), &mut st);
                // ... an OVERWRITE of a live id at capacity (an overwrite takes a fresh slot and
                // tombstones the old one, so it is refused too — and must be refused before
                // anything reaches the log), a metadata update and a delete on the full index
                let ow = Op::Ins { id: 10, v: vec_for(cfg.dim, 0.5, 0.5), m: meta1("o", "1") };
                check_case(&ctx, &hh, &ow, true, || {}, "index-full", json!({"shape": "overwrite-live-id-no-tombstone"}), &mut st);
                check_case(&ctx, &hh, &Op::UpdMeta { id: 11, m: meta1("u", "1"), merge: true }, true, || {}, "index-full", json!({"shape": "update-metadata"}), &mut st);
                check_case(&ctx, &hh, &Op::Del { id: 12 }, true, || {}, "index-full", json!({"shape": "delete"}), &mut st);
                // ... and a full index holding one tombstone (ids 10, 11, then 10 overwritten):
                // overwrite and new id both go through tombstone compaction first
                let mut ht = h.clone();
                ht.push(Op::Ins { id: 10, v: vec_for(cfg.dim, 0.3, 0.4), m: Default::default() });
                ht.push(Op::Ins { id: 11, v: vec_for(cfg.dim, 0.3, -0.4), m: Default::default() });
                ht.push(Op::Ins { id: 10, v: vec_for(cfg.dim, 0.4, 0.3), m: meta1("v", "2") });
                check_case(&ctx, &ht, &Op::Ins { id: 11, v: vec_for(cfg.dim, 0.5, 0.5), m: meta1("o", "2") }, true, || {}, "index-full", json!({"shape": "overwrite-live-id-one-tombstone"}), &mut st);
                check_case(&ctx, &ht, &Op::Ins { id: 20, v: vec_for(cfg.dim, 0.5, 0.5), m: Default::default() }, false, || {}, "index-full", json!({"shape": "new-id-one-tombstone"}), &mut st);
            }
            // (ii) storage faults
            for op in faulted_ops(cfg.dim) {
                let overwrite = match &op {
                    Op::Ins { id, .. } | Op::Del { id } | Op::UpdMeta { id, .. } => pm.docs.contains_key(id),
                    _ => false,
                };
                // baseline: count calls and their classes
                let Some((b, _)) = run_prefix(&ctx, &h) else { continue };
                let dir = scratch.path.join("d");
                sc::set_root(&dir.to_string_lossy());
                sc::ctl(sc::CMD_TRACE_CLEAR, 0, 0);
                let _ = apply_backend(&b, &op);
                let k_total = sc::ctl(sc::CMD_TRACE_LEN, 0, 0).unwrap_or(0);
                let classes: Vec<i64> = (0..k_total).map(|i| sc::ctl(sc::CMD_TRACE_CLASS_AT, i, 0).unwrap_or(0)).collect();
                sc::clear_root();
                drop(b);
                for k in 1..=k_total {
                    let full = classes[(k - 1) as usize];
                    let cls = full & 0xffff;
                    let here = call_label(full);
                    let prev = if k >= 2 { call_label(classes[(k - 2) as usize]) } else { "start".to_string() };
                    for (errno, ename) in ERRNOS {
                        check_case(
                            &ctx, &h, &op, overwrite,
                            || { sc::fault_arm(0, sc::C_ALL, k, errno, -1); },
                            &format!("fault:{here}|prev={prev}"),
                            json!({"nth_call": k, "class": class_name(cls), "errno": ename, "calls_in_fault_free_run": k_total}),
                            &mut st,
                        );
                    }
                    if cls == sc::C_WRITE {
                        // short write of m bytes, then the continuation write fails
                        for short in [1i64, 7, 40] {
                            for (errno, ename) in [(28, "ENOSPC"), (5, "EIO")] {
                                check_case(
                                    &ctx, &h, &op, overwrite,
                                    || {
                                        sc::fault_arm(0, sc::C_ALL, k, 0, short);
                                        sc::fault_arm(1, sc::C_WRITE | sc::C_AFTER_SLOT0, 1, errno, -1);
                                    },
                                    &format!("fault:short-{here}-then-error|prev={prev}"),
                                    json!({"nth_call": k, "short_len": short, "then": ename}),
                                    &mut st,
                                );
                            }
                        }
                    }
                    if pairs {
                        // second fault lands in the engine's own rollback / retry / later step
                        for gap in 1..=6i64 {
                            for (errno, ename) in [(5, "EIO"), (28, "ENOSPC"), (4, "EINTR")] {
                                check_case(
                                    &ctx, &h, &op, overwrite,
                                    || {
                                        sc::fault_arm(0, sc::C_ALL, k, errno, -1);
                                        sc::fault_arm(1, sc::C_ALL | sc::C_AFTER_SLOT0, gap, errno, -1);
                                    },
                                    &format!("fault-pair:{here}|prev={prev}"),
                                    json!({"nth_call": k, "class": class_name(cls), "second_after": gap, "errno": ename}),
                                    &mut st,
                                );
                            }
                        }
                    }
                }
                if samples.len() < 3 && k_total > 0 && idx % 5 == 0 {
                    samples.push(json!({"cfg": cfg.label(), "prefix": h.iter().map(|o| o.short()).collect::<Vec<_>>(), "op": op.short(), "fs_calls": classes.iter().map(|c| class_name(*c)).collect::<Vec<_>>()}));
                }
            }
        }
    }
    // large batch: a batch delete of 300 documents (a 12 KB batch append, hundreds of frames) under
    // every single fault and under short writes that end in the middle of the batch: a failed call
    // must leave NONE of its delete records behind
    {
        let cfg = BackendCfg { metric: "euclidean".into(), dim: 2, capacity: 1024, snap_interval: 0, rotation: 1 << 20, fsync: "always".into() };
        let ctx = Ctx { cfg: &cfg, scratch: &scratch };
        let h: Vec<Op> = (1..=300u64).map(|id| Op::Ins { id, v: vec_for(2, (id % 17) as f32 + 0.5, (id % 5) as f32 - 2.0), m: meta1("i", &id.to_string()) }).collect();
        let op = Op::BatchDel { ids: (1..=300u64).collect() };
        if let Some((b, _)) = run_prefix(&ctx, &h) {
            let dir = scratch.path.join("d");
            sc::set_root(&dir.to_string_lossy());
            sc::ctl(sc::CMD_TRACE_CLEAR, 0, 0);
            let _ = apply_backend(&b, &op);
            let k_total = sc::ctl(sc::CMD_TRACE_LEN, 0, 0).unwrap_or(0);
            let classes: Vec<i64> = (0..k_total).map(|i| sc::ctl(sc::CMD_TRACE_CLASS_AT, i, 0).unwrap_or(0)).collect();
            sc::clear_root();
            drop(b);
            // (the batch is appended frame by frame: several hundred calls; every call is a fault
            // point, shared out over the workers)
            for k in 1..=k_total {
                if (k as usize) % wn != wi {
                    continue;
                }
                let full = classes[(k - 1) as usize];
                let cls = full & 0xffff;
                let here = call_label(full);
                // ENOSPC: not retried by the WAL writer, so the call fails (a single EIO is retried
                // successfully and the call is acknowledged)
                for (errno, ename) in [(28i64, "ENOSPC")] {
                    check_case(&ctx, &h, &op, true, || { sc::fault_arm(0, sc::C_ALL, k, errno, -1); }, &format!("fault:{here}|large-batch"), json!({"nth_call": k, "class": class_name(cls), "errno": ename, "batch": 300}), &mut st);
                }
                if cls == sc::C_WRITE && (k % 10 == 1 || k + 2 >= k_total) {
                    for short in [7i64, 5_000] {
                        check_case(
                            &ctx, &h, &op, true,
                            || {
                                sc::fault_arm(0, sc::C_ALL, k, 0, short);
                                sc::fault_arm(1, sc::C_WRITE | sc::C_AFTER_SLOT0, 1, 28, -1);
                            },
                            &format!("fault:short-{here}-then-error|large-batch"),
                            json!({"nth_call": k, "short_len": short, "then": "ENOSPC", "batch": 300}),
                            &mut st,
                        );
                    }
                }
            }
        }
    }
    sc::ctl(sc::CMD_CLOCK_MODE, 1, 0);
    vcore::par::worker_emit(&json!({
        "evals": st.evals, "failed_calls": st.failed_calls, "ok_calls": st.ok_calls, "faults_fired": st.faults_fired,
        "nontrivial": st.nontrivial, "violations": st.violations.to_json(), "outcomes": st.outcomes.iter().collect::<Vec<_>>(), "samples": samples,
    }));
}

pub fn run(tier: &str, replay: Option<&str>) -> i32 {
    if !sc::loaded() {
        eprintln!("crashmc: kvshim is not loaded (LD_PRELOAD) — machinery error");
        return 2;
    }
    if let Some(p) = replay {
        return run_replay(p);
    }
    if let Some((i, n)) = vcore::par::worker_id() {
        worker(i, n, tier);
        return 0;
    }
    let mut ev = vcore::evidence::Evidence::new("C03", tier, "fault_enumeration");
    let mut rep = vcore::findings::Reporter::new("C03");
    let res = vcore::par::run_workers(vcore::par::jobs(), &[]);
    let mut tot = std::collections::BTreeMap::new();
    let mut outcomes: BTreeSet<String> = BTreeSet::new();
    let mut samples = Vec::new();
    for r in &res {
        for k in ["evals", "failed_calls", "ok_calls", "faults_fired", "nontrivial"] {
            *tot.entry(k).or_insert(0u64) += r[k].as_u64().unwrap_or(0);
        }
        for o in r["outcomes"].as_array().unwrap() {
            outcomes.insert(o.as_str().unwrap().to_string());
        }
        for s in r["samples"].as_array().unwrap() {
            if samples.len() < 4 {
                samples.push(s.clone());
            }
        }
        rep.report_bag(&r["violations"]);
    }
    ev.set("evaluations", tot["evals"]);
    ev.set("distinct_nontrivial", tot["nontrivial"]);
    ev.set("rule", "for every configuration and every prefix history up to the depth bound: (i) every invalid-input class x {existing id, new id}, index-full; (ii) for every write op (insert new / overwrite / delete / batch delete / metadata merge / replace / snapshot) a fault-free run counts the fs calls K under the data directory, then for every k in 1..K x errno {ENOSPC,EIO,EDQUOT,EINTR,EACCES} the k-th call fails; every write call is additionally shortened to {1,7,40} bytes with the continuation failing; thorough adds fault pairs (second fault 1..6 calls after the first, i.e. inside rollback/retry). Oracle: Err => live and recovered state == pre-call state, Ok => == model after; then a follow-up valid write with the same oracle. non-trivial = cases where the call actually failed");
    ev.set("samples", Value::Array(samples));
    ev.set("exhaustive", true);
    ev.set("calls_failed", tot["failed_calls"]);
    ev.set("calls_acked", tot["ok_calls"]);
    ev.set("cases_where_an_injected_fault_fired", tot["faults_fired"]);
    ev.set("distinct_outcomes", outcomes.len() as u64);
    ev.assume("faults are injected at the libc boundary by kvshim (errno or short count); the kernel side is tmpfs");
    ev.assume("logical clock: WAL retry back-off sleeps and circuit-breaker timers advance virtually");
    ev.violations = rep.violations as i64;
    ev.write();
    println!(
        "C03 {tier}: cases={} failed_calls={} acked_calls={} faults_fired={} distinct_outcomes={} violations={}",
        tot["evals"], tot["failed_calls"], tot["ok_calls"], tot["faults_fired"], outcomes.len(), rep.violations
    );
    rep.finish()
}

fn run_replay(path: &str) -> i32 {
    let v: Value = serde_json::from_str(&std::fs::read_to_string(path).expect("read")).expect("json");
    let c = &v["case"];
    let cfg: BackendCfg = serde_json::from_value(c["cfg"].clone()).unwrap();
    let h: Vec<Op> = serde_json::from_value(c["history"].clone()).unwrap();
    let op: Op = serde_json::from_value(c["op"].clone()).unwrap();
    let scratch = Scratch::new("c03replay");
    let ctx = Ctx { cfg: &cfg, scratch: &scratch };
    let mut st = Stats::default();
    sc::ctl(sc::CMD_CLOCK_MODE, 3, 0);
    sc::ctl(sc::CMD_CLOCK_TICK_NS, 1000, 1000);
    let cs = &c["case"];
    let k = cs["nth_call"].as_i64().unwrap_or(0);
    let errno = ERRNOS.iter().find(|(_, n)| Some(*n) == cs["errno"].as_str().or(cs["then"].as_str())).map(|e| e.0).unwrap_or(5);
    let short = cs["short_len"].as_i64();
    let second = cs["second_after"].as_i64();
    check_case(
        &ctx, &h, &op, true,
        || {
            if k > 0 {
                if let Some(s) = short {
                    sc::fault_arm(0, sc::C_ALL, k, 0, s);
                    sc::fault_arm(1, sc::C_WRITE | sc::C_AFTER_SLOT0, 1, errno, -1);
                } else {
                    sc::fault_arm(0, sc::C_ALL, k, errno, -1);
                    if let Some(g) = second {
                        sc::fault_arm(1, sc::C_ALL | sc::C_AFTER_SLOT0, g, errno, -1);
                    }
                }
            }
        },
        "replay", cs.clone(), &mut st,
    );
    if let Some((s, r)) = st.violations.any_first() {
        println!("replay: reproduced {s}: {}", r["extra"]);
        println!("VIOLATION property=C03 replay={path}");
        1
    } else {
        println!("replay: no violation");
        0
    }
}
