//! Effect log decoding and the crash / power-loss file-system model.

use std::collections::BTreeMap;
use std::path::Path;

#[derive(Clone, Debug, PartialEq, Eq)]
pub enum EKind {
    Create,
    TruncOpen,
    Write,
    Fsync,
    Fdatasync,
    Ftruncate,
    Rename,
    Unlink,
    Mkdir,
    FsyncDir,
    Rmdir,
}

#[derive(Clone, Debug)]
pub struct Effect {
    pub t_ns: i64,
    pub kind: EKind,
    pub ino: u64,
    pub off: i64,
    pub path: String,
    pub path2: String,
    pub data: Vec<u8>,
}

pub fn parse_log(buf: &[u8]) -> Vec<Effect> {
    let mut v = Vec::new();
    let mut p = 0usize;
    let rd32 = |b: &[u8], o: usize| u32::from_le_bytes(b[o..o + 4].try_into().unwrap());
    let rd64 = |b: &[u8], o: usize| u64::from_le_bytes(b[o..o + 8].try_into().unwrap());
    while p + 60 <= buf.len() {
        let total = rd32(buf, p) as usize;
        let kind = rd32(buf, p + 4);
        let ino = rd64(buf, p + 16);
        let off = rd64(buf, p + 24) as i64;
        let t_ns = rd64(buf, p + 40) as i64;
        let l1 = rd32(buf, p + 48) as usize;
        let l2 = rd32(buf, p + 52) as usize;
        let dl = rd32(buf, p + 56) as usize;
        let mut q = p + 60;
        let path = String::from_utf8_lossy(&buf[q..q + l1]).to_string();
        q += l1;
        let path2 = String::from_utf8_lossy(&buf[q..q + l2]).to_string();
        q += l2;
        let data = buf[q..q + dl].to_vec();
        let k = match kind {
            1 => EKind::Create,
            2 => EKind::TruncOpen,
            3 => EKind::Write,
            4 => EKind::Fsync,
            5 => EKind::Fdatasync,
            6 => EKind::Ftruncate,
            7 => EKind::Rename,
            8 => EKind::Unlink,
            9 => EKind::Mkdir,
            10 => EKind::FsyncDir,
            11 => EKind::Rmdir,
            _ => panic!("bad effect kind {kind}"),
        };
        v.push(Effect { t_ns, kind: k, ino, off, path, path2, data });
        p += total;
    }
    v
}

pub fn role_of(path: &str) -> String {
    let name = path.rsplit('/').next().unwrap_or(path);
    let name = name.trim_end_matches(" (deleted)");
    if name == "MANIFEST" {
        "manifest".into()
    } else if name == "MANIFEST.tmp" {
        "manifest.tmp".into()
    } else if name.starts_with("wal_") {
        "wal".into()
    } else if name.starts_with("snapshot_") && name.ends_with(".snap") {
        "snapshot".into()
    } else if name.starts_with("snapshot_") && name.ends_with(".tmp") {
        "snapshot.tmp".into()
    } else {
        "dir".into()
    }
}

pub fn effect_label(e: &Effect) -> String {
    let k = match e.kind {
        EKind::Create => "create",
        EKind::TruncOpen => "trunc-open",
        EKind::Write => "write",
        EKind::Fsync => "fsync",
        EKind::Fdatasync => "fdatasync",
        EKind::Ftruncate => "ftruncate",
        EKind::Rename => "rename",
        EKind::Unlink => "unlink",
        EKind::Mkdir => "mkdir",
        EKind::FsyncDir => "fsync-dir",
        EKind::Rmdir => "rmdir",
    };
    if e.kind == EKind::Rename {
        format!("{k}({}->{})", role_of(&e.path), role_of(&e.path2))
    } else {
        format!("{k}({})", role_of(&e.path))
    }
}

#[derive(Clone, Debug)]
enum FOp {
    Write { off: usize, data: Vec<u8> },
    Trunc { len: usize },
}

#[derive(Clone, Debug)]
enum DOp {
    Link { name: String, ino: u64 },
    Unlink { name: String },
    Rename { from: String, to: String },
}

#[derive(Clone, Debug, Default)]
struct FileM {
    durable: Vec<u8>,
    pending: Vec<FOp>,
}

fn apply_fop(c: &mut Vec<u8>, op: &FOp) {
    match op {
        FOp::Write { off, data } => {
            if c.len() < off + data.len() {
                c.resize(off + data.len(), 0);
            }
            c[*off..*off + data.len()].copy_from_slice(data);
        }
        FOp::Trunc { len } => c.resize(*len, 0),
    }
}

fn apply_dop(d: &mut BTreeMap<String, u64>, op: &DOp) {
    match op {
        DOp::Link { name, ino } => {
            d.insert(name.clone(), *ino);
        }
        DOp::Unlink { name } => {
            d.remove(name);
        }
        DOp::Rename { from, to } => {
            if let Some(i) = d.remove(from) {
                d.insert(to.clone(), i);
            }
        }
    }
}

/// A flat data directory: file contents keyed by inode, directory entries by name; per-file and
/// per-directory lists of effects not yet made durable by fsync.
#[derive(Clone, Debug, Default)]
pub struct FsModel {
    root: String,
    files: BTreeMap<u64, FileM>,
    dir_durable: BTreeMap<String, u64>,
    dir_pending: Vec<DOp>,
    next_fake_ino: u64,
}

/// A materialisable directory image: name -> content.
pub type Image = BTreeMap<String, Vec<u8>>;

impl FsModel {
    /// Start from the on-disk directory (everything durable).
    pub fn from_dir(root: &Path) -> FsModel {
        use std::os::unix::fs::MetadataExt;
        let mut m = FsModel { root: root.to_string_lossy().to_string(), next_fake_ino: 1 << 60, ..Default::default() };
        if let Ok(rd) = std::fs::read_dir(root) {
            for e in rd.flatten() {
                let p = e.path();
                if p.is_file() {
                    let ino = e.metadata().map(|x| x.ino()).unwrap_or_else(|_| {
                        m.next_fake_ino += 1;
                        m.next_fake_ino
                    });
                    let data = std::fs::read(&p).unwrap_or_default();
                    m.files.insert(ino, FileM { durable: data, pending: Vec::new() });
                    m.dir_durable.insert(e.file_name().to_string_lossy().to_string(), ino);
                }
            }
        }
        m
    }

    fn rel(&self, path: &str) -> String {
        let p = path.trim_end_matches(" (deleted)");
        p.strip_prefix(&self.root).unwrap_or(p).trim_start_matches('/').to_string()
    }

    pub fn apply(&mut self, e: &Effect) {
        match e.kind {
            EKind::Create => {
                let name = self.rel(&e.path);
                self.files.insert(e.ino, FileM::default());
                self.dir_pending.push(DOp::Link { name, ino: e.ino });
            }
            EKind::TruncOpen => {
                self.files.entry(e.ino).or_default().pending.push(FOp::Trunc { len: 0 });
            }
            EKind::Write => {
                self.files
                    .entry(e.ino)
                    .or_default()
                    .pending
                    .push(FOp::Write { off: e.off as usize, data: e.data.clone() });
            }
            EKind::Ftruncate => {
                self.files.entry(e.ino).or_default().pending.push(FOp::Trunc { len: e.off as usize });
            }
            EKind::Fsync | EKind::Fdatasync => {
                if let Some(f) = self.files.get_mut(&e.ino) {
                    let ops = std::mem::take(&mut f.pending);
                    for op in &ops {
                        apply_fop(&mut f.durable, op);
                    }
                }
            }
            EKind::Rename => {
                let from = self.rel(&e.path);
                let to = self.rel(&e.path2);
                self.dir_pending.push(DOp::Rename { from, to });
            }
            EKind::Unlink => {
                let name = self.rel(&e.path);
                self.dir_pending.push(DOp::Unlink { name });
            }
            EKind::FsyncDir => {
                let ops = std::mem::take(&mut self.dir_pending);
                for op in &ops {
                    apply_dop(&mut self.dir_durable, op);
                }
            }
            EKind::Mkdir | EKind::Rmdir => {}
        }
    }

    /// Process-kill image: every completed effect persists.
    pub fn image_kill(&self) -> Image {
        let mut d = self.dir_durable.clone();
        for op in &self.dir_pending {
            apply_dop(&mut d, op);
        }
        let mut img = Image::new();
        for (name, ino) in d {
            let mut c = self.files.get(&ino).map(|f| f.durable.clone()).unwrap_or_default();
            if let Some(f) = self.files.get(&ino) {
                for op in &f.pending {
                    apply_fop(&mut c, op);
                }
            }
            img.insert(name, c);
        }
        img
    }

    /// Kill image with a torn prefix (`keep` bytes) of the not-yet-applied write `w`.
    pub fn image_torn(&self, w: &Effect, keep: usize) -> Image {
        let mut m = self.clone();
        let mut e = w.clone();
        e.data.truncate(keep);
        m.apply(&e);
        m.image_kill()
    }

    /// Number of power-loss images at this point and an iterator over them: every combination of
    /// (prefix of each dirty file's pending list) x (prefix of the directory's pending list).
    pub fn powerloss_images(&self, cap: usize) -> (Vec<Image>, bool) {
        let dirty: Vec<u64> = self.files.iter().filter(|(_, f)| !f.pending.is_empty()).map(|(k, _)| *k).collect();
        let mut radices: Vec<usize> = dirty.iter().map(|i| self.files[i].pending.len() + 1).collect();
        radices.push(self.dir_pending.len() + 1);
        let total: usize = radices.iter().product();
        let capped = total > cap;
        let mut out = Vec::new();
        let mut idx = vec![0usize; radices.len()];
        let mut count = 0usize;
        loop {
            if count >= cap {
                break;
            }
            // build image
            let mut d = self.dir_durable.clone();
            let dsel = idx[radices.len() - 1];
            for op in &self.dir_pending[..dsel] {
                apply_dop(&mut d, op);
            }
            let mut img = Image::new();
            for (name, ino) in d {
                let mut c = self.files.get(&ino).map(|f| f.durable.clone()).unwrap_or_default();
                if let Some(pos) = dirty.iter().position(|x| *x == ino) {
                    let f = &self.files[&ino];
                    for op in &f.pending[..idx[pos]] {
                        apply_fop(&mut c, op);
                    }
                }
                img.insert(name, c);
            }
            out.push(img);
            count += 1;
            // next index (mixed radix); iterate so that "everything kept" comes late and
            // "everything dropped" first
            let mut k = 0;
            loop {
                if k == idx.len() {
                    return (dedup(out), capped);
                }
                idx[k] += 1;
                if idx[k] < radices[k] {
                    break;
                }
                idx[k] = 0;
                k += 1;
            }
        }
        (dedup(out), capped)
    }
}

fn dedup(mut v: Vec<Image>) -> Vec<Image> {
    v.sort();
    v.dedup();
    v
}

pub fn materialize(img: &Image, dir: &Path) {
    let _ = std::fs::remove_dir_all(dir);
    std::fs::create_dir_all(dir).expect("mkdir crash dir");
    for (name, data) in img {
        std::fs::write(dir.join(name), data).expect("write crash file");
    }
}

pub fn image_of_dir(dir: &Path) -> Image {
    let mut img = Image::new();
    if let Ok(rd) = std::fs::read_dir(dir) {
        for e in rd.flatten() {
            if e.path().is_file() {
                img.insert(e.file_name().to_string_lossy().to_string(), std::fs::read(e.path()).unwrap_or_default());
            }
        }
    }
    img
}
