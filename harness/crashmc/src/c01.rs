//! C01 — acknowledged writes survive a crash at any instant; restart always succeeds.
//!
//! For every history h.o (h executed unrecorded, o recorded through kvshim) every crash state of
//! o is materialised and recovered with the real engine:
//!   kill      : after each prefix e1..ei of o's effects
//!   torn      : additionally every strict prefix of the next write
//!   powerloss : every combination of (prefix of each file's unsynced effects) x (prefix of the
//!               directory's unsynced entry changes)
//!   nested    : crash inside the recovery of a first-level crash state

use crate::fsmodel::*;
use serde_json::{json, Value};
use std::collections::{BTreeMap, BTreeSet, HashMap};
use std::path::Path;
use vcore::exec::{apply_backend, sequences, std_alphabet, BackendCfg};
use vcore::model::{dump_vs_model, Op, RefModel};
use vcore::shimctl as sc;
use vcore::{dump_backend, Dump, Scratch};

#[derive(Default)]
pub struct Stats {
    pub cases: u64,
    pub effects: u64,
    pub crash_states: u64,
    pub recoveries: u64,
    pub distinct_images: u64,
    pub nontrivial: u64,
    pub nested_states: u64,
    pub powerloss_capped: u64,
    pub outcomes: BTreeSet<u64>,
    pub violations: vcore::findings::SigBag,
    pub skipped_cases: u64,
}

fn hash_bytes<T: std::hash::Hash>(t: &T) -> u64 {
    use std::hash::Hasher;
    let mut h = std::collections::hash_map::DefaultHasher::new();
    t.hash(&mut h);
    h.finish()
}

fn op_kind(op: Option<&Op>) -> &'static str {
    match op {
        None => "OPEN",
        Some(Op::Ins { .. }) => "I",
        Some(Op::Del { .. }) => "D",
        Some(Op::BatchDel { .. }) => "BD",
        Some(Op::UpdMeta { .. }) => "UM",
        Some(Op::Snap) => "SNAP",
        Some(Op::Restart) => "RESTART",
    }
}

fn phase_of(done: &[Effect]) -> &'static str {
    let has = |f: &dyn Fn(&Effect) -> bool| done.iter().any(|e| f(e));
    if has(&|e| e.kind == EKind::Unlink && role_of(&e.path) == "wal") {
        "compaction"
    } else if has(&|e| e.kind == EKind::Rename && role_of(&e.path2) == "snapshot") {
        let snap_pos = done.iter().position(|e| e.kind == EKind::Rename && role_of(&e.path2) == "snapshot").unwrap();
        if done[snap_pos..].iter().any(|e| e.kind == EKind::Rename && role_of(&e.path2) == "manifest") {
            "snapshot-published"
        } else {
            "snapshot-saved"
        }
    } else if has(&|e| e.kind == EKind::Create && role_of(&e.path) == "snapshot.tmp") {
        "snapshot-writing"
    } else if has(&|e| e.kind == EKind::Create && role_of(&e.path) == "wal") {
        "rotation"
    } else if has(&|e| e.kind == EKind::Write && role_of(&e.path) == "wal") {
        "wal-append"
    } else {
        "start"
    }
}

fn err_class(e: &str) -> &'static str {
    let l = e.to_lowercase();
    if l.contains("segment missing") {
        "wal-segment-missing"
    } else if l.contains("corrupted") || l.contains("checksum") {
        "corruption-reported"
    } else if l.contains("manifest") {
        "manifest"
    } else if l.contains("snapshot") {
        "snapshot"
    } else if l.contains("magic") {
        "wal-magic"
    } else {
        "other"
    }
}

pub struct Recorded {
    pub effects: Vec<Effect>,
    pub ok: bool,
}

fn record<F: FnOnce() -> bool>(dir: &Path, f: F) -> Recorded {
    sc::set_root(&dir.to_string_lossy());
    sc::ctl(sc::CMD_LOG_CLEAR, 0, 0);
    sc::ctl(sc::CMD_LOG_ON, 0, 0);
    let ok = f();
    sc::ctl(sc::CMD_LOG_OFF, 0, 0);
    let log = sc::take_log().unwrap_or_default();
    sc::clear_root();
    Recorded { effects: parse_log(&log), ok }
}

pub struct CaseCfg {
    pub powerloss: bool,
    pub torn: bool,
    pub nested: bool,
    pub powerloss_cap: usize,
}

#[derive(Clone, Debug)]
enum StartOut {
    Ok(Dump),
    Err(String),
}

fn start_and_dump(cfg: &BackendCfg, dir: &Path) -> StartOut {
    match cfg.start(dir) {
        Ok(b) => {
            let d = dump_backend(&b);
            drop(b);
            StartOut::Ok(d)
        }
        Err(e) => StartOut::Err(format!("{e:#}")),
    }
}

fn torn_lengths(n: usize) -> Vec<usize> {
    if n <= 1 {
        return vec![];
    }
    if n <= 300 {
        return (1..n).collect();
    }
    let mut v: BTreeSet<usize> = BTreeSet::new();
    for k in 1..=12 {
        v.insert(k);
        v.insert(n - k);
    }
    let mut k = 16;
    while k < n {
        v.insert(k);
        k += 16;
    }
    v.insert(n / 2);
    v.into_iter().filter(|x| *x > 0 && *x < n).collect()
}

/// Run one case: prefix `h` unrecorded, `o` recorded (None = the very first open of an empty
/// directory), then enumerate crash states. `time_gaps_ms[i]` is the logical time advanced before
/// op i (only used with the periodic policy).
pub fn run_case(
    cfg: &BackendCfg,
    h: &[Op],
    o: Option<&Op>,
    cc: &CaseCfg,
    scratch: &Scratch,
    st: &mut Stats,
) {
    let dir = scratch.path.join("data");
    let crash = scratch.path.join("crash");
    let crash2 = scratch.path.join("crash2");
    let _ = std::fs::remove_dir_all(&dir);
    std::fs::create_dir_all(&dir).unwrap();
    st.cases += 1;
    let metric = cfg.metric();
    let mut model = RefModel::default();
    let mut b_opt = None;
    let rec;
    let before;
    let mut after;
    if o.is_none() {
        // recorded op = first open
        let pre = FsModel::from_dir(&dir);
        before = model.clone();
        after = model.clone();
        let mut holder = None;
        rec = record(&dir, || match cfg.open_fresh(&dir) {
            Ok(b) => {
                holder = Some(b);
                true
            }
            Err(_) => false,
        });
        drop(holder);
        enumerate(cfg, metric, &pre, &rec, &before, &after, None, h, cc, &crash, &crash2, st);
        return;
    }
    let o = o.unwrap();
    match cfg.open_fresh(&dir) {
        Ok(b) => b_opt = Some(b),
        Err(_) => {
            st.skipped_cases += 1;
            return;
        }
    }
    for op in h {
        if matches!(op, Op::Restart) {
            drop(b_opt.take());
            match cfg.recover(&dir) {
                Ok(b) => b_opt = Some(b),
                Err(_) => {
                    st.skipped_cases += 1; // C02's business
                    return;
                }
            }
            continue;
        }
        match apply_backend(b_opt.as_ref().unwrap(), op) {
            Ok(_) => {
                model.apply(op);
            }
            Err(_) => {
                st.skipped_cases += 1;
                return;
            }
        }
    }
    let pre = FsModel::from_dir(&dir);
    before = model.clone();
    after = model.clone();
    if matches!(o, Op::Restart) {
        drop(b_opt.take());
        let mut holder = None;
        rec = record(&dir, || match cfg.recover(&dir) {
            Ok(b) => {
                holder = Some(b);
                true
            }
            Err(_) => false,
        });
        drop(holder);
    } else {
        let b = b_opt.take().unwrap();
        rec = record(&dir, || apply_backend(&b, o).is_ok());
        if rec.ok {
            after.apply(o);
        }
        drop(b);
    }
    enumerate(cfg, metric, &pre, &rec, &before, &after, Some(o), h, cc, &crash, &crash2, st);
}

#[allow(clippy::too_many_arguments)]
fn enumerate(
    cfg: &BackendCfg,
    metric: kyrodb_engine::config::DistanceMetric,
    pre: &FsModel,
    rec: &Recorded,
    before: &RefModel,
    after: &RefModel,
    o: Option<&Op>,
    h: &[Op],
    cc: &CaseCfg,
    crash: &Path,
    crash2: &Path,
    st: &mut Stats,
) {
    let n = rec.effects.len();
    st.effects += n as u64;
    let mut m = pre.clone();
    let mut cache: HashMap<u64, StartOut> = HashMap::new();
    let mut prev_outcome: Option<u64> = None;
    let opk = op_kind(o);
    for i in 0..=n {
        let done = &rec.effects[..i];
        let phase = phase_of(done);
        let complete = i == n;
        // collect (mode, detail, image)
        let mut states: Vec<(&'static str, String, Image)> = Vec::new();
        states.push(("kill", String::new(), m.image_kill()));
        if cc.torn && i < n && rec.effects[i].kind == EKind::Write {
            let w = &rec.effects[i];
            for keep in torn_lengths(w.data.len()) {
                states.push(("torn", format!("torn={} keep={}/{}", role_of(&w.path), keep, w.data.len()), m.image_torn(w, keep)));
            }
        }
        if cc.powerloss {
            let (imgs, capped) = m.powerloss_images(cc.powerloss_cap);
            if capped {
                st.powerloss_capped += 1;
            }
            for img in imgs {
                states.push(("powerloss", String::new(), img));
            }
        }
        for (mode, detail, img) in states {
            st.crash_states += 1;
            let key = hash_bytes(&img);
            let out = match cache.get(&key) {
                Some(o) => o.clone(),
                None => {
                    materialize(&img, crash);
                    st.recoveries += 1;
                    st.distinct_images += 1;
                    let so = start_and_dump(cfg, crash);
                    cache.insert(key, so.clone());
                    // nested crash during this recovery (kill model on first-level kill images)
                    if cc.nested && mode == "kill" {
                        if let StartOut::Ok(ref d1) = so {
                            nested(cfg, &img, d1, crash, crash2, phase, st, h, o, i);
                        }
                    }
                    so
                }
            };
            let okey = hash_bytes(&format!("{:?}", match &out { StartOut::Ok(d) => format!("{d:?}"), StartOut::Err(e) => err_class(e).to_string() }));
            st.outcomes.insert(okey);
            if mode == "kill" {
                if prev_outcome.is_some() && prev_outcome != Some(okey) {
                    st.nontrivial += 1;
                }
                prev_outcome = Some(okey);
            }
            let mut verdict: Option<String> = None;
            match &out {
                StartOut::Err(e) => {
                    verdict = Some(format!("startup-fails:{}", err_class(e)));
                }
                StartOut::Ok(d) => {
                    let is_before = dump_vs_model(metric, d, before).is_ok();
                    let is_after = dump_vs_model(metric, d, after).is_ok();
                    if complete && rec.ok {
                        if !is_after {
                            verdict = Some(if is_before { "acked-op-lost".into() } else { "acked-state-wrong".into() });
                        }
                    } else if !(is_before || is_after) {
                        // classify relative to `before`
                        let missing = before.docs.keys().any(|k| !d.contains_key(k)) ;
                        let extra = d.keys().any(|k| !before.docs.contains_key(k) && !after.docs.contains_key(k));
                        // a batch delete applied to a non-empty strict subset of its ids
                        let partial_bd = if let Some(Op::BatchDel { ids }) = o {
                            let mut any = false;
                            let uniq: BTreeSet<u64> = ids.iter().copied().filter(|k| before.docs.contains_key(k)).collect();
                            let ul: Vec<u64> = uniq.iter().copied().collect();
                            for mask in 1..((1u32 << ul.len()) - 1).max(1) {
                                let mut mm = before.clone();
                                for (bi, k) in ul.iter().enumerate() {
                                    if mask & (1 << bi) != 0 {
                                        mm.docs.remove(k);
                                    }
                                }
                                if dump_vs_model(metric, d, &mm).is_ok() {
                                    any = true;
                                }
                            }
                            any
                        } else {
                            false
                        };
                        verdict = Some(if partial_bd {
                            "partial-batch-delete".into()
                        } else if extra {
                            "unacked-data-appears".into()
                        } else if missing && after.docs.keys().any(|k| !d.contains_key(k)) {
                            "acked-doc-lost".into()
                        } else {
                            "neither-before-nor-after".into()
                        });
                    }
                }
            }
            if let Some(sym) = verdict {
                let tornpart = if mode == "torn" { format!("|torn={}", role_of(&rec.effects[i].path)) } else { String::new() };
                let sig = format!("C01|{mode}|phase={phase}{tornpart}|{sym}");
                {
                    st.violations.push((
                        sig,
                        json!({
                            "engine": "crashmc", "check": "C01", "cfg": cfg, "history": h, "recorded_op": o,
                            "mode": mode, "crash_index": i, "effects_total": n, "detail": detail,
                            "recorded_op_kind": opk,
                            "after_effect": if i > 0 { effect_label(&rec.effects[i-1]) } else { "start".into() },
                            "before_effect": if i < n { effect_label(&rec.effects[i]) } else { "end".into() },
                            "effects": rec.effects.iter().map(effect_label).collect::<Vec<_>>(),
                            "image_files": img.iter().map(|(k, v)| (k.clone(), v.len())).collect::<BTreeMap<_, _>>(),
                            "outcome": match &out { StartOut::Ok(d) => vcore::dump_to_json(d), StartOut::Err(e) => json!({"error": e}) },
                            "model_before": before.docs.keys().collect::<Vec<_>>(),
                            "model_after": after.docs.keys().collect::<Vec<_>>(),
                        }),
                    ));
                }
            }
        }
        if i < n {
            m.apply(&rec.effects[i]);
        }
    }
}

#[allow(clippy::too_many_arguments)]
fn nested(
    cfg: &BackendCfg,
    img: &Image,
    d1: &Dump,
    crash: &Path,
    crash2: &Path,
    phase: &str,
    st: &mut Stats,
    h: &[Op],
    o: Option<&Op>,
    i: usize,
) {
    // re-materialise (the first recovery modified `crash`) and record a recovery
    materialize(img, crash);
    let pre2 = FsModel::from_dir(crash);
    let mut holder = None;
    let rec2 = record(crash, || match cfg.start(crash) {
        Ok(b) => {
            holder = Some(b);
            true
        }
        Err(_) => false,
    });
    drop(holder);
    let mut m2 = pre2.clone();
    let n2 = rec2.effects.len();
    let mut seen: BTreeSet<u64> = BTreeSet::new();
    for j in 0..n2 {
        // j = 0..n2-1 : strictly inside the recovery
        let img2 = m2.image_kill();
        let k = hash_bytes(&img2);
        if seen.insert(k) {
            st.nested_states += 1;
            st.recoveries += 1;
            materialize(&img2, crash2);
            let out2 = start_and_dump(cfg, crash2);
            let bad = match &out2 {
                StartOut::Err(e) => Some(format!("startup-fails:{}", err_class(e))),
                StartOut::Ok(d2) => {
                    if d2 != d1 {
                        Some("outcome-differs-from-first-recovery".to_string())
                    } else {
                        None
                    }
                }
            };
            if let Some(sym) = bad {
                let sig = format!("C01|nested-kill|phase={phase}|recovery-phase={}|{sym}", phase_of(&rec2.effects[..j]));
                {
                    st.violations.push((
                        sig,
                        json!({"engine":"crashmc","check":"C01","cfg":cfg,"history":h,"recorded_op":o,"mode":"nested-kill","crash_index":i,"nested_index":j,
                               "recovery_effects": rec2.effects.iter().map(effect_label).collect::<Vec<_>>(),
                               "outcome": match &out2 { StartOut::Ok(d) => vcore::dump_to_json(d), StartOut::Err(e) => json!({"error": e}) },
                               "first_recovery": vcore::dump_to_json(d1)}),
                    ));
                }
            }
        }
        m2.apply(&rec2.effects[j]);
    }
}

// ---------------------------------------------------------------------------------------------

fn grid(tier: &str) -> Vec<BackendCfg> {
    let mk = |snap: usize, rot: u64, cap: usize| BackendCfg {
        metric: "euclidean".into(),
        dim: 2,
        capacity: cap,
        snap_interval: snap,
        rotation: rot,
        fsync: "always".into(),
    };
    if tier == "thorough" {
        let mut v = Vec::new();
        for snap in [0usize, 2] {
            for rot in [1u64, 1 << 20] {
                for cap in [3usize, 64] {
                    v.push(mk(snap, rot, cap));
                }
            }
        }
        v
    } else {
        vec![mk(2, 1, 3), mk(0, 1 << 20, 64), mk(0, 1, 64), mk(2, 1 << 20, 3)]
    }
}

/// All cases for a configuration: (prefix, recorded op index or None)
fn cases(depth: usize, nletters: usize) -> Vec<Vec<usize>> {
    let mut v = vec![vec![]]; // empty = OPEN case
    for d in 1..=depth {
        v.extend(sequences(nletters, d, &[]));
    }
    v
}

pub fn worker(i: usize, n: usize, tier: &str) {
    let depth: usize = std::env::var("C01_DEPTH").ok().and_then(|s| s.parse().ok()).unwrap_or(if tier == "thorough" { 4 } else { 3 });
    let nested_depth: usize = std::env::var("C01_NESTED_DEPTH").ok().and_then(|s| s.parse().ok()).unwrap_or(if tier == "thorough" { 3 } else { 2 });
    let cfgs = grid(tier);
    let scratch = Scratch::new(&format!("c01w{i}"));
    let mut st = Stats::default();
    let mut idx = 0usize;
    let mut samples: Vec<Value> = Vec::new();
    for cfg in &cfgs {
        let alpha = std_alphabet(cfg.dim);
        for seq in cases(depth, alpha.len()) {
            idx += 1;
            if idx % n != i {
                continue;
            }
            let ops: Vec<Op> = seq.iter().map(|&k| alpha[k].clone()).collect();
            let cc = CaseCfg { powerloss: true, torn: true, nested: seq.len() <= nested_depth, powerloss_cap: 512 };
            let before_states = st.crash_states;
            if ops.is_empty() {
                run_case(cfg, &[], None, &cc, &scratch, &mut st);
            } else {
                let (h, o) = ops.split_at(ops.len() - 1);
                run_case(cfg, h, Some(&o[0]), &cc, &scratch, &mut st);
            }
            if samples.len() < 3 && seq.len() == depth && idx % 97 == 0 {
                samples.push(json!({"cfg": cfg.label(), "history": ops.iter().map(|o| o.short()).collect::<Vec<_>>(), "crash_states": st.crash_states - before_states}));
            }
        }
    }
    let per = crate::c01p::worker(i, n, tier);
    vcore::par::worker_emit(&json!({
        "periodic": {"cases": per.cases, "crash_states": per.crash_states, "recoveries": per.recoveries, "nontrivial": per.nontrivial,
                     "violations": per.violations.to_json()},
        "cases": st.cases, "effects": st.effects, "crash_states": st.crash_states, "recoveries": st.recoveries,
        "distinct_images": st.distinct_images, "nontrivial": st.nontrivial, "nested_states": st.nested_states,
        "powerloss_capped": st.powerloss_capped, "outcomes": st.outcomes.iter().collect::<Vec<_>>(),
        "skipped": st.skipped_cases, "samples": samples,
        "violations": st.violations.to_json(),
    }));
}

pub fn run(tier: &str, replay: Option<&str>) -> i32 {
    if !sc::loaded() {
        eprintln!("crashmc: kvshim is not loaded (LD_PRELOAD) — machinery error");
        return 2;
    }
    if let Some(p) = replay {
        return run_replay(p);
    }
    if let Some((i, n)) = vcore::par::worker_id() {
        worker(i, n, tier);
        return 0;
    }
    let mut ev = vcore::evidence::Evidence::new("C01", tier, "fault_enumeration");
    let mut rep = vcore::findings::Reporter::new("C01");
    let res = vcore::par::run_workers(vcore::par::jobs(), &[]);
    let mut tot: BTreeMap<&str, u64> = BTreeMap::new();
    let mut outcomes: BTreeSet<u64> = BTreeSet::new();
    let mut samples: Vec<Value> = Vec::new();
    for r in &res {
        for k in ["cases", "effects", "crash_states", "recoveries", "distinct_images", "nontrivial", "nested_states", "powerloss_capped", "skipped"] {
            *tot.entry(k).or_insert(0) += r[k].as_u64().unwrap_or(0);
        }
        for o in r["outcomes"].as_array().unwrap() {
            outcomes.insert(o.as_u64().unwrap());
        }
        for s in r["samples"].as_array().unwrap() {
            if samples.len() < 4 {
                samples.push(s.clone());
            }
        }
        rep.report_bag(&r["violations"]);
    }
    let mut per = crate::c01p::PerStats::default();
    for r in &res {
        let p = &r["periodic"];
        per.cases += p["cases"].as_u64().unwrap_or(0);
        per.crash_states += p["crash_states"].as_u64().unwrap_or(0);
        per.recoveries += p["recoveries"].as_u64().unwrap_or(0);
        per.nontrivial += p["nontrivial"].as_u64().unwrap_or(0);
        rep.report_bag(&p["violations"]);
    }
    // server-level slice: the real binary killed before each of its file-system calls (srvmc C01S)
    let mut srv_points = 0u64;
    match run_server_slice(tier) {
        Ok(v) => {
            srv_points = v["crash_points"].as_u64().unwrap_or(0) + v["kill_in_recovery_points"].as_u64().unwrap_or(0);
            rep.report_bag(&v["violations"]);
            ev.set("server_slice", json!({"crash_points_of_the_real_binary": v["crash_points"], "kill_in_recovery_points": v["kill_in_recovery_points"], "launches": v["launches"], "killed_before": v["killed_at"], "variants": v["variants"],
                "rule": "the REAL server binary (srvmc re-executed as kyrodb_server's main()) runs under kvshim's kill mode on an EMPTY directory while a client drives insert, insert, delete, insert, metadata update, overwrite, overwrite over gRPC (snapshot every 2 mutations, 300-byte rotation): for n = 1, 2, ... until a run survives the whole history the process dies right before its n-th file-system call under the data directory (and, in a second pass, after writing half of it when that call is a write); the real binary is then started normally on what is left: it must start and serve the acknowledged operations, optionally followed by the one in flight; it is also killed during that start-up before its k-th call for every k (quick: at the crash points of the first start-up and every third later one), and the start-up after that must serve the same collection"}));
        }
        Err(e) => {
            eprintln!("C01: machinery error in the server-level slice: {e}");
            return 2;
        }
    }
    let depth: usize = std::env::var("C01_DEPTH").ok().and_then(|s| s.parse().ok()).unwrap_or(if tier == "thorough" { 4 } else { 3 });
    ev.set("evaluations", tot["crash_states"] + per.crash_states + srv_points);
    ev.set("distinct_nontrivial", tot["nontrivial"] + per.nontrivial);
    ev.set("rule", format!("for every configuration and every history h.o of length <= {depth} over the 9-letter alphabet (plus the first open), o is recorded through kvshim and every crash state is recovered by the real engine: kill after each effect prefix, every torn prefix of the next write (all lengths <= 300 B, boundary lengths above), every power-loss combination of per-file / per-directory unsynced prefixes (cap 512 per point), and, for histories up to the nested depth, a crash at every effect boundary inside the recovery itself; non-trivial = kill points whose recovered outcome differs from the outcome at the previous kill point of the same operation"));
    ev.set("samples", Value::Array(samples));
    ev.set("exhaustive", tot["powerloss_capped"] == 0);
    ev.set("cases_h_o", tot["cases"]);
    ev.set("effects_recorded", tot["effects"]);
    ev.set("recoveries_run", tot["recoveries"] + per.recoveries);
    ev.set("distinct_crash_images", tot["distinct_images"]);
    ev.set("nested_crash_states", tot["nested_states"]);
    ev.set("powerloss_points_capped", tot["powerloss_capped"]);
    ev.set("distinct_outcomes", outcomes.len() as u64);
    ev.set("skipped_cases_prefix_error", tot["skipped"]);
    ev.set("periodic_policy", json!({"cases": per.cases, "crash_states": per.crash_states, "recoveries": per.recoveries}));
    ev.set("configurations", grid(tier).iter().map(|c| c.label()).collect::<Vec<_>>());
    ev.assume("power-loss model as the property defines it: per file, effects since its last fsync/fdatasync may be lost as an ordered suffix; directory entry changes since the last directory fsync likewise; different files independently");
    ev.assume("engine level: the server's start-up decision (MANIFEST present, or snapshot / non-empty WAL segment present => strict recover, else fresh start) is replicated by vcore::exec::BackendCfg::start; the server-level slice exercises main()'s own decision on kill states (no power-loss states there)");
    ev.assume("kvshim interposes open/write/fsync/fdatasync/ftruncate/rename/unlink; the engine issues no other mutating call under the data directory");
    ev.violations = rep.violations as i64;
    ev.write();
    println!(
        "C01 {tier}: cases={} effects={} crash_states={} recoveries={} nested={} distinct_outcomes={} periodic_cases={} violations={}",
        tot["cases"], tot["effects"], tot["crash_states"], tot["recoveries"], tot["nested_states"], outcomes.len(), per.cases, rep.violations
    );
    rep.finish()
}

fn run_server_slice(tier: &str) -> Result<Value, String> {
    let bin = std::env::var("SRVMC_BIN").map_err(|_| "SRVMC_BIN not set (run through bin/check)".to_string())?;
    let out = vcore::par::output_retry(std::process::Command::new(&bin).arg("C01S").arg(tier)).map_err(|e| format!("cannot run {bin}: {e}"))?;
    let stdout = String::from_utf8_lossy(&out.stdout);
    let line = stdout.lines().find_map(|l| l.strip_prefix("C01S-RESULT ")).ok_or_else(|| format!("no result line; exit {:?}; stderr: {}", out.status.code(), String::from_utf8_lossy(&out.stderr)))?;
    serde_json::from_str(line).map_err(|e| format!("bad result: {e}"))
}

fn run_replay(path: &str) -> i32 {
    let v: Value = serde_json::from_str(&std::fs::read_to_string(path).expect("read")).expect("json");
    let case = &v["case"];
    if case["check"] == "C01S" {
        let sig = v["signature"].as_str().unwrap_or("").to_string();
        return match run_server_slice("thorough") {
            Ok(r) => {
                if r["violations"].as_array().map(|a| a.iter().any(|x| x["sig"] == sig.as_str())).unwrap_or(false) {
                    println!("replay: reproduced {sig}");
                    println!("VIOLATION property=C01 replay={path}");
                    1
                } else {
                    println!("replay: no violation with signature {sig}");
                    0
                }
            }
            Err(e) => {
                eprintln!("machinery error: {e}");
                2
            }
        };
    }
    let cfg: BackendCfg = serde_json::from_value(case["cfg"].clone()).unwrap();
    let h: Vec<Op> = serde_json::from_value(case["history"].clone()).unwrap();
    let o: Option<Op> = serde_json::from_value(case["recorded_op"].clone()).unwrap();
    if case["mode"] == "periodic-powerloss" {
        return crate::c01p::replay(case);
    }
    let scratch = Scratch::new("c01replay");
    let mut st = Stats::default();
    let cc = CaseCfg { powerloss: true, torn: true, nested: case["mode"] == "nested-kill", powerloss_cap: 512 };
    run_case(&cfg, &h, o.as_ref(), &cc, &scratch, &mut st);
    let want = v["signature"].as_str().unwrap_or("");
    let hit = st.violations.first_of(want).is_some();
    if let Some(r) = st.violations.first_of(want) {
        println!("replay: reproduced {want}: {}", serde_json::to_string(&r["outcome"]).unwrap());
    }
    if hit {
        println!("VIOLATION property=C01 replay={path}");
        1
    } else {
        println!("replay: signature not reproduced ({} other signatures)", st.violations.len());
        0
    }
}
