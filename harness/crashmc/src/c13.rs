//! C13 — strict recovery never silently returns damaged state.
//!
//! Clean-shutdown directories produced by a fixed list of histories; for every file the single
//! fault space is enumerated completely: every bit flip, every truncation length, deletion.

use crate::fsmodel::{image_of_dir, materialize, Image};
use serde_json::{json, Value};
use std::collections::{BTreeMap, BTreeSet};
use vcore::exec::{apply_backend, BackendCfg};
use vcore::findings::SigBag;
use vcore::model::{meta1, Op};
use vcore::{dump_backend, Dump, Scratch};

fn ins(id: u64, x: f32, y: f32, tag: &str) -> Op {
    Op::Ins { id, v: vec![x, y], m: meta1("t", tag) }
}

/// Histories (name, cfg, ops). `Restart` = clean shutdown + strict recover.
pub fn directories(tier: &str) -> Vec<(String, BackendCfg, Vec<Op>)> {
    let mk = |snap: usize, rot: u64| BackendCfg {
        metric: "euclidean".into(),
        dim: 2,
        capacity: 64,
        snap_interval: snap,
        rotation: rot,
        fsync: "always".into(),
    };
    let mut v = vec![
        (
            "wal-only-two-sessions".to_string(),
            mk(0, 1 << 20),
            vec![ins(1, 1.0, 0.0, "a"), ins(2, 0.0, 1.0, "b"), ins(3, 1.0, 1.0, "c"), Op::Restart, ins(4, 2.0, 0.0, "d"), Op::Del { id: 2 }],
        ),
        (
            "two-snapshots-rotation-compaction".to_string(),
            mk(0, 1),
            vec![
                ins(1, 1.0, 0.0, "a"),
                ins(2, 0.0, 1.0, "b"),
                Op::Snap,
                ins(3, 1.0, 1.0, "c"),
                Op::Del { id: 1 },
                Op::Snap,
                ins(4, 2.0, 0.0, "d"),
                Op::UpdMeta { id: 2, m: meta1("t", "b2"), merge: true },
            ],
        ),
    ];
    // an older snapshot with sequence number 0 (taken before the first write): the "no sequence
    // information" edge of the fallback-coverage logic
    v.push((
        "baseline-snapshot-before-first-write".to_string(),
        mk(0, 1),
        vec![Op::Snap, ins(1, 1.0, 0.0, "a"), ins(2, 0.0, 1.0, "b"), Op::Del { id: 1 }, Op::UpdMeta { id: 2, m: meta1("t", "b2"), merge: true }, Op::Snap, ins(3, 1.0, 1.0, "c")],
    ));
    let _ = tier; // every directory shape is enumerated in both tiers (the tiers differ in the server-level slice)
    {
        v.push((
            "auto-snapshots-interval-2".to_string(),
            mk(2, 1 << 20),
            vec![ins(1, 1.0, 0.0, "a"), ins(2, 0.0, 1.0, "b"), ins(3, 1.0, 1.0, "c"), Op::Del { id: 3 }, ins(1, 5.0, 5.0, "a2"), Op::Restart, ins(6, 0.5, 0.5, "f")],
        ));
        v.push((
            "snapshot-then-restart-then-writes".to_string(),
            mk(0, 1),
            vec![ins(1, 1.0, 0.0, "a"), Op::Snap, Op::Restart, ins(2, 0.0, 1.0, "b"), Op::Snap, Op::Restart, ins(3, 1.0, 1.0, "c"), Op::BatchDel { ids: vec![1, 2] }],
        ));
        v.push((
            "no-rotation-snapshot-midway".to_string(),
            mk(0, 0),
            vec![ins(1, 1.0, 0.0, "a"), ins(2, 0.0, 1.0, "b"), Op::Snap, Op::Del { id: 1 }, ins(3, 1.0, 1.0, "c")],
        ));
    }
    // wide vectors: snapshot and a (non-newest) WAL segment larger than the readers' 8 KiB buffer,
    // so that frames and records straddle a buffer refill
    {
        let wide = |id: u64, salt: usize| Op::Ins { id, v: (0..64).map(|j| (((id as usize * 7919 + j * 104_729 + salt * 613) % 2001) as f32) / 1000.0 - 1.0).collect(), m: meta1("t", &format!("w{id}-{salt}")) };
        let mut ops: Vec<Op> = (1..=34u64).map(|id| wide(id, 0)).collect();
        ops.push(Op::Snap);
        ops.extend((30..=60u64).map(|id| wide(id, 1)));
        ops.push(Op::Del { id: 3 });
        ops.push(Op::Restart);
        ops.push(wide(61, 2));
        v.push(("wide-vectors-files-larger-than-read-buffer".to_string(), BackendCfg { metric: "euclidean".into(), dim: 64, capacity: 128, snap_interval: 0, rotation: 1 << 20, fsync: "always".into() }, ops));
    }
    v
}

struct Built {
    image: Image,
    dump: Dump,
    newest_wal: Option<String>,
    manifest_segments: Vec<String>,
    latest_snapshot: Option<String>,
}

fn build(cfg: &BackendCfg, ops: &[Op], scratch: &Scratch) -> Built {
    // every directory is built from the same logical instant, so its file names (micro-second
    // timestamps) do not depend on what this process built before: a chunk worker that builds only
    // its own directory and a replay see byte-identical names
    vcore::shimctl::ctl(vcore::shimctl::CMD_CLOCK_SET_NS, 1_700_000_000_000_000_000, 0);
    let dir = scratch.path.join("c13src");
    let _ = std::fs::remove_dir_all(&dir);
    let mut b = cfg.open_fresh(&dir).expect("open");
    for op in ops {
        if matches!(op, Op::Restart) {
            drop(b);
            b = cfg.recover(&dir).expect("recover");
        } else {
            apply_backend(&b, op).expect("op");
        }
    }
    let dump = dump_backend(&b);
    drop(b);
    let image = image_of_dir(&dir);
    let man: Value = serde_json::from_slice(&image["MANIFEST"]).expect("manifest json");
    let segs: Vec<String> = man["wal_segments"].as_array().unwrap().iter().map(|x| x.as_str().unwrap().to_string()).collect();
    Built {
        newest_wal: segs.last().cloned(),
        manifest_segments: segs,
        latest_snapshot: man["latest_snapshot"].as_str().map(|s| s.to_string()),
        image,
        dump,
    }
}

fn role(name: &str, b: &Built) -> String {
    if name == "MANIFEST" {
        "manifest".into()
    } else if name.starts_with("wal_") {
        if Some(name.to_string()) == b.newest_wal {
            "wal:newest".into()
        } else if b.manifest_segments.iter().any(|s| s == name) {
            "wal:non-newest".into()
        } else {
            "wal:unreferenced".into()
        }
    } else if name.starts_with("snapshot_") {
        if Some(name.to_string()) == b.latest_snapshot {
            "snapshot:latest".into()
        } else {
            "snapshot:older".into()
        }
    } else {
        "other".into()
    }
}

/// Structural field of byte offset `off` in file `name`.
fn field_of(name: &str, data: &[u8], off: usize) -> String {
    if name.starts_with("wal_") {
        if off < 4 {
            return "magic".into();
        }
        let mut p = 4usize;
        while p + 4 <= data.len() {
            let len = u32::from_le_bytes(data[p..p + 4].try_into().unwrap()) as usize;
            if off < p + 4 {
                return "frame.len".into();
            }
            if off < p + 4 + len {
                return "frame.payload".into();
            }
            if off < p + 4 + len + 4 {
                return "frame.crc".into();
            }
            p += 4 + len + 4;
        }
        "tail".into()
    } else if name.starts_with("snapshot_") {
        if off < 4 {
            "magic".into()
        } else if off < 12 {
            "size".into()
        } else if off + 4 >= data.len() {
            "crc".into()
        } else {
            "payload".into()
        }
    } else if name == "MANIFEST" {
        // pretty JSON: one field per line
        let text = String::from_utf8_lossy(data);
        let mut start = 0usize;
        let mut cur_key = String::from("?");
        for line in text.split_inclusive('\n') {
            let end = start + line.len();
            let trimmed = line.trim_start();
            if trimmed.starts_with('"') && trimmed.contains("\":") {
                cur_key = trimmed[1..].split('"').next().unwrap_or("?").to_string();
            }
            if off >= start && off < end {
                let col = off - start;
                let indent = line.len() - trimmed.len();
                if trimmed.starts_with('"') && trimmed.contains("\":") {
                    let key_end = indent + 1 + cur_key.len() + 1;
                    let part = if col < indent { "ws" } else if col < key_end { "key" } else { "value" };
                    return format!("{cur_key}.{part}");
                }
                if trimmed.starts_with('"') {
                    return format!("{cur_key}[].value");
                }
                return "punct".into();
            }
            start = end;
        }
        "?".into()
    } else {
        "?".into()
    }
}

fn symptom(pre: &Dump, got: &Dump) -> &'static str {
    if pre.keys().any(|k| !got.contains_key(k)) {
        "docs-missing"
    } else if got.keys().any(|k| !pre.contains_key(k)) {
        "docs-resurrected"
    } else {
        "docs-altered"
    }
}

#[derive(Default)]
pub struct Stats {
    pub faults: u64,
    pub refused: u64,
    pub panicked: u64,
    pub exact: u64,
    pub excluded_tail: u64,
    pub violations: SigBag,
    pub outcomes: BTreeSet<u64>,
}

fn hash_dump(d: &Dump) -> u64 {
    use std::hash::{Hash, Hasher};
    let mut h = std::collections::hash_map::DefaultHasher::new();
    format!("{d:?}").hash(&mut h);
    h.finish()
}

enum Fault {
    Flip { file: String, off: usize, bit: u8 },
    Trunc { file: String, len: usize },
    Delete { file: String },
}

/// Files larger than this are "wide" (the wide-vectors directory): the quick tier enumerates every
/// bit / length only in the windows where the readers' 8 KiB buffers refill, at both ends of the
/// file, and on a stride elsewhere; the thorough tier enumerates everything.
const WIDE_FILE_BYTES: usize = 6000;

fn in_dense_window(off: usize, len: usize) -> bool {
    off < 48 || off + 48 >= len || (off % 8192) < 12 || (off % 8192) + 12 >= 8192
}

fn all_faults(b: &Built, tier: &str) -> Vec<Fault> {
    let mut v = Vec::new();
    for (name, data) in &b.image {
        let wide = data.len() > WIDE_FILE_BYTES && tier != "thorough";
        v.push(Fault::Delete { file: name.clone() });
        for len in 0..data.len() {
            if wide && !in_dense_window(len, data.len()) && len % 131 != 0 {
                continue;
            }
            v.push(Fault::Trunc { file: name.clone(), len });
        }
        for off in 0..data.len() {
            let dense = !wide || in_dense_window(off, data.len());
            if !dense && off % 29 != 0 {
                continue;
            }
            for bit in 0..8u8 {
                if !dense && bit != (off / 29 % 8) as u8 {
                    continue;
                }
                v.push(Fault::Flip { file: name.clone(), off, bit });
            }
        }
    }
    v
}

/// Per directory: (number of faults, description). Computed once by the parent and handed to the
/// chunk workers (C13_DIR_FAULTS) so that a worker only builds the directories its range touches.
pub fn dir_table(tier: &str) -> Vec<(usize, Value)> {
    let scratch = Scratch::new("c13count");
    directories(tier)
        .iter()
        .map(|(name, cfg, ops)| {
            let b = build(cfg, ops, &scratch);
            (all_faults(&b, tier).len(), json!({"name": name, "files": b.image.iter().map(|(k, v)| (k.clone(), v.len())).collect::<BTreeMap<_, _>>(), "docs": b.dump.len()}))
        })
        .collect()
}

pub fn worker(lo: usize, hi: usize, skip: &[usize], tier: &str) {
    let scratch = Scratch::new(&format!("c13w{lo}"));
    let mut base = 0usize;
    let mut st = Stats::default();
    let mut samples = Vec::new();
    let counts: Option<Vec<usize>> = std::env::var("C13_DIR_FAULTS").ok().map(|s| s.split(',').filter_map(|x| x.parse().ok()).collect());
    for (di, (name, cfg, ops)) in directories(tier).into_iter().enumerate() {
        if let Some(n) = counts.as_ref().and_then(|c| c.get(di)) {
            if base >= hi || base + n <= lo {
                base += n;
                continue;
            }
        }
        let b = build(&cfg, &ops, &scratch);
        let faults = all_faults(&b, tier);
        if let Some(n) = counts.as_ref().and_then(|c| c.get(di)) {
            if *n != faults.len() {
                eprintln!("C13 worker: directory {name} has {} faults here, {n} in the parent (machinery error)", faults.len());
                std::process::exit(2);
            }
        }
        let dir_base = base;
        base += faults.len();
        if dir_base >= hi || base <= lo {
            continue;
        }
        // allowed torn-tail outcomes: truncate the newest segment at every length on the intact dir
        // (computed on first use: only a start-up that succeeds with a different collection after
        // damage to the newest segment needs it)
        let mut tail_ok_cache: Option<BTreeSet<u64>> = None;
        let compute_tail_ok = |b: &Built| -> BTreeSet<u64> {
            let mut tail_ok: BTreeSet<u64> = BTreeSet::new();
            if let Some(nw) = &b.newest_wal {
                if let Some(data) = b.image.get(nw) {
                    for len in 0..data.len() {
                        let mut img = b.image.clone();
                        img.get_mut(nw).unwrap().truncate(len);
                        let cd = scratch.path.join("c13tail");
                        materialize(&img, &cd);
                        if let Ok(be) = cfg.recover(&cd) {
                            tail_ok.insert(hash_dump(&dump_backend(&be)));
                        }
                    }
                }
            }
            tail_ok
        };
        for (fi, f) in faults.iter().enumerate() {
            let gi = dir_base + fi;
            if gi < lo || gi >= hi || skip.contains(&gi) {
                continue;
            }
            vcore::par::progress(gi);
            let mut img = b.image.clone();
            let (file, kind, field, detail) = match f {
                Fault::Delete { file } => {
                    img.remove(file);
                    (file.clone(), "delete", "file".to_string(), json!({"delete": file}))
                }
                Fault::Trunc { file, len } => {
                    let fld = field_of(file, &b.image[file], *len);
                    img.get_mut(file).unwrap().truncate(*len);
                    (file.clone(), "truncate", fld, json!({"truncate": file, "len": len}))
                }
                Fault::Flip { file, off, bit } => {
                    let fld = field_of(file, &b.image[file], *off);
                    img.get_mut(file).unwrap()[*off] ^= 1 << bit;
                    (file.clone(), "bitflip", fld, json!({"flip": file, "offset": off, "bit": bit}))
                }
            };
            st.faults += 1;
            let cd = scratch.path.join("c13case");
            materialize(&img, &cd);
            let r = std::panic::catch_unwind(std::panic::AssertUnwindSafe(|| cfg.recover(&cd).map(|be| dump_backend(&be))));
            let rl = role(&file, &b);
            match r {
                Err(_) => {
                    // a panic during start-up kills the process: it does not start with damaged
                    // state. Counted separately from orderly refusals.
                    st.panicked += 1;
                    st.outcomes.insert(1);
                }
                Ok(Err(_)) => {
                    st.refused += 1;
                    st.outcomes.insert(0);
                }
                Ok(Ok(d)) => {
                    st.outcomes.insert(hash_dump(&d));
                    if d == b.dump {
                        st.exact += 1;
                    } else if rl == "wal:newest" && tail_ok_cache.get_or_insert_with(|| compute_tail_ok(&b)).contains(&hash_dump(&d)) {
                        st.excluded_tail += 1;
                    } else {
                        let sym = symptom(&b.dump, &d);
                        st.violations.push((
                            format!("C13|{rl}|{kind}|{field}|{sym}"),
                            json!({"engine":"crashmc","check":"C13","directory":name,"cfg":cfg,"history":ops,"fault":detail,
                                   "recovered": vcore::dump_to_json(&d), "pre_damage": vcore::dump_to_json(&b.dump)}),
                        ));
                    }
                }
            }
            if samples.len() < 3 && fi % 4001 == 17 {
                samples.push(json!({"directory": name, "fault": detail, "role": rl, "field": field}));
            }
        }
    }
    vcore::par::worker_emit(&json!({
        "faults": st.faults, "panicked": st.panicked, "refused": st.refused, "exact": st.exact, "excluded_tail": st.excluded_tail,
        "violations": st.violations.to_json(), "outcomes": st.outcomes.iter().collect::<Vec<_>>(), "samples": samples,
    }));
}

pub fn run(tier: &str, replay: Option<&str>) -> i32 {
    if let Some(p) = replay {
        return run_replay(p);
    }
    if let Some((lo, hi, skip)) = vcore::par::range_from_env() {
        worker(lo, hi, &skip, tier);
        return 0;
    }
    let mut ev = vcore::evidence::Evidence::new("C13", tier, "fault_enumeration");
    let mut rep = vcore::findings::Reporter::new("C13");
    let t0 = std::time::Instant::now();
    let table = dir_table(tier);
    let total: usize = table.iter().map(|(n, _)| *n).sum();
    std::env::set_var("C13_DIR_FAULTS", table.iter().map(|(n, _)| n.to_string()).collect::<Vec<_>>().join(","));
    let _ = t0;
    let (res, aborted) = vcore::par::run_chunked(total, 400);
    let mut tot: BTreeMap<&str, u64> = BTreeMap::new();
    let mut outcomes: BTreeSet<u64> = BTreeSet::new();
    let mut samples = Vec::new();
    for r in &res {
        for k in ["faults", "refused", "panicked", "exact", "excluded_tail"] {
            *tot.entry(k).or_insert(0) += r[k].as_u64().unwrap_or(0);
        }
        for o in r["outcomes"].as_array().unwrap() {
            outcomes.insert(o.as_u64().unwrap());
        }
        for s in r["samples"].as_array().unwrap() {
            if samples.len() < 5 {
                samples.push(s.clone());
            }
        }
        rep.report_bag(&r["violations"]);
    }
    // server-level slice: the real binary on directories it produced itself (srvmc C13S)
    let mut srv_faults = 0u64;
    let mut srv_refused = 0u64;
    match run_server_slice(tier) {
        Ok(v) => {
            srv_faults = v["faults"].as_u64().unwrap_or(0);
            srv_refused = v["refused"].as_u64().unwrap_or(0);
            rep.report_bag(&v["violations"]);
            ev.set("server_slice_launches_of_the_real_binary", v["launches"].clone());
            ev.set("server_slice_faults", v["faults"].clone());
            ev.set("server_slice_refused_to_start", v["refused"].clone());
            ev.set("server_slice_started_and_served_pre_damage_collection", v["started_equal"].clone());
            ev.set("server_slice_outcomes", v["outcomes"].clone());
        }
        Err(e) => {
            eprintln!("C13: machinery error in the server-level slice: {e}");
            return 2;
        }
    }
    ev.set("evaluations", tot["faults"] + srv_faults);
    ev.set("distinct_nontrivial", tot["refused"] + srv_refused);
    ev.set("rule", "server level: directories produced by the REAL server binary (gRPC writes, SIGTERM), every file x {deletion, truncation to 0 / half, bit flip at first / middle / last byte} (truncations of the newest segment excluded), the real binary is started on the damaged copy: it must exit before its port opens, or serve (Query over gRPC) exactly what it serves from the undamaged directory. engine level: for each clean-shutdown directory (fixed histories with snapshots, rotated and compacted segments, several sessions): every file x (every single bit flip | every truncation length | deletion), each recovered with strict HnswBackend::recover; non-trivial = faults that strict recovery refuses (detected damage); a fault passes if recovery refuses or the dump equals the pre-damage dump; faults on the newest WAL segment whose outcome equals the outcome of some plain truncation of that segment are the excluded torn-tail case");
    ev.set("samples", Value::Array(samples));
    ev.set("exhaustive", true);
    ev.set("refused", tot["refused"]);
    ev.set("startup_panicked", tot["panicked"]);
    ev.set("recovered_exactly", tot["exact"]);
    ev.set("excluded_as_torn_tail_of_newest_segment", tot["excluded_tail"]);
    ev.set("distinct_outcomes", outcomes.len() as u64);
    ev.set("faults_where_the_process_aborted", aborted.len() as u64);
    ev.set("aborted_fault_indices", aborted.iter().take(100).map(|x| *x as u64).collect::<Vec<_>>());
    ev.set("directories", table.iter().map(|(_, m)| m.clone()).collect::<Vec<_>>());
    ev.assume("a fault on which the start-up process aborts (e.g. allocation failure on a corrupted size field) counts as a refusal to start: the property forbids starting successfully with damaged state, which an abort does not do");
    ev.assume("single faults only; directories come from a fixed list of histories, not all histories");
    ev.assume("the torn-tail exclusion is computed from the engine's own behaviour on plain truncations of the newest segment of the intact directory");
    ev.violations = rep.violations as i64;
    ev.write();
    println!(
        "C13 {tier}: faults={} refused={} aborted={} exact={} excluded_tail={} distinct_outcomes={} violations={}",
        tot["faults"], tot["refused"], aborted.len(), tot["exact"], tot["excluded_tail"], outcomes.len(), rep.violations
    );
    rep.finish()
}

fn run_server_slice(tier: &str) -> Result<Value, String> {
    let bin = std::env::var("SRVMC_BIN").map_err(|_| "SRVMC_BIN not set (run through bin/check)".to_string())?;
    let out = vcore::par::output_retry(std::process::Command::new(&bin).arg("C13S").arg(tier)).map_err(|e| format!("cannot run {bin}: {e}"))?;
    let stdout = String::from_utf8_lossy(&out.stdout);
    let line = stdout.lines().find_map(|l| l.strip_prefix("C13S-RESULT ")).ok_or_else(|| format!("no result line; exit {:?}; stderr: {}", out.status.code(), String::from_utf8_lossy(&out.stderr)))?;
    serde_json::from_str(line).map_err(|e| format!("bad result: {e}"))
}

fn run_replay(path: &str) -> i32 {
    let v: Value = serde_json::from_str(&std::fs::read_to_string(path).expect("read")).expect("json");
    let case = &v["case"];
    if case["check"] == "C13S" {
        // server-level cases: re-run the slice and look for the same signature
        let sig = v["signature"].as_str().unwrap_or("").to_string();
        return match run_server_slice("thorough") {
            Ok(r) => {
                if r["violations"].as_array().map(|a| a.iter().any(|x| x["sig"] == sig.as_str())).unwrap_or(false) {
                    println!("replay: reproduced {sig}");
                    println!("VIOLATION property=C13 replay={path}");
                    1
                } else {
                    println!("replay: no violation with signature {sig}");
                    0
                }
            }
            Err(e) => {
                eprintln!("machinery error: {e}");
                2
            }
        };
    }
    let cfg: BackendCfg = serde_json::from_value(case["cfg"].clone()).unwrap();
    let ops: Vec<Op> = serde_json::from_value(case["history"].clone()).unwrap();
    let scratch = Scratch::new("c13replay");
    let b = build(&cfg, &ops, &scratch);
    let mut img = b.image.clone();
    let f = &case["fault"];
    // file names embed (logical) timestamps; they are reproducible under kvshim's clock
    if let Some(file) = f["flip"].as_str() {
        let off = f["offset"].as_u64().unwrap() as usize;
        let bit = f["bit"].as_u64().unwrap() as u8;
        match img.get_mut(file) {
            Some(d) => d[off] ^= 1 << bit,
            None => {
                println!("replay: file {file} not present in rebuilt directory (clock differs?)");
                return 2;
            }
        }
    } else if let Some(file) = f["truncate"].as_str() {
        img.get_mut(file).map(|d| d.truncate(f["len"].as_u64().unwrap() as usize));
    } else if let Some(file) = f["delete"].as_str() {
        img.remove(file);
    }
    let cd = scratch.path.join("c13case");
    materialize(&img, &cd);
    match cfg.recover(&cd).map(|be| dump_backend(&be)) {
        Err(e) => {
            println!("replay: strict recovery refused: {e:#}");
            0
        }
        Ok(d) => {
            if d == b.dump {
                println!("replay: recovered exactly");
                0
            } else {
                println!("replay: recovered {} but pre-damage was {}", vcore::dump_to_json(&d), vcore::dump_to_json(&b.dump));
                println!("VIOLATION property=C13 replay={path}");
                1
            }
        }
    }
}
