//! Stateless depth-first exploration of schedules with a preemption bound (CHESS style) on top
//! of `parking_lot::sched::run_one`.

use parking_lot::sched::{self, Body, ExecResult, Outcome, RunConfig};
use std::collections::{BTreeMap, BTreeSet};
use std::sync::Arc;
use std::time::{Duration, Instant};

pub struct ExploreCfg {
    pub bound: usize,
    pub max_execs: usize,
    pub max_steps: usize,
    pub reduce: bool,
    pub wall: Duration,
}

impl Default for ExploreCfg {
    fn default() -> Self {
        ExploreCfg { bound: 2, max_execs: 200_000, max_steps: 20_000, reduce: true, wall: Duration::from_secs(600) }
    }
}

#[derive(Default, Debug, Clone)]
pub struct ExploreOut {
    pub executions: u64,
    pub points: u64,
    pub branching_points: u64,
    pub max_choices: usize,
    pub capped: bool,
    pub restarts_for_new_conflicts: u32,
    pub conflict_locks: usize,
    pub deadlocks: u64,
    pub horizons: u64,
    pub stalled: u64,
    pub diverged: u64,
    pub max_preemptions_used: usize,
    pub edges: BTreeSet<(String, String, String, String)>,
}

/// One exploration. `mk` builds a fresh world and returns the thread bodies plus a handle `W`
/// that `check` receives after the execution together with the scheduler's result.
/// `check` returns false to stop the exploration early (first violation is enough).
pub fn explore<W, MK, CHK>(cfg: &ExploreCfg, mut mk: MK, mut check: CHK) -> ExploreOut
where
    W: Send,
    MK: FnMut() -> (Vec<Body>, W) + Send,
    CHK: FnMut(&ExecResult, W, &[u8]) -> bool,
{
    let t0 = Instant::now();
    let mut out = ExploreOut::default();
    let mut conflict: BTreeSet<u64> = BTreeSet::new();
    // touches accumulated over all executions: key -> (tid mask, nonread)
    let mut touch: BTreeMap<u64, (u32, bool)> = BTreeMap::new();
    let mut site_of: BTreeMap<u64, String> = BTreeMap::new();
    'restart: loop {
        let mut stack: Vec<Vec<u8>> = vec![Vec::new()];
        let conf_arc = if cfg.reduce { Some(Arc::new(conflict.clone())) } else { None };
        while let Some(prefix) = stack.pop() {
            if out.executions as usize >= cfg.max_execs || t0.elapsed() > cfg.wall {
                out.capped = true;
                break 'restart;
            }
            sched::reset_lock_keys();
            // Same hash seeds in every execution: std's RandomState takes per-thread keys from
            // getrandom (served by kvshim from (epoch, call counter)) and then increments them per
            // map, so the world is built on a FRESH thread after resetting the counter. Otherwise
            // HashMap iteration order (e.g. the order a drain visits documents) drifts between
            // executions and replayed prefixes diverge.
            if vcore::shimctl::loaded() {
                vcore::shimctl::ctl(vcore::shimctl::CMD_RAND_EPOCH, 7, 0);
            }
            let (bodies, world) = std::thread::scope(|s| s.spawn(|| mk()).join().expect("world builder panicked"));
            let res = sched::run_one(
                bodies,
                RunConfig { prefix: prefix.clone(), max_steps: cfg.max_steps, conflict: conf_arc.clone(), record_trace: std::env::var("KSCHED_TRACE").is_ok(), wall_limit: Duration::from_secs(600) },
            );
            out.executions += 1;
            out.points += res.points.len() as u64;
            out.max_choices = out.max_choices.max(res.choices.len());
            out.max_preemptions_used = out.max_preemptions_used.max(res.preemptions);
            if res.diverged {
                out.diverged += 1;
            }
            match &res.outcome {
                Outcome::Deadlock(_) => out.deadlocks += 1,
                Outcome::Horizon => out.horizons += 1,
                Outcome::Stalled => out.stalled += 1,
                Outcome::Completed => {}
            }
            for (k, t) in &res.touches {
                let e = touch.entry(*k).or_insert((0, false));
                e.0 |= t.tids;
                e.1 |= t.nonread;
                site_of.entry(*k).or_insert_with(|| t.site.clone());
            }
            for (a, am, b, bm) in &res.edges {
                let sa = site_of.get(a).cloned().unwrap_or_default();
                let sb = site_of.get(b).cloned().unwrap_or_default();
                out.edges.insert((sa, format!("{am:?}"), sb, format!("{bm:?}")));
            }
            // new conflicts?
            if cfg.reduce {
                let mut grew = false;
                for (k, (mask, nonread)) in &touch {
                    if mask.count_ones() >= 2 && *nonread && !conflict.contains(k) {
                        conflict.insert(*k);
                        grew = true;
                    }
                }
                if grew {
                    // keep the verdict of this execution, then restart with the larger set
                    let cont = check(&res, world, &prefix);
                    out.restarts_for_new_conflicts += 1;
                    if !cont {
                        break 'restart;
                    }
                    continue 'restart;
                }
            }
            // children
            let bps: Vec<&sched::PointRec> = res.points.iter().filter(|p| p.branching).collect();
            out.branching_points += bps.len() as u64;
            for i in (prefix.len()..res.choices.len()).rev() {
                let p = bps[i];
                let cost = p.preempt_before as usize + if p.cur_enabled { 1 } else { 0 };
                if cost > cfg.bound {
                    continue;
                }
                for alt in (1..p.enabled.len()).rev() {
                    let mut np = res.choices[..i].to_vec();
                    np.push(alt as u8);
                    stack.push(np);
                }
            }
            let choices = res.choices.clone();
            if !check(&res, world, &choices) {
                break 'restart;
            }
        }
        break;
    }
    out.conflict_locks = conflict.len();
    DIVERGED_TOTAL.fetch_add(out.diverged, std::sync::atomic::Ordering::Relaxed);
    EXECS_TOTAL.fetch_add(out.executions, std::sync::atomic::Ordering::Relaxed);
    vcore::par::KSCHED_DIVERGED.fetch_add(out.diverged, std::sync::atomic::Ordering::Relaxed);
    vcore::par::KSCHED_EXECS.fetch_add(out.executions, std::sync::atomic::Ordering::Relaxed);
    if out.diverged > 0 && std::env::var("KSCHED_REPORT_DIVERGENCE").is_ok() {
        eprintln!("ksched: {} of {} executions diverged from their replayed prefix", out.diverged, out.executions);
    }
    out
}

/// Process-wide count of executions whose replayed prefix did not reproduce (a choice index out
/// of range of the enabled set): evidence of nondeterminism the scheduler does not own.
pub static DIVERGED_TOTAL: std::sync::atomic::AtomicU64 = std::sync::atomic::AtomicU64::new(0);
pub static EXECS_TOTAL: std::sync::atomic::AtomicU64 = std::sync::atomic::AtomicU64::new(0);

pub fn divergence() -> (u64, u64) {
    (DIVERGED_TOTAL.load(std::sync::atomic::Ordering::Relaxed), EXECS_TOTAL.load(std::sync::atomic::Ordering::Relaxed))
}
