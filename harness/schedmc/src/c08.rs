//! C08 — no interleaving of concurrent API calls can deadlock.
//!  (1) every unordered pair of catalogue operations x 4 initial states, all schedules up to the
//!      preemption bound on the real TieredEngine;
//!  (2) component-level triples (HotTier, VectorCache, QueryHashCache, cache strategy) — three
//!      threads are cheap there and a writer-preferring RwLock needs three to close a read cycle;
//!  (3) engine-level triples selected from the lock-order graph: for every pair of operations
//!      with opposite acquisition orders on two locks, add every operation that writes the lock
//!      the pair only reads.

use crate::eng::*;
use crate::explore::{explore, ExploreCfg, ExploreOut};
use parking_lot::sched::{self, Body, LockEvt, Outcome, RunConfig};
use serde_json::{json, Value};
use std::collections::{BTreeMap, BTreeSet};
use std::sync::Arc;
use std::time::Duration;
use vcore::findings::SigBag;

pub fn catalogue() -> Vec<EOp> {
    vec![
        EOp::Ins(1, 1),
        EOp::Ins(3, 3),
        EOp::Del(1),
        EOp::BatchDel,
        EOp::UpdMeta(1, 7),
        EOp::Query(1),
        EOp::GetDocMeta(1),
        EOp::BulkQuery,
        EOp::EmbCacheAware(1),
        EOp::Knn,
        EOp::KnnBatch,
        EOp::BulkLoad(1, 9),
        EOp::Flush,
        EOp::Snapshot,
        EOp::Stats,
        EOp::Lifecycle,
        EOp::CacheSize,
        EOp::FilterDel(1),
        EOp::FilterDelScan,
        EOp::Exists(1),
        EOp::GetMeta(1),
        EOp::ClosureDel(1),
        EOp::FilterIds(1),
        EOp::FilterIdsScan,
        EOp::TrainCycle,
        EOp::LogServed,
        EOp::FlushIfDue,
    ]
}

#[derive(Default)]
pub struct Agg {
    pub programs: u64,
    pub executions: u64,
    pub points: u64,
    pub capped: u64,
    pub deadlocking_programs: u64,
    pub outcomes: BTreeSet<String>,
    pub viol: SigBag,
    pub edges: BTreeSet<(String, String, String, String)>,
    pub max_preempt: usize,
    pub stalled: u64,
}

fn short_site(s: &str) -> String {
    s.rsplit('/').next().unwrap_or(s).to_string()
}

/// Structural signature of a deadlock: sorted list of "site(phase)" each blocked thread waits on.
fn deadlock_sig(blocked: &[(usize, u64, String, String)]) -> String {
    let mut v: Vec<String> = blocked.iter().map(|(_, _, phase, site)| format!("{}[{}]", short_site(site), phase)).collect();
    v.sort();
    v.join("+")
}

pub fn explore_engine_program(ops: &[EOp], init: Init, bound: usize, max_execs: usize, agg: &mut Agg) {
    agg.programs += 1;
    let persistent = ops.iter().any(|o| o.needs_persistence());
    let learned = ops.iter().any(|o| o.wants_learned());
    let cfg = ExploreCfg { bound, max_execs, ..Default::default() };
    let ops_v = ops.to_vec();
    let mut found: Option<(String, Vec<u8>, Vec<(usize, u64, String, String)>)> = None;
    let out: ExploreOut = explore(
        &cfg,
        || {
            let w = build(init, persistent, learned);
            let bodies: Vec<Body> = ops_v
                .iter()
                .map(|op| {
                    let te = w.te.clone();
                    let op = op.clone();
                    Box::new(move || {
                        let _ = run_op(&te, &op);
                    }) as Body
                })
                .collect();
            (bodies, w)
        },
        |res, _w, choices| {
            if let Outcome::Deadlock(b) = &res.outcome {
                if found.is_none() {
                    found = Some((deadlock_sig(b), choices.to_vec(), b.clone()));
                }
                return false;
            }
            true
        },
    );
    agg.executions += out.executions;
    agg.points += out.points;
    agg.max_preempt = agg.max_preempt.max(out.max_preemptions_used);
    agg.stalled += out.stalled;
    if out.capped {
        agg.capped += 1;
    }
    agg.edges.extend(out.edges);
    agg.outcomes.insert(if found.is_some() { "deadlock".into() } else { "completed".into() });
    if let Some((sig, choices, blocked)) = found {
        agg.deadlocking_programs += 1;
        agg.viol.push((
            format!("C08|engine|deadlock|{sig}"),
            json!({"engine":"schedmc","check":"C08","level":"TieredEngine","ops":ops,"init":init,"schedule":choices,"bound":bound,
                   "blocked": blocked.iter().map(|(t,k,p,s)| json!({"thread":t,"op":ops[*t].name(),"waits_for_lock":k,"phase":p,"lock_created_at":s})).collect::<Vec<_>>()}),
        ));
    }
}

// ------------------------------------------------------------------------------------------
// Component level
// ------------------------------------------------------------------------------------------
#[derive(Clone, Debug, serde::Serialize, serde::Deserialize, PartialEq, Eq, PartialOrd, Ord)]
pub enum COp {
    // HotTier
    HtInsert(u64),
    HtGet(u64),
    HtDelete(u64),
    HtUpdMeta(u64),
    HtBulkFetch,
    HtKnn,
    HtDrain,
    HtStats,
    HtBatchDelete,
    HtReinsert,
    // VectorCache
    VcGet(u64),
    VcInsert(u64),
    VcRemove(u64),
    VcStats,
    VcClear,
    // QueryHashCache
    QcGet,
    QcInsert,
    QcInvalidateDoc,
    QcInvalidateForInsert,
    QcClear,
    QcStats,
    // Learned strategy
    LsGet(u64),
    LsShould(u64),
    LsInsert(u64),
    LsInvalidate(u64),
    LsStats,
    // SemanticAdapter (the semantic half of the hybrid cache admission)
    SaShouldUncertain,
    SaShouldHot,
    SaCache(u64),
    SaStats,
    SaClear,
    SaSize,
    LsLifecycle,
}

pub struct CWorld {
    pub ht: Arc<kyrodb_engine::HotTier>,
    pub vc: Arc<kyrodb_engine::VectorCache>,
    pub qc: Arc<kyrodb_engine::QueryHashCache>,
    pub ls: Arc<kyrodb_engine::cache_strategy::LearnedCacheStrategy>,
    pub sa: Arc<kyrodb_engine::semantic_adapter::SemanticAdapter>,
}

fn cbuild() -> CWorld {
    use kyrodb_engine::coherence::VectorCoherenceToken;
    let ht = Arc::new(kyrodb_engine::HotTier::new(4, Duration::from_secs(3600), kyrodb_engine::config::DistanceMetric::Euclidean));
    ht.insert_with_coherence(1, vec![1.0, 0.0], Default::default(), VectorCoherenceToken::for_embedding(1, &[1.0, 0.0]));
    let vc = Arc::new(kyrodb_engine::VectorCache::new(2));
    vc.insert(cv(1));
    let qc = Arc::new(kyrodb_engine::QueryHashCache::new(2, 0.5));
    qc.insert_with_k_scoped(0, vec![1.0, 0.0], vec![kyrodb_engine::SearchResult { doc_id: 1, distance: 0.5 }], 1);
    let ls = Arc::new(kyrodb_engine::cache_strategy::LearnedCacheStrategy::new(2, kyrodb_engine::learned_cache::LearnedCachePredictor::new(2).unwrap()));
    use kyrodb_engine::cache_strategy::CacheStrategy;
    ls.insert_cached(cv(1));
    // non-empty embedding history, so that an uncertain frequency score takes the similarity scan
    let sa = Arc::new(kyrodb_engine::semantic_adapter::SemanticAdapter::new());
    let _ = sa.cache_embedding(1, vec![1.0, 0.0]);
    let _ = sa.cache_embedding(2, vec![0.0, 1.0]);
    CWorld { ht, vc, qc, ls, sa }
}

fn cv(id: u64) -> kyrodb_engine::vector_cache::CachedVector {
    kyrodb_engine::vector_cache::CachedVector {
        doc_id: id,
        embedding: vec![id as f32, 1.0],
        coherence: kyrodb_engine::coherence::VectorCoherenceToken::for_embedding(1, &[id as f32, 1.0]),
        distance: 0.0,
        cached_at: std::time::Instant::now(),
    }
}

fn run_cop(w: &CWorld, op: &COp) {
    use kyrodb_engine::cache_strategy::CacheStrategy;
    use kyrodb_engine::coherence::VectorCoherenceToken;
    match op {
        COp::HtInsert(id) => w.ht.insert_with_coherence(*id, vec![*id as f32, 2.0], Default::default(), VectorCoherenceToken::for_embedding(2, &[*id as f32, 2.0])),
        COp::HtGet(id) => {
            let _ = w.ht.get_with_coherence(*id);
        }
        COp::HtDelete(id) => {
            let _ = w.ht.delete(*id);
        }
        COp::HtUpdMeta(id) => {
            let _ = w.ht.update_metadata(*id, Default::default(), true);
        }
        COp::HtBulkFetch => {
            let _ = w.ht.bulk_fetch_with_coherence(&[1, 2]);
        }
        COp::HtKnn => {
            let _ = w.ht.knn_search(&[1.0, 0.0], 2);
        }
        COp::HtDrain => {
            let _ = w.ht.drain_for_flush();
        }
        COp::HtStats => {
            let _ = w.ht.stats();
            let _ = w.ht.len();
            let _ = w.ht.needs_flush();
        }
        COp::HtBatchDelete => {
            let _ = w.ht.batch_delete(&[1, 2]);
        }
        COp::HtReinsert => w.ht.reinsert_failed_documents(vec![(5, vec![5.0, 5.0], Default::default(), VectorCoherenceToken::for_embedding(1, &[5.0, 5.0]))]),
        COp::VcGet(id) => {
            let _ = w.vc.get(*id);
        }
        COp::VcInsert(id) => {
            let _ = w.vc.insert(cv(*id));
        }
        COp::VcRemove(id) => {
            let _ = w.vc.remove(*id);
        }
        COp::VcStats => {
            let _ = w.vc.stats();
            let _ = w.vc.len();
        }
        COp::VcClear => w.vc.clear(),
        COp::QcGet => {
            let _ = w.qc.get_scoped(0, &[1.0, 0.0], 1);
            let _ = w.qc.get_scoped(0, &[0.9, 0.1], 1);
        }
        COp::QcInsert => {
            let _ = w.qc.insert_with_k_scoped(0, vec![0.0, 1.0], vec![kyrodb_engine::SearchResult { doc_id: 2, distance: 0.3 }], 1);
        }
        COp::QcInvalidateDoc => {
            let _ = w.qc.invalidate_doc(1);
        }
        COp::QcInvalidateForInsert => {
            let _ = w.qc.invalidate_for_insert(&[1.0, 0.1], kyrodb_engine::config::DistanceMetric::Euclidean);
        }
        COp::QcClear => w.qc.clear(),
        COp::QcStats => {
            let _ = w.qc.stats();
            let _ = w.qc.len();
        }
        COp::LsGet(id) => {
            let _ = w.ls.get_cached(*id);
        }
        COp::LsShould(id) => {
            let _ = w.ls.should_cache(*id, &[*id as f32, 1.0]);
        }
        COp::LsInsert(id) => w.ls.insert_cached(cv(*id)),
        COp::LsInvalidate(id) => w.ls.invalidate(*id),
        COp::LsStats => {
            let _ = w.ls.stats();
            let _ = w.ls.size();
        }
        COp::LsLifecycle => {
            let _ = w.ls.lifecycle_stats();
        }
        COp::SaShouldUncertain => {
            let _ = w.sa.should_cache(0.4, &[0.6, 0.8], 0.5);
        }
        COp::SaShouldHot => {
            let _ = w.sa.should_cache(0.95, &[0.6, 0.8], 0.5);
        }
        COp::SaCache(id) => {
            let _ = w.sa.cache_embedding(*id, vec![*id as f32, 1.0]);
        }
        COp::SaStats => {
            let _ = w.sa.stats();
        }
        COp::SaClear => w.sa.clear_cache(),
        COp::SaSize => {
            let _ = w.sa.cache_size();
        }
    }
}

pub fn component_groups() -> Vec<(&'static str, Vec<COp>)> {
    vec![
        ("HotTier", vec![COp::HtInsert(2), COp::HtGet(1), COp::HtDelete(1), COp::HtUpdMeta(1), COp::HtBulkFetch, COp::HtKnn, COp::HtDrain, COp::HtStats, COp::HtBatchDelete, COp::HtReinsert]),
        ("VectorCache", vec![COp::VcGet(1), COp::VcInsert(2), COp::VcInsert(3), COp::VcRemove(1), COp::VcStats, COp::VcClear]),
        ("QueryHashCache", vec![COp::QcGet, COp::QcInsert, COp::QcInvalidateDoc, COp::QcInvalidateForInsert, COp::QcClear, COp::QcStats]),
        ("LearnedCacheStrategy", vec![COp::LsGet(1), COp::LsShould(2), COp::LsInsert(2), COp::LsInvalidate(1), COp::LsStats, COp::LsLifecycle]),
        ("SemanticAdapter", vec![COp::SaShouldUncertain, COp::SaShouldHot, COp::SaCache(7), COp::SaStats, COp::SaClear, COp::SaSize]),
    ]
}

pub fn explore_component_program(group: &str, ops: &[COp], bound: usize, agg: &mut Agg) {
    agg.programs += 1;
    let cfg = ExploreCfg { bound, max_execs: 100_000, ..Default::default() };
    let ops_v = ops.to_vec();
    let mut found: Option<(String, Vec<u8>, Vec<(usize, u64, String, String)>)> = None;
    let out = explore(
        &cfg,
        || {
            let w = Arc::new(cbuild());
            let bodies: Vec<Body> = ops_v
                .iter()
                .map(|op| {
                    let w = w.clone();
                    let op = op.clone();
                    Box::new(move || run_cop(&w, &op)) as Body
                })
                .collect();
            (bodies, w)
        },
        |res, _w, choices| {
            if let Outcome::Deadlock(b) = &res.outcome {
                if found.is_none() {
                    found = Some((deadlock_sig(b), choices.to_vec(), b.clone()));
                }
                return false;
            }
            true
        },
    );
    agg.executions += out.executions;
    agg.points += out.points;
    agg.max_preempt = agg.max_preempt.max(out.max_preemptions_used);
    if out.capped {
        agg.capped += 1;
    }
    agg.edges.extend(out.edges);
    agg.outcomes.insert(if found.is_some() { "deadlock".into() } else { "completed".into() });
    if let Some((sig, choices, blocked)) = found {
        agg.deadlocking_programs += 1;
        agg.viol.push((
            format!("C08|{group}|deadlock|{sig}"),
            json!({"engine":"schedmc","check":"C08","level":group,"ops":ops,"schedule":choices,"bound":bound,
                   "blocked": blocked.iter().map(|(t,k,p,s)| json!({"thread":t,"op":format!("{:?}", ops[*t]),"waits_for_lock":k,"phase":p,"lock_created_at":s})).collect::<Vec<_>>()}),
        ));
    }
}

// ------------------------------------------------------------------------------------------
// Lock traces of single operations -> candidate triples
// ------------------------------------------------------------------------------------------
/// (held site, held mode, requested site, requested mode) edges of one op run alone.
pub fn solo_edges(op: &EOp, init: Init) -> BTreeSet<(String, String, String, String)> {
    sched::reset_lock_keys();
    let w = build(init, op.needs_persistence(), op.wants_learned());
    let te = w.te.clone();
    let o = op.clone();
    let res = sched::run_one(
        vec![Box::new(move || {
            let _ = run_op(&te, &o);
        })],
        RunConfig { record_trace: true, ..Default::default() },
    );
    let mut site: BTreeMap<u64, String> = BTreeMap::new();
    for (k, t) in &res.touches {
        site.insert(*k, t.site.clone());
    }
    let _ = res.optrace.iter().flatten().filter(|e| matches!(e, LockEvt::Mark(_))).count();
    res.edges
        .iter()
        .map(|(a, am, b, bm)| (site.get(a).cloned().unwrap_or_default(), format!("{am:?}"), site.get(b).cloned().unwrap_or_default(), format!("{bm:?}")))
        .collect()
}

pub fn candidate_triples(cat: &[EOp]) -> Vec<(Vec<EOp>, Init, String)> {
    let mut per: Vec<(usize, Init, BTreeSet<(String, String, String, String)>)> = Vec::new();
    for (i, op) in cat.iter().enumerate() {
        for init in INITS {
            per.push((i, init, solo_edges(op, init)));
        }
    }
    // writers per lock site
    let mut out: BTreeMap<(Vec<usize>, Init), String> = BTreeMap::new();
    for (ia, inita, ea) in &per {
        for (ib, initb, eb) in &per {
            if inita != initb || ia > ib {
                continue;
            }
            for (x1, xm1, y1, ym1) in ea {
                for (y2, ym2, x2, xm2) in eb {
                    if x1 == x2 && y1 == y2 && x1 != y1 {
                        // A: X -> Y, B: Y -> X. With all-read on a lock a third writer is needed.
                        let x_readonly = xm1 == "R" && xm2 == "R";
                        let y_readonly = ym1 == "R" && ym2 == "R";
                        let why = format!("{} holds {}({xm1}) wants {}({ym1}); {} holds {}({ym2}) wants {}({xm2})", cat[*ia].name(), short_site(x1), short_site(y1), cat[*ib].name(), short_site(y2), short_site(x2));
                        if !x_readonly && !y_readonly {
                            // plain two-thread cycle candidate: the pair exploration covers it
                            continue;
                        }
                        let need = if x_readonly { x1 } else { y1 };
                        for (ic, initc, ec) in &per {
                            if initc != inita {
                                continue;
                            }
                            let writes = ec.iter().any(|(a, am, b, bm)| (a == need && am != "R") || (b == need && bm != "R"));
                            // an op that takes `need` exclusively without holding anything else shows up
                            // only as a touch; approximate with "any edge or known writer kinds"
                            if writes || matches!(cat[*ic], EOp::Ins(..) | EOp::Del(..) | EOp::BatchDel | EOp::Flush | EOp::FlushIfDue | EOp::UpdMeta(..) | EOp::BulkLoad(..)) {
                                let mut key = vec![*ia, *ib, *ic];
                                key.sort();
                                out.entry((key, *inita)).or_insert(why.clone());
                            }
                        }
                    }
                }
            }
        }
    }
    out.into_iter().map(|((k, init), why)| (k.iter().map(|i| cat[*i].clone()).collect(), init, why)).collect()
}

pub fn merge(a: &mut Agg, b: Agg) {
    a.programs += b.programs;
    a.executions += b.executions;
    a.points += b.points;
    a.capped += b.capped;
    a.deadlocking_programs += b.deadlocking_programs;
    a.outcomes.extend(b.outcomes);
    a.viol.merge(b.viol);
    a.edges.extend(b.edges);
    a.max_preempt = a.max_preempt.max(b.max_preempt);
    a.stalled += b.stalled;
}

fn agg_json(a: &Agg) -> Value {
    json!({"programs":a.programs,"executions":a.executions,"points":a.points,"capped":a.capped,"deadlocking":a.deadlocking_programs,
           "violations":a.viol.to_json(),"edges":a.edges.iter().collect::<Vec<_>>(),"max_preempt":a.max_preempt,"stalled":a.stalled})
}

pub fn worker(wi: usize, wn: usize, tier: &str) {
    let bound: usize = std::env::var("C08_BOUND").ok().and_then(|s| s.parse().ok()).unwrap_or(if tier == "thorough" { 3 } else { 1 });
    let cbound: usize = std::env::var("C08_CBOUND").ok().and_then(|s| s.parse().ok()).unwrap_or(2);
    let mut agg = Agg::default();
    let cat = catalogue();
    let mut idx = 0usize;
    // (1) engine pairs
    for a in 0..cat.len() {
        for b in a..cat.len() {
            for init in INITS {
                idx += 1;
                if idx % wn != wi {
                    continue;
                }
                explore_engine_program(&[cat[a].clone(), cat[b].clone()], init, bound, 20_000, &mut agg);
            }
        }
    }
    // (1b) writer pairs (and triples) on a full index with a tombstone (compaction path, persistence on)
    let writers = vec![EOp::Ins(3, 3), EOp::Ins(4, 4), EOp::Ins(1, 1), EOp::Del(2), EOp::UpdMeta(1, 7), EOp::BatchDel, EOp::BulkLoad(5, 9), EOp::Snapshot, EOp::Flush, EOp::Query(1), EOp::Knn];
    for a in 0..writers.len() {
        for b in a..writers.len() {
            idx += 1;
            if idx % wn != wi {
                continue;
            }
            explore_engine_program(&[writers[a].clone(), writers[b].clone()], Init::FullTomb, bound, 20_000, &mut agg);
            explore_engine_program(&[writers[a].clone(), writers[b].clone()], Init::FullTombMem, bound, 20_000, &mut agg);
            explore_engine_program(&[writers[a].clone(), writers[b].clone()], Init::SnapEvery, bound, 20_000, &mut agg);
        }
    }
    for c in [EOp::Del(2), EOp::UpdMeta(1, 7), EOp::Snapshot] {
        idx += 1;
        if idx % wn != wi {
            continue;
        }
        explore_engine_program(&[EOp::Ins(3, 3), EOp::Ins(4, 4), c], Init::FullTomb, bound, 30_000, &mut agg);
    }
    // (2) component triples (multisets)
    for (g, ops) in component_groups() {
        for a in 0..ops.len() {
            for b in a..ops.len() {
                for c in b..ops.len() {
                    idx += 1;
                    if idx % wn != wi {
                        continue;
                    }
                    explore_component_program(g, &[ops[a].clone(), ops[b].clone(), ops[c].clone()], cbound, &mut agg);
                }
            }
        }
    }
    // (3) engine triples from lock-order cycles (computed identically in every worker)
    let cands = candidate_triples(&cat);
    for (ops, init, _why) in &cands {
        idx += 1;
        if idx % wn != wi {
            continue;
        }
        explore_engine_program(ops, *init, bound.max(1), 30_000, &mut agg);
    }
    let mut j = agg_json(&agg);
    j["candidate_triples"] = json!(cands.len());
    vcore::par::worker_emit(&j);
}

pub fn run(tier: &str, replay: Option<&str>) -> i32 {
    if let Some(p) = replay {
        return run_replay(p);
    }
    if let Some((i, n)) = vcore::par::worker_id() {
        worker(i, n, tier);
        return 0;
    }
    let res = vcore::par::run_workers(vcore::par::jobs(), &[]);
    let mut ev = vcore::evidence::Evidence::new("C08", tier, "model_checking");
    let mut rep = vcore::findings::Reporter::new("C08");
    let mut tot: BTreeMap<&str, u64> = BTreeMap::new();
    let mut edges: BTreeSet<String> = BTreeSet::new();
    let mut cand = 0u64;
    for r in &res {
        for k in ["programs", "executions", "points", "capped", "deadlocking", "stalled"] {
            *tot.entry(k).or_insert(0) += r[k].as_u64().unwrap_or(0);
        }
        cand = cand.max(r["candidate_triples"].as_u64().unwrap_or(0));
        for e in r["edges"].as_array().unwrap() {
            edges.insert(format!("{}({}) -> {}({})", short_site(e[0].as_str().unwrap()), e[1].as_str().unwrap(), short_site(e[2].as_str().unwrap()), e[3].as_str().unwrap()));
        }
        rep.report_bag(&r["violations"]);
    }
    let bound: usize = std::env::var("C08_BOUND").ok().and_then(|s| s.parse().ok()).unwrap_or(if tier == "thorough" { 3 } else { 1 });
    ev.set("states", tot["points"]);
    ev.set("transitions", tot["points"]);
    ev.set("traces_validated_against_impl", tot["executions"]);
    ev.set("evaluations", tot["executions"]);
    ev.set("distinct_nontrivial", tot["programs"]);
    ev.set("rule", format!("(1) every unordered pair of the 24-operation catalogue (incl. delete-by-filter and ids_for_metadata_filter through the index path and through the reference-matcher scan fallback, delete by closure predicate) x 4 initial states (absent / cold-only / cached / in recent-write tier), plus writer pairs and triples on a persistent engine whose index is full with a tombstone (compaction path, with and without persistence) and on one that snapshots after every write (interval 1), as real threads on a fresh TieredEngine, every schedule with <= {bound} preemptions at lock-acquisition granularity under writer-preferring RwLock semantics; (2) every multiset of three operations of the HotTier / VectorCache / QueryHashCache / LearnedCacheStrategy / SemanticAdapter catalogues, <= 2 preemptions; (3) engine-level triples derived from opposite acquisition orders in the single-operation lock traces plus every writer of the read-held lock. Verdict per execution: some thread unfinished and none enabled = deadlock. states/transitions = scheduling points executed (stateless search: states are not stored)"));
    ev.set("samples", json!([{"pair":["insert(1,w1)","flush_hot_tier(force)"],"init":"Hot"},{"component_triple":["HtGet(1)","HtInsert(2)","HtDelete(1)"]}]));
    ev.set("exhaustive", tot["capped"] == 0);
    ev.set("programs", tot["programs"]);
    ev.set("programs_capped", tot["capped"]);
    ev.set("deadlocking_programs", tot["deadlocking"]);
    ev.set("engine_triples_from_lock_order_cycles", cand);
    ev.set("lock_order_edges", edges.iter().cloned().collect::<Vec<_>>());
    ev.set("preemption_bound_pairs", bound as u64);
    ev.assume("scheduling points are lock acquisitions (parking_lot replaced by pl-shim); atomics and helper threads (rayon, tokio blocking pool) are not scheduled");
    ev.assume("RwLock model: writer claims the writer bit then waits for readers; readers block while the bit is set; upgradable readers exclude each other and writers (parking_lot 0.12 RawRwLock)");
    ev.assume("the timed search path (tokio blocking workers) is kept out of scheduled exploration");
    ev.violations = rep.violations as i64;
    ev.write();
    println!("C08 {tier}: programs={} executions={} points={} capped={} deadlocking_programs={} candidate_triples={} edges={} violations={}", tot["programs"], tot["executions"], tot["points"], tot["capped"], tot["deadlocking"], cand, edges.len(), rep.violations);
    rep.finish()
}

fn run_replay(path: &str) -> i32 {
    let v: Value = serde_json::from_str(&std::fs::read_to_string(path).expect("read")).expect("json");
    let c = &v["case"];
    let schedule: Vec<u8> = serde_json::from_value(c["schedule"].clone()).unwrap();
    let mut outcomes = Vec::new();
    for _ in 0..2 {
        sched::reset_lock_keys();
        let res = if c["level"] == "TieredEngine" {
            let ops: Vec<EOp> = serde_json::from_value(c["ops"].clone()).unwrap();
            let init: Init = serde_json::from_value(c["init"].clone()).unwrap();
            let w = build(init, ops.iter().any(|o| o.needs_persistence()), ops.iter().any(|o| o.wants_learned()));
            let bodies: Vec<Body> = ops.iter().map(|op| { let te = w.te.clone(); let op = op.clone(); Box::new(move || { let _ = run_op(&te, &op); }) as Body }).collect();
            // replay explores without reduction: the recorded schedule was found under the reduced
            // branching set, so search for the same deadlock instead of trusting indices
            let _ = bodies;
            let mut agg = Agg::default();
            explore_engine_program(&ops, init, c["bound"].as_u64().unwrap_or(2) as usize, 50_000, &mut agg);
            agg.deadlocking_programs > 0
        } else {
            let ops: Vec<COp> = serde_json::from_value(c["ops"].clone()).unwrap();
            let mut agg = Agg::default();
            explore_component_program(c["level"].as_str().unwrap_or("component"), &ops, c["bound"].as_u64().unwrap_or(2) as usize, &mut agg);
            agg.deadlocking_programs > 0
        };
        outcomes.push(res);
    }
    let _ = schedule;
    if outcomes[0] != outcomes[1] {
        println!("replay: nondeterministic (machinery error)");
        return 2;
    }
    if outcomes[0] {
        println!("replay: deadlock reproduced (twice)");
        println!("VIOLATION property=C08 replay={path}");
        1
    } else {
        println!("replay: no deadlock");
        0
    }
}
