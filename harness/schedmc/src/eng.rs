//! Worlds and operations driven under the scheduler.

use kyrodb_engine::cache_strategy::{CacheStrategy, LruCacheStrategy};
use kyrodb_engine::config::DistanceMetric;
use kyrodb_engine::{QueryHashCache, TieredEngine, TieredEngineConfig};
use serde::{Deserialize, Serialize};
use std::collections::BTreeMap;
use std::sync::Arc;
use std::time::Duration;

#[derive(Clone, Debug, Serialize, Deserialize, PartialEq, Eq, Hash, PartialOrd, Ord)]
pub enum EOp {
    /// insert/overwrite id with write number w (unique payload + metadata {"w": w})
    Ins(u64, u32),
    Del(u64),
    BatchDel,
    UpdMeta(u64, u32),
    Query(u64),
    GetDocMeta(u64),
    BulkQuery,
    Exists(u64),
    EmbCacheAware(u64),
    Knn,
    KnnBatch,
    BulkLoad(u64, u32),
    Flush,
    Snapshot,
    Stats,
    Lifecycle,
    CacheSize,
    /// batch_delete_by_metadata_filter with an Exact filter on the write-number key (index path)
    FilterDel(u32),
    /// ... with a filter the inverted index cannot compile (NotFilter without operand): the
    /// reference-matcher scan fallback
    FilterDelScan,
    GetMeta(u64),
    /// batch_delete_by_filter with a closure predicate (full scan of both tiers)
    ClosureDel(u32),
    /// cold_tier().ids_for_metadata_filter, index path / scan fallback (what filtered search uses)
    FilterIds(u32),
    FilterIdsScan,
    /// one cycle of the background predictor training (body of training_task::spawn_training_task's
    /// loop on the real logger / strategy / predictor objects; learned worlds only)
    TrainCycle,
    /// log_served_search_accesses (what the Search RPC calls after answering)
    LogServed,
    /// flush_hot_tier(false): the "is a drain due?" path (needs_flush) the background flusher and
    /// the FlushHotTier RPC without force take
    FlushIfDue,
}

impl EOp {
    pub fn name(&self) -> String {
        match self {
            EOp::Ins(id, w) => format!("insert({id},w{w})"),
            EOp::Del(id) => format!("delete({id})"),
            EOp::BatchDel => "batch_delete([1,2])".into(),
            EOp::UpdMeta(id, w) => format!("update_metadata({id},u{w})"),
            EOp::Query(id) => format!("query({id})"),
            EOp::GetDocMeta(id) => format!("get_document_with_metadata({id})"),
            EOp::BulkQuery => "bulk_query([1,2])".into(),
            EOp::Exists(id) => format!("exists({id})"),
            EOp::EmbCacheAware(id) => format!("get_embedding_cache_aware({id})"),
            EOp::Knn => "knn_search".into(),
            EOp::KnnBatch => "knn_search_batch".into(),
            EOp::BulkLoad(id, w) => format!("bulk_load({id},w{w})"),
            EOp::Flush => "flush_hot_tier(force)".into(),
            EOp::Snapshot => "create_snapshot".into(),
            EOp::Stats => "stats".into(),
            EOp::Lifecycle => "hsc_lifecycle_stats".into(),
            EOp::CacheSize => "cache_size".into(),
            EOp::FilterDel(w) => format!("batch_delete_by_filter(w={w})"),
            EOp::FilterDelScan => "batch_delete_by_filter(uncompilable)".into(),
            EOp::GetMeta(id) => format!("get_metadata({id})"),
            EOp::ClosureDel(w) => format!("batch_delete_by_filter(closure w={w})"),
            EOp::FilterIds(w) => format!("ids_for_metadata_filter(w={w})"),
            EOp::FilterIdsScan => "ids_for_metadata_filter(uncompilable)".into(),
            EOp::TrainCycle => "training_cycle".into(),
            EOp::LogServed => "log_served_search_accesses".into(),
            EOp::FlushIfDue => "flush_hot_tier(if due)".into(),
        }
    }
    pub fn kind(&self) -> &'static str {
        match self {
            EOp::Ins(..) => "insert",
            EOp::Del(..) => "delete",
            EOp::BatchDel => "batch_delete",
            EOp::UpdMeta(..) => "update_metadata",
            EOp::Query(..) => "query",
            EOp::GetDocMeta(..) => "get_document_with_metadata",
            EOp::BulkQuery => "bulk_query",
            EOp::Exists(..) => "exists",
            EOp::EmbCacheAware(..) => "get_embedding_cache_aware",
            EOp::Knn => "knn_search",
            EOp::KnnBatch => "knn_search_batch",
            EOp::BulkLoad(..) => "bulk_load",
            EOp::Flush => "flush",
            EOp::Snapshot => "snapshot",
            EOp::Stats => "stats",
            EOp::Lifecycle => "lifecycle",
            EOp::CacheSize => "cache_size",
            EOp::FilterDel(..) => "batch_delete_by_filter",
            EOp::FilterDelScan => "batch_delete_by_filter_scan",
            EOp::GetMeta(..) => "get_metadata",
            EOp::ClosureDel(..) => "batch_delete_by_closure",
            EOp::FilterIds(..) => "ids_for_metadata_filter",
            EOp::FilterIdsScan => "ids_for_metadata_filter_scan",
            EOp::TrainCycle => "training_cycle",
            EOp::LogServed => "log_served",
            EOp::FlushIfDue => "flush_if_due",
        }
    }
    pub fn needs_persistence(&self) -> bool {
        matches!(self, EOp::Snapshot)
    }
    /// operations that only make sense on the learned strategy with an access logger attached
    pub fn wants_learned(&self) -> bool {
        matches!(self, EOp::Lifecycle | EOp::TrainCycle | EOp::LogServed)
    }
}

/// Payload for write number w: a 2-d vector no other write uses.
pub fn payload(w: u32) -> Vec<f32> {
    vec![w as f32, (w as f32) * 0.5 + 1.0]
}
pub fn wmeta(w: u32) -> std::collections::HashMap<String, String> {
    let mut m = std::collections::HashMap::new();
    m.insert("w".to_string(), w.to_string());
    m
}
pub fn w_of_vec(v: &[f32]) -> Option<u32> {
    if v.len() == 2 && v[1] == v[0] * 0.5 + 1.0 && v[0] >= 0.0 && v[0].fract() == 0.0 {
        Some(v[0] as u32)
    } else {
        None
    }
}

/// What an operation returned, in a comparable form.
#[derive(Clone, Debug, Serialize, Deserialize, PartialEq)]
pub enum Obs {
    Unit,
    Bool(bool),
    Count(u64),
    /// point read: None = not found, Some(write number of the vector, or u32::MAX if unknown)
    Vec(Option<u32>),
    /// (vector write number, metadata "w", metadata "u")
    VecMeta(Option<(u32, Option<u32>, Option<u32>)>),
    Bulk(Vec<Option<(u32, Option<u32>, Option<u32>)>>),
    Knn(Vec<u64>),
    Err(String),
    Other,
}

fn mw(m: &std::collections::HashMap<String, String>, k: &str) -> Option<u32> {
    m.get(k).and_then(|s| s.parse().ok())
}

pub fn run_op(te: &TieredEngine, op: &EOp) -> Obs {
    match op {
        EOp::Ins(id, w) => match te.insert(*id, payload(*w), wmeta(*w)) {
            Ok(()) => Obs::Unit,
            Err(e) => Obs::Err(format!("{e:#}")),
        },
        EOp::Del(id) => match te.delete(*id) {
            Ok(b) => Obs::Bool(b),
            Err(e) => Obs::Err(format!("{e:#}")),
        },
        EOp::BatchDel => match te.batch_delete(&[1, 2]) {
            Ok(n) => Obs::Count(n),
            Err(e) => Obs::Err(format!("{e:#}")),
        },
        EOp::UpdMeta(id, u) => {
            let mut m = std::collections::HashMap::new();
            m.insert("u".to_string(), u.to_string());
            match te.update_metadata(*id, m, true) {
                Ok(b) => Obs::Bool(b),
                Err(e) => Obs::Err(format!("{e:#}")),
            }
        }
        EOp::Query(id) => Obs::Vec(te.query(*id, None).map(|v| w_of_vec(&v).unwrap_or(u32::MAX))),
        EOp::EmbCacheAware(id) => Obs::Vec(te.get_embedding_cache_aware(*id).map(|v| w_of_vec(&v).unwrap_or(u32::MAX))),
        EOp::GetDocMeta(id) => Obs::VecMeta(te.get_document_with_metadata(*id).map(|(v, m)| (w_of_vec(&v).unwrap_or(u32::MAX), mw(&m, "w"), mw(&m, "u")))),
        EOp::BulkQuery => Obs::Bulk(
            te.bulk_query(&[1, 2], true)
                .into_iter()
                .map(|e| e.map(|(v, m)| (w_of_vec(&v).unwrap_or(u32::MAX), mw(&m, "w"), mw(&m, "u"))))
                .collect(),
        ),
        EOp::Exists(id) => Obs::Bool(te.exists(*id)),
        EOp::Knn => match te.knn_search(&[1.0, 1.5], 2) {
            Ok(r) => Obs::Knn(r.into_iter().map(|x| x.doc_id).collect()),
            Err(e) => Obs::Err(format!("{e:#}")),
        },
        EOp::KnnBatch => match te.knn_search_batch_with_ef(&[vec![1.0, 1.5], vec![2.0, 2.0]], 2, None) {
            Ok(r) => Obs::Knn(r.into_iter().flatten().map(|x| x.doc_id).collect()),
            Err(e) => Obs::Err(format!("{e:#}")),
        },
        EOp::BulkLoad(id, w) => match te.bulk_load_cold_tier(vec![(*id, payload(*w), wmeta(*w))]) {
            Ok(_) => Obs::Unit,
            Err(e) => Obs::Err(format!("{e:#}")),
        },
        EOp::Flush => match te.flush_hot_tier(true) {
            Ok(n) => Obs::Count(n as u64),
            Err(e) => Obs::Err(format!("{e:#}")),
        },
        EOp::Snapshot => match te.cold_tier().create_snapshot() {
            Ok(()) => Obs::Unit,
            Err(e) => Obs::Err(format!("{e:#}")),
        },
        EOp::Stats => {
            let _ = te.stats();
            Obs::Other
        }
        EOp::Lifecycle => {
            let _ = te.hsc_lifecycle_stats();
            Obs::Other
        }
        EOp::CacheSize => {
            let _ = te.cache_size();
            Obs::Other
        }
        EOp::LogServed => {
            let _ = te.log_served_search_accesses(&[1, 2]);
            Obs::Other
        }
        EOp::FlushIfDue => {
            let _ = te.flush_hot_tier(false);
            Obs::Other
        }
        EOp::TrainCycle => {
            let ctx = TRAIN_CTX.lock().unwrap().clone();
            if let Some((logger, ls)) = ctx {
                train_cycle(&logger, &ls);
            }
            Obs::Other
        }
        EOp::FilterDel(w) => {
            use kyrodb_engine::proto::{metadata_filter::FilterType, ExactMatch, MetadataFilter};
            let f = MetadataFilter { filter_type: Some(FilterType::Exact(ExactMatch { key: "w".into(), value: w.to_string() })) };
            match te.batch_delete_by_metadata_filter(&f) {
                Ok(n) => Obs::Count(n),
                Err(e) => Obs::Err(format!("{e:#}")),
            }
        }
        EOp::GetMeta(id) => {
            let _ = te.get_metadata(*id);
            Obs::Other
        }
        EOp::ClosureDel(w) => {
            let ws = w.to_string();
            match te.batch_delete_by_filter(|m| m.get("w") == Some(&ws)) {
                Ok(n) => Obs::Count(n),
                Err(e) => Obs::Err(format!("{e:#}")),
            }
        }
        EOp::FilterIds(w) => {
            use kyrodb_engine::proto::{metadata_filter::FilterType, ExactMatch, MetadataFilter};
            let f = MetadataFilter { filter_type: Some(FilterType::Exact(ExactMatch { key: "w".into(), value: w.to_string() })) };
            let _ = te.cold_tier().ids_for_metadata_filter(&f);
            Obs::Other
        }
        EOp::FilterIdsScan => {
            use kyrodb_engine::proto::{metadata_filter::FilterType, MetadataFilter, NotFilter};
            let f = MetadataFilter { filter_type: Some(FilterType::NotFilter(Box::new(NotFilter { filter: None }))) };
            let _ = te.cold_tier().ids_for_metadata_filter(&f);
            Obs::Other
        }
        EOp::FilterDelScan => {
            use kyrodb_engine::proto::{metadata_filter::FilterType, MetadataFilter, NotFilter};
            let f = MetadataFilter { filter_type: Some(FilterType::NotFilter(Box::new(NotFilter { filter: None }))) };
            match te.batch_delete_by_metadata_filter(&f) {
                Ok(n) => Obs::Count(n),
                Err(e) => Obs::Err(format!("{e:#}")),
            }
        }
    }
}

#[derive(Clone, Copy, Debug, Serialize, Deserialize, PartialEq, Eq, Hash, PartialOrd, Ord)]
pub enum Init {
    Absent,
    ColdOnly,
    Cached,
    Hot,
    /// persistent engine whose index (capacity 3) is full and holds one tombstone, so the next
    /// insert of a new id takes the compact-and-retry path
    FullTomb,
    /// the same full-with-tombstone index WITHOUT persistence (no snapshot lock exists there)
    FullTombMem,
    /// persistent engine that takes an automatic snapshot after every write (interval 1)
    SnapEvery,
}

pub const INITS: [Init; 4] = [Init::Absent, Init::ColdOnly, Init::Cached, Init::Hot];

pub type TrainCtx = (Arc<parking_lot::RwLock<kyrodb_engine::access_logger::AccessPatternLogger>>, Arc<kyrodb_engine::cache_strategy::LearnedCacheStrategy>);
/// logger + learned strategy of the world built last (executions are sequential within a process;
/// a std mutex, i.e. not a scheduling point, and never held across one)
pub static TRAIN_CTX: std::sync::Mutex<Option<TrainCtx>> = std::sync::Mutex::new(None);

/// The body of the training task's loop (training_task.rs: fetch the recent window under the
/// logger's read lock, read the current target under the predictor's read lock, train a new
/// predictor off-lock, swap it in with update_predictor) on the real objects.
pub fn train_cycle(logger: &parking_lot::RwLock<kyrodb_engine::access_logger::AccessPatternLogger>, ls: &kyrodb_engine::cache_strategy::LearnedCacheStrategy) {
    let events = {
        let l = logger.read();
        l.get_recent_window(Duration::from_secs(3600))
    };
    if events.is_empty() {
        ls.record_training_skip();
        return;
    }
    let current_target = {
        let p = ls.predictor.read();
        p.target_hot_entries()
    };
    if let Ok(mut p) = kyrodb_engine::learned_cache::LearnedCachePredictor::new(4) {
        p.set_target_hot_entries(current_target);
        if p.train_from_accesses(&events).is_ok() {
            ls.update_predictor(p);
        }
    }
}

pub struct World {
    pub te: Arc<TieredEngine>,
    pub strategy: Arc<dyn CacheStrategy>,
    pub qcache: Arc<QueryHashCache>,
    pub dir: Option<vcore::Scratch>,
}

/// Build a fresh engine in initial state `init` (ids 1 and 2 written with w = 100+id when present).
pub fn build(init: Init, persistent: bool, learned: bool) -> World {
    let mut learned_strategy = None;
    let strategy: Arc<dyn CacheStrategy> = if learned {
        let ls = Arc::new(kyrodb_engine::cache_strategy::LearnedCacheStrategy::new(
            4,
            kyrodb_engine::learned_cache::LearnedCachePredictor::new(4).expect("predictor"),
        ));
        learned_strategy = Some(ls.clone());
        ls
    } else {
        Arc::new(LruCacheStrategy::new(4))
    };
    let qcache = Arc::new(QueryHashCache::new(4, 1.0));
    let persistent = persistent || init == Init::FullTomb || init == Init::SnapEvery;
    let dir = if persistent { Some(vcore::Scratch::new("sched")) } else { None };
    let cfg = TieredEngineConfig {
        hot_tier_max_size: 4,
        hot_tier_hard_limit: 8,
        hot_tier_max_age: Duration::from_secs(3600),
        hnsw_max_elements: if init == Init::FullTomb || init == Init::FullTombMem { 3 } else { 64 },
        embedding_dimension: 2,
        hnsw_distance: DistanceMetric::Euclidean,
        data_dir: dir.as_ref().map(|d| d.path.join("data").to_string_lossy().to_string()),
        snapshot_interval: if init == Init::SnapEvery { 1 } else { 0 },
        max_wal_size_bytes: 1,
        fsync_policy: kyrodb_engine::persistence::FsyncPolicy::Never,
        ..TieredEngineConfig::default()
    };
    let mut te = TieredEngine::new_with_shared_strategy(strategy.clone(), qcache.clone(), vec![], vec![], cfg).expect("engine");
    // the production wiring of the learned strategy: an access logger shared with the training task
    if let Some(ls) = learned_strategy {
        let logger = Arc::new(parking_lot::RwLock::new(kyrodb_engine::access_logger::AccessPatternLogger::new(64)));
        logger.write().log_doc_access(1);
        logger.write().log_doc_access(2);
        te.set_access_logger(logger.clone());
        *TRAIN_CTX.lock().unwrap() = Some((logger, ls));
    } else {
        *TRAIN_CTX.lock().unwrap() = None;
    }
    let te = Arc::new(te);
    match init {
        Init::Absent => {}
        Init::Hot => {
            te.insert(1, payload(101), wmeta(101)).unwrap();
            te.insert(2, payload(102), wmeta(102)).unwrap();
        }
        Init::SnapEvery => {
            te.insert(1, payload(101), wmeta(101)).unwrap();
            te.insert(2, payload(102), wmeta(102)).unwrap();
        }
        Init::FullTomb | Init::FullTombMem => {
            te.insert(1, payload(100), wmeta(100)).unwrap();
            te.insert(2, payload(102), wmeta(102)).unwrap();
            te.insert(1, payload(101), wmeta(101)).unwrap();
        }
        Init::ColdOnly => {
            te.insert(1, payload(101), wmeta(101)).unwrap();
            te.insert(2, payload(102), wmeta(102)).unwrap();
            te.flush_hot_tier(true).unwrap();
        }
        Init::Cached => {
            te.insert(1, payload(101), wmeta(101)).unwrap();
            te.insert(2, payload(102), wmeta(102)).unwrap();
            te.flush_hot_tier(true).unwrap();
            let _ = te.query(1, None);
            let _ = te.query(2, None);
            let _ = te.knn_search(&[1.0, 1.5], 2);
        }
    }
    World { te, strategy, qcache, dir }
}

pub fn initial_model(init: Init) -> BTreeMap<u64, (u32, Option<u32>)> {
    let mut m = BTreeMap::new();
    if init != Init::Absent {
        m.insert(1, (101, None));
        m.insert(2, (102, None));
    }
    m
}
