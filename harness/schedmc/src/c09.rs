//! C09 — snapshots and compaction racing with writers lose and duplicate nothing.
//! Writer thread(s) x a thread issuing manual snapshots on a persistent HnswBackend with tiny
//! rotation threshold / snapshot interval / capacity; every schedule up to the preemption bound;
//! after all calls returned: recover(dir) == final live dump.

use crate::explore::{explore, ExploreCfg};
use kyrodb_engine::HnswBackend;
use parking_lot::sched::{Body, Outcome};
use serde_json::{json, Value};
use std::collections::{BTreeMap, BTreeSet};
use std::sync::Arc;
use vcore::exec::{apply_backend, BackendCfg};
use vcore::findings::SigBag;
use vcore::model::{meta1, Op};
use vcore::{dump_backend, Scratch};

#[derive(Default)]
pub struct Agg {
    pub programs: u64,
    pub executions: u64,
    pub points: u64,
    pub capped: u64,
    pub outcomes: BTreeSet<u64>,
    pub nontrivial: u64,
    pub viol: SigBag,
    pub deadlocks: u64,
}

fn ins(id: u64, w: u32) -> Op {
    Op::Ins { id, v: vec![w as f32, 1.0], m: meta1("w", &w.to_string()) }
}

pub type Program = Vec<Vec<Op>>; // last thread = snapshot thread (ops are Op::Snap)

fn pname(p: &Program) -> Vec<Vec<String>> {
    p.iter().map(|t| t.iter().map(|o| o.short()).collect()).collect()
}

pub fn programs(tier: &str) -> Vec<Program> {
    let w_single: Vec<Vec<Op>> = vec![
        vec![ins(3, 31)],
        vec![ins(1, 12)],
        vec![Op::Del { id: 2 }],
        vec![Op::UpdMeta { id: 1, m: meta1("u", "1"), merge: true }],
        vec![Op::BatchDel { ids: vec![1, 2] }],
    ];
    let w_double: Vec<Vec<Op>> = vec![
        vec![ins(3, 31), ins(4, 41)],
        vec![ins(1, 12), Op::Del { id: 1 }],
        vec![Op::Del { id: 2 }, ins(2, 22)],
        vec![ins(3, 31), Op::UpdMeta { id: 3, m: meta1("u", "3"), merge: false }],
    ];
    let mut v: Vec<Program> = Vec::new();
    for w in &w_single {
        v.push(vec![w.clone(), vec![Op::Snap]]);
    }
    for w in &w_double {
        v.push(vec![w.clone(), vec![Op::Snap]]);
    }
    // two snapshots against one writer; two writers against one snapshot
    v.push(vec![vec![ins(3, 31), ins(4, 41)], vec![Op::Snap, Op::Snap]]);
    v.push(vec![vec![ins(3, 31)], vec![Op::Del { id: 2 }], vec![Op::Snap]]);
    v.push(vec![vec![ins(1, 12)], vec![Op::UpdMeta { id: 1, m: meta1("u", "1"), merge: true }], vec![Op::Snap]]);
    // two snapshot threads racing each other with a writer
    v.push(vec![vec![ins(3, 31)], vec![Op::Snap], vec![Op::Snap]]);
    if tier == "thorough" {
        v.push(vec![vec![ins(3, 31), Op::Del { id: 3 }], vec![Op::Snap, Op::Snap]]);
        v.push(vec![vec![Op::BatchDel { ids: vec![1, 2] }, ins(1, 13)], vec![Op::Snap]]);
        v.push(vec![vec![ins(3, 31)], vec![ins(4, 41)], vec![Op::Snap]]);
    }
    v
}

/// Tombstone-compaction family: the index (capacity 3) is FULL and holds a tombstone, so the
/// insert of a new id runs compact_tombstones() (which renumbers internal ids) while the other
/// writer is somewhere between its id lookup and its in-memory apply.
pub fn compaction_programs(tier: &str) -> Vec<Program> {
    let mut v: Vec<Program> = vec![
        vec![vec![ins(4, 41)], vec![Op::Del { id: 2 }]],
        vec![vec![ins(4, 41)], vec![Op::UpdMeta { id: 1, m: meta1("u", "1"), merge: true }]],
        vec![vec![ins(4, 41)], vec![ins(1, 12)]],
        vec![vec![ins(4, 41)], vec![Op::BatchDel { ids: vec![1, 2] }]],
        vec![vec![ins(4, 41)], vec![Op::Del { id: 2 }], vec![Op::Snap]],
        vec![vec![ins(4, 41)], vec![Op::Snap]],
    ];
    if tier == "thorough" {
        v.push(vec![vec![ins(4, 41)], vec![ins(5, 51)]]);
        v.push(vec![vec![ins(4, 41), Op::Del { id: 4 }], vec![Op::Del { id: 2 }, ins(2, 22)]]);
        v.push(vec![vec![ins(4, 41)], vec![Op::UpdMeta { id: 2, m: meta1("u", "2"), merge: false }], vec![Op::Snap]]);
    }
    // both thread orders: the default schedule runs thread 0 first, so with a bound of one
    // preemption "the other writer is interrupted mid-call by the compacting insert" is only
    // reachable when the other writer is thread 0
    let rev: Vec<Program> = v.iter().filter(|p| p.len() == 2).map(|p| vec![p[1].clone(), p[0].clone()]).collect();
    v.extend(rev);
    v
}

pub fn compaction_cfgs() -> Vec<BackendCfg> {
    let mk = |snap: usize| BackendCfg { metric: "euclidean".into(), dim: 2, capacity: 3, snap_interval: snap, rotation: 1, fsync: "never".into() };
    vec![mk(0), mk(2)]
}

/// every final reference state some serial order of the writers' operations can produce
/// `failed[t][i]`: the call returned Err (e.g. "index full"): it is not an acknowledged write, so
/// it may or may not have taken effect as far as THIS property is concerned (C03 decides that).
fn serial_outcomes(init: &vcore::model::RefModel, prog: &Program, failed: &[Vec<bool>]) -> Vec<vcore::model::RefModel> {
    fn rec(m: vcore::model::RefModel, threads: &[Vec<Op>], failed: &[Vec<bool>], pos: &mut Vec<usize>, out: &mut Vec<vcore::model::RefModel>) {
        let mut any = false;
        for t in 0..threads.len() {
            if pos[t] < threads[t].len() {
                any = true;
                let op = &threads[t][pos[t]];
                let was_failed = failed.get(t).and_then(|f| f.get(pos[t])).copied().unwrap_or(false);
                pos[t] += 1;
                if op.is_write() {
                    let mut m2 = m.clone();
                    let _ = m2.apply(op);
                    rec(m2, threads, failed, pos, out);
                    if was_failed {
                        rec(m.clone(), threads, failed, pos, out);
                    }
                } else {
                    rec(m.clone(), threads, failed, pos, out);
                }
                pos[t] -= 1;
            }
        }
        if !any {
            out.push(m);
        }
    }
    let mut out = Vec::new();
    rec(init.clone(), prog, failed, &mut vec![0; prog.len()], &mut out);
    out
}

pub fn cfgs(tier: &str) -> Vec<BackendCfg> {
    let mk = |snap: usize, cap: usize| BackendCfg { metric: "euclidean".into(), dim: 2, capacity: cap, snap_interval: snap, rotation: 1, fsync: "never".into() };
    if tier == "thorough" {
        vec![mk(1, 64), mk(2, 64), mk(1, 3), mk(2, 3), mk(0, 64)]
    } else {
        vec![mk(2, 64), mk(1, 3), mk(0, 64)]
    }
}

pub fn check_program(cfg: &BackendCfg, prog: &Program, bound: usize, max_execs: usize, agg: &mut Agg) {
    check_program_init(cfg, prog, "two", bound, max_execs, agg)
}

/// `init`: "two" = ids 1,2 live; "fulltomb" = capacity-3 index holding a deleted document in
/// internal slot 0 and ids 1,2 live behind it (full, one tombstone that compaction must move past).
pub fn check_program_init(cfg: &BackendCfg, prog: &Program, init: &str, bound: usize, max_execs: usize, agg: &mut Agg) {
    agg.programs += 1;
    let mut init_model = vcore::model::RefModel::default();
    let _ = init_model.apply(&Op::Ins { id: 1, v: vec![11.0, 1.0], m: meta1("w", "11") });
    let _ = init_model.apply(&Op::Ins { id: 2, v: vec![21.0, 1.0], m: meta1("w", "21") });
    let metric = vcore::metric_from(&cfg.metric);
    let ecfg = ExploreCfg { bound, max_execs, ..Default::default() };
    let progc = prog.clone();
    let cfgc = cfg.clone();
    let known = vcore::findings::Reporter::new("C09");
    let mut serial: BTreeSet<u64> = BTreeSet::new();
    let out = explore(
        &ecfg,
        || {
            let scratch = Scratch::new("c09");
            let dir = scratch.path.join("d");
            let b = Arc::new(cfgc.open_fresh(&dir).expect("open"));
            // initial content: ids 1 and 2 (written before the race, partly snapshotted)
            if init == "fulltomb" {
                // the tombstone goes into internal slot 0, so that compaction MOVES the live
                // documents (a tombstone in the last slot would leave their internal ids alone)
                b.insert(9, vec![91.0, 1.0], vcore::to_hash(&meta1("w", "91"))).unwrap();
            }
            b.insert(1, vec![11.0, 1.0], vcore::to_hash(&meta1("w", "11"))).unwrap();
            b.insert(2, vec![21.0, 1.0], vcore::to_hash(&meta1("w", "21"))).unwrap();
            if init == "fulltomb" {
                b.delete(9).unwrap();
            }
            let failed: Arc<std::sync::Mutex<Vec<Vec<bool>>>> = Arc::new(std::sync::Mutex::new(progc.iter().map(|t| vec![false; t.len()]).collect()));
            let bodies: Vec<Body> = progc
                .iter()
                .enumerate()
                .map(|(ti, ops)| {
                    let b = b.clone();
                    let ops = ops.clone();
                    let failed = failed.clone();
                    Box::new(move || {
                        for (oi, op) in ops.iter().enumerate() {
                            if apply_backend(&b, op).is_err() {
                                failed.lock().unwrap()[ti][oi] = true;
                            }
                        }
                    }) as Body
                })
                .collect();
            (bodies, (b, scratch, failed))
        },
        |res, (b, scratch, failed), choices| {
            match &res.outcome {
                Outcome::Completed => {}
                Outcome::Deadlock(bl) => {
                    agg.deadlocks += 1;
                    if std::env::var("C09_SHOW_DEADLOCKS").is_ok() {
                        agg.viol.push(("C09|debug-deadlock".into(), json!({"program":pname(&progc),"cfg":cfgc,"schedule":choices,"blocked":format!("{bl:?}"),"trace":res.optrace.iter().map(|t| t.iter().map(|e| format!("{e:?}")).collect::<Vec<_>>()).collect::<Vec<_>>(),"touches":res.touches.iter().map(|(k,t)| (k.to_string(), t.site.clone())).collect::<BTreeMap<_,_>>()})));
                    }
                    return true;
                }
                _ => return true,
            }
            let dir = scratch.path.join("d");
            let live = dump_backend(&b);
            let man_before: Option<u64> = std::fs::read(dir.join("MANIFEST")).ok().and_then(|x| serde_json::from_slice::<Value>(&x).ok()).and_then(|v| v["latest_snapshot_wal_seq"].as_u64());
            let b = match Arc::try_unwrap(b) {
                Ok(b) => b,
                Err(_) => return true,
            };
            drop(b);
            let ctx = |detail: String| json!({"engine":"schedmc","check":"C09","cfg":cfgc,"init":init,"program":pname(&progc),"schedule":choices,"preemptions":res.preemptions,"detail":detail});
            let rec = cfgc.recover(&dir).map(|rb: HnswBackend| dump_backend(&rb));
            use std::hash::{Hash, Hasher};
            let mut h = std::collections::hash_map::DefaultHasher::new();
            format!("{:?}|{:?}", live, man_before).hash(&mut h);
            let hv = h.finish();
            if res.preemptions == 0 {
                serial.insert(hv);
            } else if !serial.contains(&hv) && agg.outcomes.insert(hv) {
                agg.nontrivial += 1;
            }
            if let Some((t, msg)) = res.panics.first() {
                agg.viol.push(("C09|panic".into(), ctx(format!("thread {t} panicked: {msg}"))));
                return agg.viol.map.keys().all(|k| known.is_known(k));
            }
            // the live collection itself must be what SOME serial order of the acknowledged
            // operations produces (a write applied to the wrong internal slot is not)
            let failed = failed.lock().unwrap().clone();
            let allowed = serial_outcomes(&init_model, &progc, &failed);
            if !allowed.iter().any(|m| vcore::model::dump_vs_model(metric, &live, m).is_ok()) {
                agg.viol.push(("C09|live-collection-matches-no-serial-order-of-the-acknowledged-writes".into(), ctx(format!("live {} ; serial outcomes {:?}", vcore::dump_to_json(&live), allowed.iter().map(|m| format!("{:?}", m.docs.keys().collect::<Vec<_>>())).collect::<Vec<_>>()))));
                return agg.viol.map.keys().all(|k| known.is_known(k));
            }
            match rec {
                Err(e) => {
                    agg.viol.push(("C09|restart-fails".into(), ctx(format!("strict recovery failed after all calls returned: {e:#}"))));
                    agg.viol.map.keys().all(|k| known.is_known(k))
                }
                Ok(d) => {
                    if d != live {
                        let sym = if live.keys().any(|k| !d.contains_key(k)) {
                            "acknowledged-write-lost"
                        } else if d.keys().any(|k| !live.contains_key(k)) {
                            "deleted-document-resurrected"
                        } else {
                            "document-content-reverted"
                        };
                        agg.viol.push((format!("C09|recovered-differs-from-live|{sym}"), ctx(format!("live {} recovered {}", vcore::dump_to_json(&live), vcore::dump_to_json(&d)))));
                        return agg.viol.map.keys().all(|k| known.is_known(k));
                    }
                    true
                }
            }
        },
    );
    agg.executions += out.executions;
    agg.points += out.points;
    if out.capped {
        agg.capped += 1;
    }
}

pub fn worker(wi: usize, wn: usize, tier: &str) {
    let bound: usize = std::env::var("C09_BOUND").ok().and_then(|s| s.parse().ok()).unwrap_or(if tier == "thorough" { 3 } else { 1 });
    let max_execs: usize = std::env::var("C09_MAX_EXECS").ok().and_then(|s| s.parse().ok()).unwrap_or(if tier == "thorough" { 150_000 } else { 4_000 });
    let mut agg = Agg::default();
    let mut idx = 0;
    for cfg in cfgs(tier) {
        for p in programs(tier) {
            idx += 1;
            if idx % wn != wi {
                continue;
            }
            check_program(&cfg, &p, bound, max_execs, &mut agg);
        }
    }
    for cfg in compaction_cfgs() {
        for p in compaction_programs(tier) {
            idx += 1;
            if idx % wn != wi {
                continue;
            }
            // "writer B is interrupted mid-call by a compaction that writer A started after
            // passing the write gate" needs two preemptions whatever the thread order
            check_program_init(&cfg, &p, "fulltomb", bound.max(2), max_execs.max(20_000), &mut agg);
        }
    }
    vcore::par::worker_emit(&json!({"programs":agg.programs,"executions":agg.executions,"points":agg.points,"capped":agg.capped,"deadlocks":agg.deadlocks,"nontrivial":agg.nontrivial,"violations":agg.viol.to_json()}));
}

pub fn run(tier: &str, replay: Option<&str>) -> i32 {
    if let Some(p) = replay {
        let v: Value = serde_json::from_str(&std::fs::read_to_string(p).expect("read")).expect("json");
        let c = &v["case"];
        let cfg: BackendCfg = serde_json::from_value(c["cfg"].clone()).unwrap();
        let names: Vec<Vec<String>> = serde_json::from_value(c["program"].clone()).unwrap();
        let init = c["init"].as_str().unwrap_or("two").to_string();
        for prog in programs("thorough").into_iter().chain(compaction_programs("thorough")) {
            if pname(&prog) == names {
                let mut agg = Agg::default();
                check_program_init(&cfg, &prog, &init, 2, 100_000, &mut agg);
                if let Some((s, r)) = agg.viol.any_first() {
                    println!("replay: reproduced {s}: {}", r["detail"]);
                    println!("VIOLATION property=C09 replay={p}");
                    return 1;
                }
                println!("replay: no violation");
                return 0;
            }
        }
        return 2;
    }
    if let Some((i, n)) = vcore::par::worker_id() {
        worker(i, n, tier);
        return 0;
    }
    let res = vcore::par::run_workers(vcore::par::jobs(), &[]);
    let mut ev = vcore::evidence::Evidence::new("C09", tier, "model_checking");
    let mut rep = vcore::findings::Reporter::new("C09");
    let mut tot: BTreeMap<&str, u64> = BTreeMap::new();
    for r in &res {
        for k in ["programs", "executions", "points", "capped", "deadlocks", "nontrivial"] {
            *tot.entry(k).or_insert(0) += r[k].as_u64().unwrap_or(0);
        }
        rep.report_bag(&r["violations"]);
    }
    let bound: usize = std::env::var("C09_BOUND").ok().and_then(|s| s.parse().ok()).unwrap_or(if tier == "thorough" { 3 } else { 1 });
    ev.set("states", tot["points"]);
    ev.set("transitions", tot["points"]);
    ev.set("traces_validated_against_impl", tot["executions"]);
    ev.set("evaluations", tot["executions"]);
    ev.set("distinct_nontrivial", tot["nontrivial"]);
    ev.set("rule", format!("programs: one or two writer threads (insert new / overwrite / delete / metadata update / batch delete, single and in pairs, with automatic snapshot triggers) x one or two threads issuing create_snapshot (once or twice), on a persistent HnswBackend with rotation threshold 1 byte, snapshot interval {{0,1,2}} and capacity {{3,64}}; every schedule with <= {bound} preemptions (at least 2 for the compaction family) at lock granularity; plus the tombstone-compaction family (capacity-3 index that is full and holds a tombstone, so an insert of a new id runs compact_tombstones() and renumbers internal ids) racing delete / metadata update / overwrite / batch delete / snapshot; after all calls returned the live dump is taken and must equal the outcome of SOME serial order of the acknowledged writes, the backend is dropped, and strict recovery from the directory must succeed and reproduce the live dump bit for bit. non-trivial = executions with a preemption whose (live dump, manifest snapshot seq) differs from all preemption-free executions"));
    ev.set("samples", json!([{"program":[["I(3,...)","I(4,...)"],["SNAP","SNAP"]],"cfg":"euclidean/d2/cap64/snap2/rot1/never"}]));
    ev.set("exhaustive", tot["capped"] == 0);
    ev.set("programs", tot["programs"]);
    ev.set("programs_capped", tot["capped"]);
    ev.set("preemption_bound", bound as u64);
    ev.assume("scheduling points are lock acquisitions: the window between a snapshot's state capture, its file write and its manifest update is delimited by index.read() / manifest_lock acquisitions");
    ev.assume("fsync policy never (durability under crash is C01; here every call has returned and the process exits cleanly)");
    ev.violations = rep.violations as i64;
    ev.write();
    println!("C09 {tier}: programs={} executions={} points={} capped={} nontrivial={} deadlocks={} violations={}", tot["programs"], tot["executions"], tot["points"], tot["capped"], tot["nontrivial"], tot["deadlocks"], rep.violations);
    rep.finish()
}
