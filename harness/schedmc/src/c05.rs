//! C05 — per-document operations are linearizable under concurrency.
//! Programs of 2-3 real threads on a fresh TieredEngine, every schedule up to the preemption
//! bound; recorded call/return history checked by brute force against a sequential map, then a
//! sequential epilogue (reads, forced drain, reads) must agree with a linearization's final state.

use crate::eng::*;
use crate::explore::{explore, ExploreCfg};
use parking_lot::sched::{self, Body, Outcome};
use serde_json::{json, Value};
use std::collections::{BTreeMap, BTreeSet};
use std::sync::{Arc, Mutex};
use vcore::findings::SigBag;

#[derive(Clone, Debug)]
pub struct Event {
    pub thread: usize,
    pub op: EOp,
    pub call: u64,
    pub ret: u64,
    pub obs: Obs,
}

/// Per-id sequential state: None = absent, Some(w) = last write number (vector and metadata).
type St = Option<u32>;

/// One per-document event derived from an operation.
#[derive(Clone, Debug)]
struct PEv {
    call: u64,
    ret: u64,
    kind: PK,
    label: String,
}
#[derive(Clone, Debug)]
enum PK {
    Write(u32),
    /// a write that reported an error: it may or may not have taken effect
    MaybeWrite(u32),
    /// the boolean a delete returns is not a read in the sense of the property (it reports
    /// "found in at least one tier"), so it is not constrained
    Delete(bool),
    /// read that returned (vector write, metadata write) or absent; None components = not reported
    Read(Option<(u32, Option<Option<u32>>)>),
    Exists(bool),
}

fn per_id_events(evs: &[Event], id: u64) -> Result<Vec<PEv>, String> {
    let mut out = Vec::new();
    for e in evs {
        let lab = format!("T{}:{}", e.thread, e.op.name());
        let mut push = |kind: PK| out.push(PEv { call: e.call, ret: e.ret, kind, label: lab.clone() });
        match (&e.op, &e.obs) {
            (EOp::Ins(i, w), Obs::Unit) if *i == id => push(PK::Write(*w)),
            (EOp::BulkLoad(i, w), Obs::Unit) if *i == id => push(PK::Write(*w)),
            (EOp::Del(i), Obs::Bool(b)) if *i == id => push(PK::Delete(*b)),
            (EOp::Query(i), Obs::Vec(v)) | (EOp::EmbCacheAware(i), Obs::Vec(v)) if *i == id => push(PK::Read(v.map(|w| (w, None)))),
            (EOp::GetDocMeta(i), Obs::VecMeta(v)) if *i == id => push(PK::Read(v.map(|(w, mw, _)| (w, Some(mw))))),
            (EOp::Exists(i), Obs::Bool(b)) if *i == id => push(PK::Exists(*b)),
            (EOp::BulkQuery, Obs::Bulk(v)) => {
                let idx = (id - 1) as usize;
                if idx < v.len() {
                    push(PK::Read(v[idx].map(|(w, mw, _)| (w, Some(mw)))));
                }
            }
            (EOp::Ins(i, w), Obs::Err(_)) if *i == id => push(PK::MaybeWrite(*w)),
            (EOp::Del(i), Obs::Err(e)) if *i == id => return Err(format!("{lab} failed: {e}")),
            _ => {}
        }
    }
    Ok(out)
}

/// Brute force: all final states reachable by some linearization (None if there is none).
fn linearize(evs: &[PEv], init: St) -> Option<BTreeSet<St>> {
    let n = evs.len();
    let mut finals: BTreeSet<St> = BTreeSet::new();
    let mut used = vec![false; n];
    fn rec(evs: &[PEv], used: &mut Vec<bool>, st: St, done: usize, finals: &mut BTreeSet<St>) {
        let n = evs.len();
        if done == n {
            finals.insert(st);
            return;
        }
        // candidates: unused events whose call precedes every unused event's return
        let min_ret = (0..n).filter(|i| !used[*i]).map(|i| evs[i].ret).min().unwrap();
        for i in 0..n {
            if used[i] || evs[i].call > min_ret {
                continue;
            }
            let (ok, nst) = match &evs[i].kind {
                PK::Write(w) => (true, Some(*w)),
                PK::MaybeWrite(w) => {
                    // branch: not applied
                    used[i] = true;
                    rec(evs, used, st, done + 1, finals);
                    used[i] = false;
                    (true, Some(*w))
                }
                PK::Delete(_) => (true, None),
                PK::Read(None) => (st.is_none(), st),
                PK::Read(Some((w, _))) => (st == Some(*w), st),
                PK::Exists(b) => (*b == st.is_some(), st),
            };
            if ok {
                used[i] = true;
                rec(evs, used, nst, done + 1, finals);
                used[i] = false;
            }
        }
    }
    rec(evs, &mut used, init, 0, &mut finals);
    if finals.is_empty() {
        None
    } else {
        Some(finals)
    }
}

#[derive(Default)]
pub struct Agg {
    pub programs: u64,
    pub executions: u64,
    pub points: u64,
    pub capped: u64,
    pub histories_distinct: BTreeSet<u64>,
    pub preempted_distinct_outcomes: u64,
    pub viol: SigBag,
    pub deadlocks: u64,
}

pub type Program = Vec<Vec<EOp>>;

fn pname(p: &Program) -> Vec<Vec<String>> {
    p.iter().map(|t| t.iter().map(|o| o.name()).collect()).collect()
}

pub fn check_program(prog: &Program, init: Init, bound: usize, max_execs: usize, agg: &mut Agg) {
    agg.programs += 1;
    // a listed known finding must not end the search of its program: keep exploring so that a
    // different violation of the same program is still reported
    let known = vcore::findings::Reporter::new("C05");
    let cfg = ExploreCfg { bound, max_execs, ..Default::default() };
    let progc = prog.clone();
    let mut serial_outcomes: BTreeSet<u64> = BTreeSet::new();
    let mut stop = false;
    let out = explore(
        &cfg,
        || {
            let w = build(init, false, false);
            let log: Arc<Mutex<Vec<Event>>> = Arc::new(Mutex::new(Vec::new()));
            let bodies: Vec<Body> = progc
                .iter()
                .enumerate()
                .map(|(t, ops)| {
                    let te = w.te.clone();
                    let ops = ops.clone();
                    let log = log.clone();
                    Box::new(move || {
                        for op in ops {
                            let call = sched::stamp();
                            let obs = run_op(&te, &op);
                            let ret = sched::stamp();
                            log.lock().unwrap().push(Event { thread: t, op, call, ret, obs });
                        }
                    }) as Body
                })
                .collect();
            (bodies, (w, log))
        },
        |res, (w, log), choices| {
            let evs = log.lock().unwrap().clone();
            let ctx = |detail: String, evs: &[Event]| {
                json!({"engine":"schedmc","check":"C05","program":pname(&progc),"init":init,"schedule":choices,"preemptions":res.preemptions,"detail":detail,
                       "history": evs.iter().map(|e| json!({"thread":e.thread,"op":e.op.name(),"call":e.call,"ret":e.ret,"returned":format!("{:?}", e.obs)})).collect::<Vec<_>>()})
            };
            match &res.outcome {
                Outcome::Completed => {}
                Outcome::Deadlock(_) => {
                    agg.deadlocks += 1;
                    return true; // C08's business
                }
                _ => return true,
            }
            if let Some((t, msg)) = res.panics.first() {
                agg.viol.push(("C05|panic".into(), ctx(format!("thread {t} panicked: {msg}"), &evs)));
                stop = true;
                return agg.viol.map.keys().all(|k| known.is_known(k));
            }
            use std::hash::{Hash, Hasher};
            let mut h = std::collections::hash_map::DefaultHasher::new();
            format!("{:?}", evs.iter().map(|e| (e.thread, &e.obs)).collect::<Vec<_>>()).hash(&mut h);
            let hv = h.finish();
            if res.preemptions == 0 {
                serial_outcomes.insert(hv);
            } else if !serial_outcomes.contains(&hv) && agg.histories_distinct.insert(hv) {
                agg.preempted_distinct_outcomes += 1;
            }
            // same-write check for reads with metadata
            for e in &evs {
                let bad = |v: &Option<(u32, Option<u32>, Option<u32>)>| matches!(v, Some((w, mw, _)) if *mw != Some(*w));
                let torn = match &e.obs {
                    Obs::VecMeta(v) => bad(v),
                    Obs::Bulk(vs) => vs.iter().any(bad),
                    _ => false,
                };
                if torn {
                    agg.viol.push((format!("C05|{}|vector-and-metadata-from-different-writes", e.op.kind()), ctx(format!("{} returned {:?}", e.op.name(), e.obs), &evs)));
                    stop = true;
                    return agg.viol.map.keys().all(|k| known.is_known(k));
                }
                if matches!(&e.obs, Obs::Vec(Some(u32::MAX))) {
                    agg.viol.push((format!("C05|{}|vector-never-written", e.op.kind()), ctx(format!("{} returned a vector no write produced", e.op.name()), &evs)));
                    stop = true;
                    return agg.viol.map.keys().all(|k| known.is_known(k));
                }
            }
            // linearizability per id + epilogue
            let im = initial_model(init);
            for id in [1u64, 2] {
                let pe = match per_id_events(&evs, id) {
                    Ok(p) => p,
                    Err(e) => {
                        agg.viol.push(("C05|write-failed".into(), ctx(e, &evs)));
                        stop = true;
                        return agg.viol.map.keys().all(|k| known.is_known(k));
                    }
                };
                let init_st: St = im.get(&id).map(|x| x.0);
                let finals = match linearize(&pe, init_st) {
                    Some(f) => f,
                    None => {
                        let kinds: BTreeSet<&str> = evs.iter().map(|e| e.op.kind()).collect();
                        agg.viol.push((
                            format!("C05|not-linearizable|ops={}", kinds.into_iter().collect::<Vec<_>>().join("+")),
                            ctx(format!("no total order of the operations on id {id} consistent with real-time order explains the returned values: {:?}", pe.iter().map(|p| (&p.label, p.call, p.ret, format!("{:?}", p.kind))).collect::<Vec<_>>()), &evs),
                        ));
                        stop = true;
                        return agg.viol.map.keys().all(|k| known.is_known(k));
                    }
                };
                // epilogue: sequential reads, forced drain, reads again
                let read_all = |te: &kyrodb_engine::TieredEngine| -> (St, St, bool) {
                    let q = te.query(id, None).map(|v| w_of_vec(&v).unwrap_or(u32::MAX));
                    let g = te.get_document_with_metadata(id).map(|(v, _)| w_of_vec(&v).unwrap_or(u32::MAX));
                    (q, g, te.exists(id))
                };
                let (q1, g1, e1) = read_all(&w.te);
                if q1 != g1 || e1 != q1.is_some() || !finals.contains(&q1) {
                    agg.viol.push((
                        "C05|epilogue|final-state-not-a-linearization-outcome".into(),
                        ctx(format!("after all threads finished id {id} reads as query={q1:?} get_document_with_metadata={g1:?} exists={e1}; linearizations end in {finals:?}"), &evs),
                    ));
                    stop = true;
                    return agg.viol.map.keys().all(|k| known.is_known(k));
                }
                let _ = w.te.flush_hot_tier(true);
                let (q2, g2, e2) = read_all(&w.te);
                if (q2, g2, e2) != (q1, g1, e1) {
                    let sig = if q1.is_none() && q2.is_some() {
                        "C05|epilogue|drain-resurrects-document-absent-before-drain"
                    } else {
                        "C05|epilogue|drain-changed-final-state"
                    };
                    agg.viol.push((
                        sig.into(),
                        ctx(format!("id {id}: before drain query={q1:?}, after forced drain query={q2:?} get_document_with_metadata={g2:?} exists={e2}"), &evs),
                    ));
                    stop = true;
                    return agg.viol.map.keys().all(|k| known.is_known(k));
                }
            }
            true
        },
    );
    let _ = stop;
    agg.executions += out.executions;
    agg.points += out.points;
    if out.capped {
        agg.capped += 1;
    }
}

pub fn programs(tier: &str) -> Vec<Program> {
    let w1 = |w: u32| EOp::Ins(1, w);
    let writers: Vec<Vec<EOp>> = vec![
        vec![w1(11)],
        vec![EOp::Del(1)],
        vec![w1(11), w1(12)],
        vec![w1(11), EOp::Del(1)],
        vec![EOp::Del(1), w1(11)],
    ];
    let others: Vec<Vec<EOp>> = vec![
        vec![EOp::Query(1)],
        vec![EOp::GetDocMeta(1)],
        vec![EOp::BulkQuery],
        vec![EOp::Exists(1)],
        vec![EOp::EmbCacheAware(1)],
        vec![EOp::Query(1), EOp::Query(1)],
        vec![EOp::GetDocMeta(1), EOp::Query(1)],
        vec![EOp::Query(1), EOp::GetDocMeta(1)],
        vec![w1(21)],
        vec![EOp::Del(1)],
        vec![w1(21), EOp::Query(1)],
        vec![EOp::Del(1), EOp::Query(1)],
    ];
    let mut v: Vec<Program> = Vec::new();
    for a in &writers {
        for b in &others {
            v.push(vec![a.clone(), b.clone()]);
        }
    }
    // three threads x one op
    let singles = [w1(11), EOp::Del(1), EOp::Query(1), EOp::GetDocMeta(1), w1(21), EOp::BulkQuery];
    let triples: Vec<[usize; 3]> = vec![[0, 1, 2], [0, 1, 3], [0, 4, 2], [0, 4, 3], [0, 1, 4], [0, 2, 3], [1, 2, 3], [0, 1, 5], [0, 4, 5]];
    let take = if tier == "thorough" { triples.len() } else { 5 };
    for t in triples.iter().take(take) {
        v.push(t.iter().map(|i| vec![singles[*i].clone()]).collect());
    }
    v
}

/// Compaction family: the index (capacity 3) is full with a tombstone in internal slot 0, so the
/// insert of a NEW id runs tombstone compaction (which renumbers internal ids) while another
/// client reads or writes ids 1 / 2. Both thread orders.
pub fn compaction_programs(tier: &str) -> Vec<Program> {
    let trigger = vec![EOp::Ins(3, 31)];
    let mut others: Vec<Vec<EOp>> = vec![
        vec![EOp::Query(1)],
        vec![EOp::GetDocMeta(1)],
        vec![EOp::BulkQuery],
        vec![EOp::EmbCacheAware(1)],
        vec![EOp::Del(1)],
        vec![EOp::Ins(1, 11)],
        vec![EOp::UpdMeta(1, 7), EOp::GetDocMeta(1)],
    ];
    if tier == "thorough" {
        others.push(vec![EOp::Query(1), EOp::Query(1)]);
        others.push(vec![EOp::Del(1), EOp::Query(1)]);
        others.push(vec![EOp::Exists(1)]);
    }
    let mut v = Vec::new();
    for o in &others {
        v.push(vec![trigger.clone(), o.clone()]);
        v.push(vec![o.clone(), trigger.clone()]);
    }
    v
}

pub fn worker(wi: usize, wn: usize, tier: &str) {
    let bound: usize = std::env::var("C05_BOUND").ok().and_then(|s| s.parse().ok()).unwrap_or(if tier == "thorough" { 3 } else { 1 });
    let max_execs: usize = std::env::var("C05_MAX_EXECS").ok().and_then(|s| s.parse().ok()).unwrap_or(if tier == "thorough" { 150_000 } else { 6_000 });
    let mut agg = Agg::default();
    let mut idx = 0;
    for p in programs(tier) {
        for init in INITS {
            idx += 1;
            if idx % wn != wi {
                continue;
            }
            check_program(&p, init, bound, max_execs, &mut agg);
        }
    }
    for p in compaction_programs(tier) {
        idx += 1;
        if idx % wn != wi {
            continue;
        }
        check_program(&p, Init::FullTomb, bound.max(2), max_execs.max(20_000), &mut agg);
        check_program(&p, Init::FullTombMem, bound.max(2), max_execs.max(20_000), &mut agg);
    }
    vcore::par::worker_emit(&json!({"programs":agg.programs,"executions":agg.executions,"points":agg.points,"capped":agg.capped,"deadlocks":agg.deadlocks,
        "preempted_distinct":agg.preempted_distinct_outcomes,"violations":agg.viol.to_json()}));
}

fn run_server_slice(tier: &str) -> Result<Value, String> {
    let bin = std::env::var("SRVMC_BIN").map_err(|_| "SRVMC_BIN not set (run through bin/check)".to_string())?;
    let out = vcore::par::output_retry(std::process::Command::new(&bin).arg("C05S").arg(tier).env_remove("VERIF_WORKER").env_remove("VERIF_WORKER_OUT")).map_err(|e| format!("cannot run {bin}: {e}"))?;
    let stdout = String::from_utf8_lossy(&out.stdout);
    let line = stdout.lines().find_map(|l| l.strip_prefix("C05S-RESULT ")).ok_or_else(|| format!("no result line; exit {:?}; stderr: {}", out.status.code(), String::from_utf8_lossy(&out.stderr)))?;
    serde_json::from_str(line).map_err(|e| format!("bad result: {e}"))
}

pub fn run(tier: &str, replay: Option<&str>) -> i32 {
    if let Some(p) = replay {
        let v: Value = serde_json::from_str(&std::fs::read_to_string(p).expect("read")).expect("json");
        let c = &v["case"];
        if c["check"] == "C05S" {
            let sig = v["signature"].as_str().unwrap_or("").to_string();
            return match run_server_slice("thorough") {
                Ok(r) => {
                    if r["violations"].as_array().map(|a| a.iter().any(|x| x["sig"] == sig.as_str())).unwrap_or(false) {
                        println!("replay: reproduced {sig}");
                        println!("VIOLATION property=C05 replay={p}");
                        1
                    } else {
                        println!("replay: no violation with signature {sig}");
                        0
                    }
                }
                Err(e) => {
                    eprintln!("machinery error: {e}");
                    2
                }
            };
        }
        // programs are re-explored (the schedule indices depend on the branching set)
        let names: Vec<Vec<String>> = serde_json::from_value(c["program"].clone()).unwrap();
        let init: Init = serde_json::from_value(c["init"].clone()).unwrap();
        for tier in ["thorough"] {
            for prog in programs(tier).into_iter().chain(compaction_programs(tier)) {
                if pname(&prog) == names {
                    let mut agg = Agg::default();
                    check_program(&prog, init, 2, 100_000, &mut agg);
                    if let Some((s, r)) = agg.viol.any_first() {
                        println!("replay: reproduced {s}: {}", r["detail"]);
                        println!("VIOLATION property=C05 replay={p}");
                        return 1;
                    }
                    println!("replay: no violation");
                    return 0;
                }
            }
        }
        println!("replay: program not in catalogue");
        return 2;
    }
    if let Some((i, n)) = vcore::par::worker_id() {
        worker(i, n, tier);
        return 0;
    }
    let res = vcore::par::run_workers(vcore::par::jobs(), &[]);
    let mut ev = vcore::evidence::Evidence::new("C05", tier, "model_checking");
    let mut rep = vcore::findings::Reporter::new("C05");
    let mut tot: BTreeMap<&str, u64> = BTreeMap::new();
    for r in &res {
        for k in ["programs", "executions", "points", "capped", "deadlocks", "preempted_distinct"] {
            *tot.entry(k).or_insert(0) += r[k].as_u64().unwrap_or(0);
        }
        rep.report_bag(&r["violations"]);
    }
    let bound: usize = std::env::var("C05_BOUND").ok().and_then(|s| s.parse().ok()).unwrap_or(if tier == "thorough" { 3 } else { 1 });
    ev.set("states", tot["points"]);
    ev.set("transitions", tot["points"]);
    ev.set("traces_validated_against_impl", tot["executions"]);
    ev.set("evaluations", tot["executions"]);
    ev.set("distinct_nontrivial", tot["preempted_distinct"]);
    ev.set("rule", format!("programs: one writer thread (insert / delete / overwrite pair / insert-delete / delete-insert on id 1) x one other thread (point read, read with metadata, bulk read, existence probe, cache-aware read, read pairs, competing insert/delete, write-then-read) and three-thread single-op mixes, each from 4 initial states (absent, cold-only, cached, in recent-write tier); every schedule with <= {bound} preemptions at lock granularity on a fresh TieredEngine; oracle: brute-force linearizability per document against a sequential map (real-time order from scheduler stamps), vector and metadata of one read from the same write, then a sequential epilogue (all read flavours, forced drain, reads again) whose result must be the final state of some linearization and must not change across the drain. non-trivial = executions with >=1 preemption whose observed return values differ from every preemption-free execution of the same program; plus the compaction family from a full index with a tombstone in slot 0, with and without persistence: insert of a new id (tombstone compaction renumbers internal ids) x {{query, get_document_with_metadata, bulk_query, cache-aware embedding read, delete, overwrite, metadata update + read}} on id 1, both thread orders, at least 2 preemptions"));
    ev.set("samples", json!([{"program":[["insert(1,w11)","delete(1)"],["get_document_with_metadata(1)","query(1)"]],"init":"Cached"}]));
    ev.set("exhaustive", tot["capped"] == 0);
    ev.set("programs", tot["programs"]);
    ev.set("programs_capped", tot["capped"]);
    ev.set("preemption_bound", bound as u64);
    ev.set("executions_ending_in_deadlock_left_to_C08", tot["deadlocks"]);
    ev.assume("scheduling points are lock acquisitions; interleavings between two lock operations of one thread (atomics) are not explored");
    ev.assume("the seeded-random-priority schedules beyond the bound mentioned in the quantifier are not part of this claim (sampling is another family)");
    // server-level slice: the gRPC read handlers under the same scheduler (srvmc C05S)
    match run_server_slice(tier) {
        Ok(v) => {
            rep.report_bag(&v["violations"]);
            ev.set("server_slice_programs", v["programs"].clone());
            ev.set("server_slice_executions", v["executions"].clone());
            ev.set("server_slice_reads_judged", v["reads_judged"].clone());
            ev.set("server_slice_rule", "Query(with embedding) and BulkQuery through the real in-process gRPC handlers x {overwrite, two overwrites, delete + re-insert, metadata update + overwrite} x initial state {recent-write tier, drained, drained + cached}, every schedule with <= 2 (thorough 3) preemptions: vector and metadata of one response belong to the same write");
        }
        Err(e) => {
            eprintln!("C05: machinery error in the server-level slice: {e}");
            return 2;
        }
    }
    ev.violations = rep.violations as i64;
    ev.write();
    println!("C05 {tier}: programs={} executions={} points={} capped={} nontrivial={} deadlocks={} violations={}", tot["programs"], tot["executions"], tot["points"], tot["capped"], tot["preempted_distinct"], tot["deadlocks"], rep.violations);
    rep.finish()
}
