//! schedmc: exhaustive preemption-bounded schedule exploration of real engine threads.
mod c05;
mod c08;
mod c09;
mod eng;
mod explore;

fn main() {
    let args: Vec<String> = std::env::args().collect();
    if args.len() < 2 {
        eprintln!("usage: schedmc <PROPERTY> [quick|thorough] [--replay <file>]");
        std::process::exit(2);
    }
    std::env::set_var("KSCHED_QUIET_PANICS", "1");
    let prop = args[1].as_str();
    let mut tier = vcore::tier_from_env_or(None);
    let mut replay: Option<String> = None;
    let mut i = 2;
    while i < args.len() {
        match args[i].as_str() {
            "--replay" => {
                replay = args.get(i + 1).cloned();
                i += 1;
            }
            t @ ("quick" | "thorough") => tier = t.to_string(),
            other => {
                eprintln!("unknown argument {other}");
                std::process::exit(2);
            }
        }
        i += 1;
    }
    let code = match prop {
        "C08" => c08::run(&tier, replay.as_deref()),
        "C05" => c05::run(&tier, replay.as_deref()),
        "C09" => c09::run(&tier, replay.as_deref()),
        _ => {
            eprintln!("schedmc: unknown property {prop}");
            2
        }
    };
    std::process::exit(code);
}
