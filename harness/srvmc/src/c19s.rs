//! C19, server-level slice: the REAL server binary with authentication and rate limiting on. The
//! per-tenant limit a request is held to is chosen in main()'s interceptor (the tenant's own
//! max_qps, or the server default max_qps_per_connection when the key entry says 0); a library
//! level check of RateLimiter cannot see that choice. Three tenants — explicit max_qps 5, and
//! max_qps 0 (= server default, configured as 5) — each send a burst of back-to-back Query calls;
//! with the interval measured on the caller's monotonic clock around the burst, the admitted count
//! must be <= burst + rate x interval (+1 for the boundary), and after an idle second a tenant
//! below its rate must be admitted again.
//!
//! Output: one line `C19S-RESULT <json>`.

use crate::realbin::*;
use kyrodb_engine::proto::kyro_db_service_client::KyroDbServiceClient;
use kyrodb_engine::proto::QueryRequest;
use serde_json::json;
use std::time::{Duration, Instant};
use vcore::findings::SigBag;

const KEYS: [(&str, &str, u32); 3] = [
    ("kyro_fixed_000000000000000000000000000000001", "fixed", 5),
    ("kyro_dflt_0000000000000000000000000000000001", "dflt", 0),
    ("kyro_dflt2_000000000000000000000000000000001", "dflt2", 0),
];
const DEFAULT_QPS: u32 = 5;
const GLOBAL_QPS: u32 = 1000;

fn keys_yaml() -> String {
    let mut s = String::from("api_keys:\n");
    for (k, t, qps) in KEYS {
        s += &format!("  - key: {k}\n    tenant_id: {t}\n    tenant_name: {t}\n    max_qps: {qps}\n    max_vectors: 100\n    enabled: true\n");
    }
    s
}

fn cfg_toml(data: &std::path::Path, keys: &std::path::Path) -> String {
    format!(
        "[environment]\ntype = \"production\"\n[server]\nhost = \"127.0.0.1\"\n[persistence]\ndata_dir = {:?}\nfsync_policy = \"data_only\"\nsnapshot_interval_mutations = 100\n[hnsw]\ndimension = 3\nmax_elements = 64\ndistance = \"euclidean\"\n[cache]\nenable_training_task = false\n[auth]\nenabled = true\napi_keys_file = {:?}\n[rate_limit]\nenabled = true\nmax_qps_per_connection = {DEFAULT_QPS}\nmax_qps_global = {GLOBAL_QPS}\n[logging]\nlevel = \"warn\"\n",
        data.to_string_lossy(),
        keys.to_string_lossy()
    )
}

pub fn run(_tier: &str) -> i32 {
    let scratch = vcore::Scratch::new("c19s");
    let data = scratch.path.join("data");
    std::fs::create_dir_all(&data).unwrap();
    let keys = scratch.path.join("keys.yaml");
    std::fs::write(&keys, keys_yaml()).unwrap();
    let cfgp = scratch.path.join("c.toml");
    std::fs::write(&cfgp, cfg_toml(&data, &keys)).unwrap();
    let srv = match launch(&cfgp, free_port(), free_port(), &[], &scratch.path) {
        Launch::Started(s) => s,
        Launch::Refused { code, log_tail } => {
            eprintln!("C19S: machinery error: the real server does not start (exit {code:?}): {log_tail}");
            return 2;
        }
        Launch::Hung { log_tail } => {
            eprintln!("C19S: machinery error: the real server hangs: {log_tail}");
            return 2;
        }
    };
    let rt = tokio::runtime::Builder::new_current_thread().enable_all().build().unwrap();
    let mut client = None;
    for attempt in 0..5u64 {
        match rt.block_on(async { KyroDbServiceClient::connect(format!("http://127.0.0.1:{}", srv.port)).await }) {
            Ok(c) => {
                client = Some(c);
                break;
            }
            Err(_) => std::thread::sleep(Duration::from_millis(100 * (attempt + 1))),
        }
    }
    let Some(mut c) = client else {
        eprintln!("C19S: machinery error: cannot connect");
        srv.kill();
        return 2;
    };
    let mut viol = SigBag::default();
    let mut bursts = Vec::new();
    let call = |c: &mut KyroDbServiceClient<tonic::transport::Channel>, key: &str| -> String {
        let mut r = tonic::Request::new(QueryRequest { doc_id: 1, include_embedding: false, namespace: String::new() });
        r.metadata_mut().insert("x-api-key", key.parse().unwrap());
        match rt.block_on(c.query(r)) {
            Ok(_) => "OK".into(),
            Err(s) => format!("{:?}", s.code()),
        }
    };
    for round in 0..2 {
        for (key, tenant, qps) in KEYS {
            let rate = if qps == 0 { DEFAULT_QPS } else { qps } as f64;
            let t0 = Instant::now();
            let mut admitted = 0u32;
            let mut refused = 0u32;
            let mut other = Vec::new();
            let mut first = String::new();
            for i in 0..40 {
                let o = call(&mut c, key);
                if i == 0 {
                    first = o.clone();
                }
                match o.as_str() {
                    "OK" => admitted += 1,
                    "ResourceExhausted" => refused += 1,
                    x => other.push(x.to_string()),
                }
            }
            let dt = t0.elapsed().as_secs_f64();
            let bound = (rate + rate * dt).floor() as u32 + 1;
            bursts.push(json!({"round": round, "tenant": tenant, "configured_max_qps": qps, "admitted": admitted, "refused": refused, "interval_s": dt, "bound": bound}));
            if !other.is_empty() {
                eprintln!("C19S: machinery error: unexpected status {:?}", other);
                srv.kill();
                return 2;
            }
            if admitted > bound {
                viol.push((
                    format!("C19|server|tenant-admitted-beyond-burst-plus-rate-times-interval|{}", if qps == 0 { "server-default-rate" } else { "explicit-rate" }),
                    json!({"engine":"srvmc","check":"C19S","tenant":tenant,"configured_max_qps":qps,"server_default_qps":DEFAULT_QPS,"global_qps":GLOBAL_QPS,"detail":format!("{admitted} of 40 back-to-back requests admitted in {dt:.4} s; burst + rate x interval + 1 = {bound}")}),
                ));
            }
            if first != "OK" {
                viol.push((
                    format!("C19|server|tenant-below-its-rate-refused|round{round}"),
                    json!({"engine":"srvmc","check":"C19S","tenant":tenant,"detail":format!("the first request of an idle tenant answered {first} (global budget {GLOBAL_QPS}/s has room)")}),
                ));
            }
        }
        // idle: every bucket refills
        std::thread::sleep(Duration::from_millis(1300));
    }
    srv.kill();
    release_ports();
    println!("C19S-RESULT {}", json!({"bursts": bursts, "violations": viol.to_json()}));
    0
}
