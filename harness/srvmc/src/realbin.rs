//! Real-binary slices: this executable re-executed with SRVMC_AS_SERVER=1 IS kyrodb_server (its
//! unmodified main(): clap arguments, config load + validate, the recover-or-start-fresh
//! decision, listeners, graceful shutdown). The harness launches it on loopback ports, talks to
//! it with the generated tonic client and judges what it serves.

use kyrodb_engine::proto::kyro_db_service_client::KyroDbServiceClient;
use kyrodb_engine::proto::{DeleteRequest, InsertRequest, QueryRequest, UpdateMetadataRequest};
use std::collections::BTreeMap;
use std::path::{Path, PathBuf};
use std::process::{Child, Command, Stdio};
use std::time::{Duration, Instant};

/// A loopback port nobody else is going to use. Ports come from 10000..32000 — below the kernel's
/// ephemeral range (32768+), where other software's bind(0) listeners and outgoing connections
/// live — and are claimed ACROSS processes through exclusive marker files in /dev/shm (two checks
/// running side by side both probe a port as free, both children try to bind it, and the loser's
/// parent would talk to the winner's server). A marker whose owner process is gone is reclaimed.
pub fn free_port() -> u16 {
    use std::io::Write;
    use std::sync::atomic::{AtomicU32, Ordering};
    static NEXT: AtomicU32 = AtomicU32::new(0);
    const LO: u32 = 10_000;
    const SPAN: u32 = 22_000;
    let dir = Path::new("/dev/shm/kyverif-ports");
    let _ = std::fs::create_dir_all(dir);
    let me = std::process::id();
    let base = (me.wrapping_mul(2_654_435_761)) % SPAN;
    for _ in 0..(2 * SPAN) {
        let n = NEXT.fetch_add(1, Ordering::Relaxed);
        let port = LO + (base + n) % SPAN;
        let marker = dir.join(port.to_string());
        match std::fs::OpenOptions::new().write(true).create_new(true).open(&marker) {
            Ok(mut f) => {
                let _ = write!(f, "{me}");
            }
            Err(_) => {
                // owned by a live process (possibly this one)? then skip; else reclaim
                let owner: Option<u32> = std::fs::read_to_string(&marker).ok().and_then(|s| s.trim().parse().ok());
                match owner {
                    Some(pid) if Path::new(&format!("/proc/{pid}")).exists() => continue,
                    _ => {
                        let _ = std::fs::remove_file(&marker);
                        continue;
                    }
                }
            }
        }
        if std::net::TcpListener::bind(("127.0.0.1", port as u16)).is_ok() {
            return port as u16;
        }
        // somebody outside this scheme holds it: keep the marker (nobody should try it again soon)
    }
    panic!("no free loopback port");
}

/// Remove this process's port markers (called by the slices when they are done; markers of a
/// process that died are reclaimed by `free_port`).
pub fn release_ports() {
    let me = std::process::id().to_string();
    if let Ok(rd) = std::fs::read_dir("/dev/shm/kyverif-ports") {
        for e in rd.flatten() {
            if std::fs::read_to_string(e.path()).map(|s| s.trim() == me).unwrap_or(false) {
                let _ = std::fs::remove_file(e.path());
            }
        }
    }
}

pub struct RealServer {
    pub child: Child,
    pub port: u16,
    pub log: PathBuf,
}

pub enum Launch {
    Started(RealServer),
    /// the process exited before its gRPC port accepted a connection
    Refused { code: Option<i32>, log_tail: String },
    /// neither listening nor exited within the horizon
    Hung { log_tail: String },
}

fn tail(p: &Path, n: usize) -> String {
    let s = std::fs::read_to_string(p).unwrap_or_default();
    // strip ANSI colour codes
    let mut out = String::new();
    let mut esc = false;
    for c in s.chars() {
        if esc {
            if c == 'm' {
                esc = false;
            }
        } else if c == '\u{1b}' {
            esc = true;
        } else {
            out.push(c);
        }
    }
    let lines: Vec<&str> = out.lines().collect();
    lines[lines.len().saturating_sub(n)..].join(" | ")
}

/// Launch the real server with `config` (a TOML/YAML file) and optional extra environment.
pub fn launch(config: &Path, port: u16, http_port: u16, envs: &[(String, String)], work: &Path) -> Launch {
    // A port probed as free can be taken by ANOTHER process (a parallel check, somebody's test
    // server) before the child binds it; the child then exits with "Address already in use",
    // which says nothing about the directory it was started on. Retry on fresh ports.
    let (mut port, mut http_port) = (port, http_port);
    for attempt in 0..6 {
        match launch_once(config, port, http_port, envs, work) {
            Launch::Refused { code, log_tail } if log_tail.contains("Address already in use") && attempt < 5 => {
                let _ = code;
                port = free_port();
                http_port = free_port();
            }
            other => return other,
        }
    }
    unreachable!()
}

fn launch_once(config: &Path, port: u16, http_port: u16, envs: &[(String, String)], work: &Path) -> Launch {
    let exe = vcore::par::self_exe();
    let log = work.join(format!("server-{port}.log"));
    let logf = std::fs::File::create(&log).expect("log");
    let mut cmd = Command::new(exe);
    cmd.env("SRVMC_AS_SERVER", "1")
        .env_remove("LD_PRELOAD")
        .env_remove("KSCHED_QUIET_PANICS")
        .env("KYRODB__SERVER__PORT", port.to_string())
        .env("KYRODB__SERVER__HTTP_PORT", http_port.to_string())
        .arg("--config")
        .arg(config)
        .current_dir(work)
        .stdin(Stdio::null())
        .stdout(Stdio::from(logf.try_clone().unwrap()))
        .stderr(Stdio::from(logf));
    for (k, v) in envs {
        cmd.env(k, v);
    }
    let mut child = vcore::par::spawn_retry(&mut cmd).expect("spawn server");
    let t0 = Instant::now();
    loop {
        if let Ok(Some(st)) = child.try_wait() {
            return Launch::Refused { code: st.code(), log_tail: tail(&log, 4) };
        }
        if std::net::TcpStream::connect_timeout(&format!("127.0.0.1:{port}").parse().unwrap(), Duration::from_millis(100)).is_ok() {
            // the listener must be OUR child: if the child has exited meanwhile, whoever accepted
            // the connection is somebody else
            std::thread::sleep(Duration::from_millis(30));
            if let Ok(Some(st)) = child.try_wait() {
                return Launch::Refused { code: st.code(), log_tail: tail(&log, 4) };
            }
            return Launch::Started(RealServer { child, port, log });
        }
        if t0.elapsed() > Duration::from_secs(30) {
            let _ = child.kill();
            let _ = child.wait();
            return Launch::Hung { log_tail: tail(&log, 4) };
        }
        std::thread::sleep(Duration::from_millis(20));
    }
}

impl RealServer {
    /// SIGTERM (graceful shutdown), SIGKILL after 15 s. Returns the exit code.
    pub fn stop(mut self) -> Option<i32> {
        unsafe {
            libc::kill(self.child.id() as i32, libc::SIGTERM);
        }
        let t0 = Instant::now();
        loop {
            if let Ok(Some(st)) = self.child.try_wait() {
                return st.code();
            }
            if t0.elapsed() > Duration::from_secs(15) {
                let _ = self.child.kill();
                let _ = self.child.wait();
                return None;
            }
            std::thread::sleep(Duration::from_millis(20));
        }
    }
    pub fn kill(mut self) {
        let _ = self.child.kill();
        let _ = self.child.wait();
    }
    pub fn log_tail(&self, n: usize) -> String {
        tail(&self.log, n)
    }
}

pub type Census = BTreeMap<u64, (Vec<u32>, BTreeMap<String, String>)>;

/// Census with reconnect + retry: a loaded machine can reset a fresh HTTP/2 connection; only a
/// server that stays unreachable over several attempts counts as not answering.
pub fn census_retry(port: u16, max_id: u64) -> Result<Census, String> {
    let mut last = String::new();
    for attempt in 0..5 {
        match Client::connect(port).and_then(|mut c| c.census(max_id)) {
            Ok(c) => return Ok(c),
            Err(e) => last = e,
        }
        std::thread::sleep(Duration::from_millis(100 * (attempt + 1)));
    }
    Err(last)
}

impl RealServer {
    /// Some(exit code) if the process has already exited.
    pub fn exited(&mut self) -> Option<Option<i32>> {
        self.child.try_wait().ok().flatten().map(|s| s.code())
    }
}

pub struct Client {
    pub rt: tokio::runtime::Runtime,
    pub c: KyroDbServiceClient<tonic::transport::Channel>,
}

impl Client {
    pub fn connect(port: u16) -> Result<Client, String> {
        let rt = tokio::runtime::Builder::new_current_thread().enable_all().build().unwrap();
        let c = rt.block_on(async { KyroDbServiceClient::connect(format!("http://127.0.0.1:{port}")).await }).map_err(|e| format!("{e}"))?;
        Ok(Client { rt, c })
    }
    pub fn insert(&mut self, id: u64, v: &[f32], m: &[(&str, &str)]) -> Result<bool, String> {
        let req = InsertRequest { doc_id: id, embedding: v.to_vec(), metadata: m.iter().map(|(a, b)| (a.to_string(), b.to_string())).collect(), namespace: String::new() };
        self.rt.block_on(self.c.insert(req)).map(|r| r.get_ref().success).map_err(|s| format!("{:?}: {}", s.code(), s.message()))
    }
    pub fn delete(&mut self, id: u64) -> Result<bool, String> {
        self.rt.block_on(self.c.delete(DeleteRequest { doc_id: id, namespace: String::new() })).map(|r| r.get_ref().success).map_err(|s| format!("{:?}: {}", s.code(), s.message()))
    }
    pub fn update_metadata(&mut self, id: u64, m: &[(&str, &str)], merge: bool) -> Result<bool, String> {
        let req = UpdateMetadataRequest { doc_id: id, metadata: m.iter().map(|(a, b)| (a.to_string(), b.to_string())).collect(), merge, namespace: String::new() };
        self.rt.block_on(self.c.update_metadata(req)).map(|r| r.get_ref().success).map_err(|s| format!("{:?}: {}", s.code(), s.message()))
    }
    /// what the server serves for ids 1..=max_id
    pub fn census(&mut self, max_id: u64) -> Result<Census, String> {
        let mut out = Census::new();
        for id in 1..=max_id {
            let r = self.rt.block_on(self.c.query(QueryRequest { doc_id: id, include_embedding: true, namespace: String::new() })).map_err(|s| format!("query {id}: {:?}: {}", s.code(), s.message()))?;
            let r = r.into_inner();
            if r.found {
                out.insert(id, (r.embedding.iter().map(|x| x.to_bits()).collect(), r.metadata.into_iter().collect()));
            }
        }
        Ok(out)
    }
}

/// Run another slice of this executable (`<exe> <slice> <tier>`) and parse its `<slice>-RESULT` line.
pub fn run_slice(slice: &str, tier: &str) -> Result<serde_json::Value, String> {
    let exe = vcore::par::self_exe();
    let out = vcore::par::output_retry(Command::new(exe).arg(slice).arg(tier)).map_err(|e| format!("{e}"))?;
    let stdout = String::from_utf8_lossy(&out.stdout);
    let prefix = format!("{slice}-RESULT ");
    let line = stdout.lines().find_map(|l| l.strip_prefix(prefix.as_str())).ok_or_else(|| format!("no result line; exit {:?}; stderr: {}", out.status.code(), String::from_utf8_lossy(&out.stderr)))?;
    serde_json::from_str(line).map_err(|e| format!("bad result: {e}"))
}

/// The violations of a slice result whose signature starts with `prefix`, as a bag JSON array.
pub fn violations_with_prefix(v: &serde_json::Value, prefix: &str) -> serde_json::Value {
    serde_json::Value::Array(v["violations"].as_array().cloned().unwrap_or_default().into_iter().filter(|x| x["sig"].as_str().map(|s| s.starts_with(prefix)).unwrap_or(false)).collect())
}
