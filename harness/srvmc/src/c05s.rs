//! C05, server-level slice: the gRPC read handlers (Query with embedding, BulkQuery) are the
//! reads clients actually issue. One reader x one writer program on the real in-process handlers,
//! every schedule with <= 2 preemptions under ksched; the vector and the metadata returned
//! together by one response must belong to the same write (every write stores the vector
//! [w, 1] together with metadata {"w": w}).
//!
//! Output: one line `C05S-RESULT <json>`.

use crate::explore::{explore, ExploreCfg};
use crate::server::verif_driver::*;
use parking_lot::sched::{Body, Outcome};
use serde_json::{json, Value};
use std::collections::BTreeSet;
use std::sync::{Arc, Mutex};
use vcore::findings::SigBag;

fn cfg(auth: bool) -> DriverCfg {
    DriverCfg { dim: 2, metric: "euclidean".into(), auth, data_dir: None, hnsw_capacity: 64, snapshot_interval: 0, tenants: vec![("tenant_r".into(), 3, 100)] }
}

fn w_item(id: u64, w: u32) -> Item {
    Item { id, v: vec![w as f32, 1.0], m: vec![("w".into(), w.to_string())], ns: "".into() }
}

fn ins(id: u64, w: u32) -> Rpc {
    Rpc::Insert { t: 0, item: w_item(id, w) }
}

/// (w of the vector, w of the metadata) for every found document in a Query / BulkQuery answer
fn pairs(v: &Value, out: &mut Vec<(Option<u32>, Option<u32>)>) {
    match v {
        Value::Object(o) => {
            if o.get("found").and_then(|x| x.as_bool()) == Some(true) {
                let vw = o.get("embedding").and_then(|e| e.as_array()).and_then(|a| a.first()).and_then(|x| x.as_f64()).map(|x| x as u32);
                let mw = o.get("metadata").and_then(|m| m.as_array()).and_then(|a| a.iter().find(|kv| kv[0] == "w")).and_then(|kv| kv[1].as_str()).and_then(|s| s.parse().ok());
                out.push((vw, mw));
            }
            for x in o.values() {
                pairs(x, out);
            }
        }
        Value::Array(a) => a.iter().for_each(|x| pairs(x, out)),
        _ => {}
    }
}

pub fn run(tier: &str) -> i32 {
    if let Some((wi, wn)) = vcore::par::worker_id() {
        worker(wi, wn, tier);
        return 0;
    }
    let res = vcore::par::run_workers(vcore::par::jobs().min(8), &[]);
    let mut viol = SigBag::default();
    let (mut programs, mut execs, mut reads, mut incomplete) = (0u64, 0u64, 0u64, 0u64);
    let mut outcomes: BTreeSet<String> = BTreeSet::new();
    for r in &res {
        programs += r["programs"].as_u64().unwrap_or(0);
        execs += r["executions"].as_u64().unwrap_or(0);
        reads += r["reads"].as_u64().unwrap_or(0);
        incomplete += r["incomplete"].as_u64().unwrap_or(0);
        for o in r["outcomes"].as_array().unwrap() {
            outcomes.insert(o.as_str().unwrap().to_string());
        }
        viol.merge_json(&r["violations"]);
    }
    println!("C05S-RESULT {}", json!({"programs":programs,"executions":execs,"reads_judged":reads,"executions_not_completed":incomplete,"distinct_read_outcomes":outcomes.len(),"violations":viol.to_json()}));
    0
}

fn worker(wi: usize, wn: usize, tier: &str) {
    let bound = if tier == "thorough" { 3 } else { 2 };
    let readers: Vec<(&str, Rpc)> = vec![
        ("Query", Rpc::Query { t: 0, id: 1, emb: true, ns: "".into() }),
        ("BulkQuery", Rpc::BulkQuery { t: 0, ids: vec![1, 2], emb: true, ns: "".into() }),
    ];
    let writers: Vec<Vec<Rpc>> = vec![
        vec![ins(1, 11)],
        vec![ins(1, 11), ins(1, 12)],
        vec![Rpc::Delete { t: 0, id: 1, ns: "".into() }, ins(1, 11)],
        vec![Rpc::UpdateMetadata { t: 0, id: 1, m: vec![("u".into(), "1".into())], merge: true, ns: "".into() }, ins(1, 11)],
    ];
    // initial states: just written (recent-write tier), drained, drained + cached by a point read,
    // and id 1 not written yet (the handlers' "arrived while I was looking" arms); with and
    // without authentication (without a tenant the handlers skip the tenant / namespace gate that
    // otherwise answers not-found from the first snapshot)
    let inits = ["hot", "cold", "cached", "absent"];
    let mut viol = SigBag::default();
    let (mut programs, mut execs, mut reads, mut incomplete) = (0u64, 0u64, 0u64, 0u64);
    let mut outcomes: BTreeSet<String> = BTreeSet::new();
    let rt = tokio::runtime::Builder::new_current_thread().enable_all().build().unwrap();
    let mut idx = 0usize;
    for (rname, reader) in &readers {
        for writer in &writers {
            for (init, auth) in inits.iter().flat_map(|i| [(*i, true), (*i, false)]) {
                idx += 1;
                if idx % wn != wi {
                    continue;
                }
                programs += 1;
                let ecfg = ExploreCfg { bound, max_execs: 40_000, ..Default::default() };
                let out = explore(
                    &ecfg,
                    || {
                        let srv = Arc::new(build(&cfg(auth)));
                        if init != "absent" {
                            let _ = rt.block_on(call(&srv, &ins(1, 101)));
                        }
                        let _ = rt.block_on(call(&srv, &ins(2, 102)));
                        if init != "hot" {
                            let _ = rt.block_on(call(&srv, &Rpc::Flush { t: 0 }));
                        }
                        if init == "cached" {
                            let _ = rt.block_on(call(&srv, &Rpc::Query { t: 0, id: 1, emb: true, ns: "".into() }));
                        }
                        let answers: Arc<Mutex<Vec<Value>>> = Arc::new(Mutex::new(Vec::new()));
                        let mut bodies: Vec<Body> = Vec::new();
                        {
                            let srv = srv.clone();
                            let reader = reader.clone();
                            let answers = answers.clone();
                            bodies.push(Box::new(move || {
                                if let Some(v) = call_now(&srv, &reader) {
                                    answers.lock().unwrap().push(v);
                                }
                            }));
                        }
                        {
                            let srv = srv.clone();
                            let writer = writer.clone();
                            bodies.push(Box::new(move || {
                                for w in &writer {
                                    let _ = call_now(&srv, w);
                                }
                            }));
                        }
                        (bodies, answers)
                    },
                    |res, answers, choices| {
                        if res.outcome != Outcome::Completed {
                            incomplete += 1;
                            return true;
                        }
                        for a in answers.lock().unwrap().iter() {
                            let mut ps = Vec::new();
                            pairs(a, &mut ps);
                            for (vw, mw) in ps {
                                reads += 1;
                                outcomes.insert(format!("{rname}:{vw:?}/{mw:?}"));
                                if vw != mw {
                                    viol.push((
                                        format!("C05|server|{rname}|vector-and-metadata-from-different-writes"),
                                        json!({"engine":"srvmc","check":"C05S","reader":rname,"writer":writer,"init":init,"auth":auth,"schedule":choices,"preemptions":res.preemptions,
                                               "detail":format!("{rname} answered with the vector of write w={vw:?} and the metadata of write w={mw:?}: {a}")}),
                                    ));
                                    return false;
                                }
                            }
                        }
                        true
                    },
                );
                execs += out.executions;
            }
        }
    }
    vcore::par::worker_emit(&json!({"programs":programs,"executions":execs,"reads":reads,"incomplete":incomplete,"outcomes":outcomes.iter().collect::<Vec<_>>(),"violations":viol.to_json()}));
}
