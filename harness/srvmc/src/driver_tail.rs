pub mod verif_driver {
    #![allow(dead_code)]
    //! Verification driver appended to kyrodb_server.rs by build.rs. As a child module it sees
    //! the server's private items: it builds `ServerState` / `KyroDBServiceImpl` the way the
    //! file's own unit tests do and calls the real RPC handlers with a `TenantContext`.
    use super::*;
    use serde_json::{json, Value};

    pub fn real_main() -> anyhow::Result<()> {
        super::main()
    }

    #[derive(Clone, Debug, serde::Serialize, serde::Deserialize)]
    pub struct DriverCfg {
        pub dim: usize,
        pub metric: String,
        pub auth: bool,
        pub data_dir: Option<String>,
        pub hnsw_capacity: usize,
        pub snapshot_interval: usize,
        pub tenants: Vec<(String, u32, usize)>, // (tenant id, index, max_vectors)
    }

    pub struct Srv {
        pub svc: Arc<KyroDBServiceImpl>,
        pub cfg: DriverCfg,
    }

    /// A trailing '!' on the metric name ("cosine!") = hnsw.disable_normalization_check = true.
    fn metric_of(s: &str) -> kyrodb_engine::config::DistanceMetric {
        match s.trim_end_matches('!') {
            "cosine" => kyrodb_engine::config::DistanceMetric::Cosine,
            "inner_product" => kyrodb_engine::config::DistanceMetric::InnerProduct,
            _ => kyrodb_engine::config::DistanceMetric::Euclidean,
        }
    }

    pub fn engine_config(cfg: &DriverCfg) -> TieredEngineConfig {
        TieredEngineConfig {
            embedding_dimension: cfg.dim,
            hnsw_distance: metric_of(&cfg.metric),
            hnsw_max_elements: cfg.hnsw_capacity,
            hot_tier_max_size: 4,
            hot_tier_hard_limit: 8,
            data_dir: cfg.data_dir.clone(),
            snapshot_interval: cfg.snapshot_interval,
            max_wal_size_bytes: 1 << 20,
            hnsw_disable_normalization_check: cfg.metric.ends_with('!'),
            ..TieredEngineConfig::default()
        }
    }

    fn make_state(cfg: &DriverCfg, engine: TieredEngine) -> Srv {
        let engine_config = engine_config(cfg);
        let mut app_config = kyrodb_engine::config::KyroDbConfig::default();
        app_config.auth.enabled = cfg.auth;
        app_config.rate_limit.enabled = false;
        app_config.hnsw.dimension = cfg.dim;
        app_config.hnsw.distance = metric_of(&cfg.metric);
        app_config.hnsw.disable_normalization_check = cfg.metric.ends_with('!');
        let counts: HashMap<String, usize> = cfg.tenants.iter().map(|t| (t.0.clone(), 0usize)).collect();
        let state = Arc::new(ServerState {
            engine: Arc::new(engine),
            start_time: Instant::now(),
            app_config,
            engine_config,
            metrics: MetricsCollector::new(),
            auth: None,
            rate_limiter: Some(RateLimiter::new()),
            tenant_id_mapper: None,
            tenant_vector_counts: if cfg.auth { Some(parking_lot::RwLock::new(counts)) } else { None },
            tenant_quota_locks: if cfg.auth { Some(parking_lot::RwLock::new(HashMap::new())) } else { None },
            usage_tracker: if cfg.auth { Some(Arc::new(UsageTracker::new())) } else { None },
        });
        Srv { svc: Arc::new(KyroDBServiceImpl { state }), cfg: cfg.clone() }
    }

    pub fn build(cfg: &DriverCfg) -> Srv {
        let engine = TieredEngine::new(
            Box::new(LruCacheStrategy::new(8)),
            Arc::new(kyrodb_engine::QueryHashCache::new(8, 0.90)),
            Vec::new(),
            Vec::new(),
            engine_config(cfg),
        )
        .expect("engine");
        make_state(cfg, engine)
    }

    /// Restart: recover the engine from the data directory and recount tenant vectors the way
    /// main() does at start-up (count documents carrying the tenant index).
    pub fn restart(old: Srv) -> Result<Srv, String> {
        let cfg = old.cfg.clone();
        drop(old);
        let dir = cfg.data_dir.clone().ok_or("no data dir")?;
        let engine = TieredEngine::recover(
            Box::new(LruCacheStrategy::new(8)),
            Arc::new(kyrodb_engine::QueryHashCache::new(8, 0.90)),
            &dir,
            engine_config(&cfg),
        )
        .map_err(|e| format!("{e:#}"))?;
        let srv = make_state(&cfg, engine);
        if let Some(counts) = &srv.svc.state.tenant_vector_counts {
            let mut g = counts.write();
            for (tid, idx, _) in &cfg.tenants {
                // transcription of main()'s start-up recount: cold ids_for_metadata_filter(Exact
                // __tenant_idx__) + hot-tier scan
                let tenant_idx_str = idx.to_string();
                let cold_filter = kyrodb::MetadataFilter {
                    filter_type: Some(kyrodb::metadata_filter::FilterType::Exact(kyrodb::ExactMatch { key: "__tenant_idx__".to_string(), value: tenant_idx_str.clone() })),
                };
                let engine = &srv.svc.state.engine;
                let cold_count = engine.cold_tier().ids_for_metadata_filter(&cold_filter).len();
                let hot_count = engine.hot_tier().scan(|meta| meta.get("__tenant_idx__") == Some(&tenant_idx_str)).len();
                g.insert(tid.clone(), cold_count.saturating_add(hot_count));
            }
        }
        Ok(srv)
    }

    fn tenant_ctx(cfg: &DriverCfg, t: usize) -> TenantContext {
        let (id, idx, maxv) = cfg.tenants[t].clone();
        TenantContext { tenant_id: id, tenant_index: idx, max_qps: 1_000_000, max_vectors: maxv }
    }

    #[derive(Clone, Debug, PartialEq, serde::Serialize, serde::Deserialize)]
    pub struct Item {
        pub id: u64,
        pub v: Vec<f32>,
        pub m: Vec<(String, String)>,
        pub ns: String,
    }

    /// Filter forms used by the alphabets.
    #[derive(Clone, Debug, PartialEq, serde::Serialize, serde::Deserialize)]
    pub enum Flt {
        None,
        Exact(String, String),
        Not(Box<Flt>),
        Or(Vec<Flt>),
        And(Vec<Flt>),
        In(String, Vec<String>),
        DeepNot(usize),
        RangeGte(String, String),
        /// MetadataFilter { filter_type: None }
        Hole,
        /// RangeMatch without a bound
        RangeNoBound(String),
    }

    pub fn flt_to_proto(f: &Flt) -> Option<MetadataFilter> {
        use kyrodb::metadata_filter::FilterType;
        let ft = match f {
            Flt::None => return None,
            Flt::Hole => return Some(MetadataFilter { filter_type: None }),
            Flt::RangeNoBound(k) => FilterType::Range(RangeMatch { key: k.clone(), bound: None }),
            Flt::Exact(k, v) => FilterType::Exact(ExactMatch { key: k.clone(), value: v.clone() }),
            Flt::Not(g) => FilterType::NotFilter(Box::new(NotFilter { filter: flt_to_proto(g).map(Box::new) })),
            Flt::Or(fs) => FilterType::OrFilter(OrFilter { filters: fs.iter().filter_map(flt_to_proto).collect() }),
            Flt::And(fs) => FilterType::AndFilter(AndFilter { filters: fs.iter().filter_map(flt_to_proto).collect() }),
            Flt::In(k, vs) => FilterType::InMatch(InMatch { key: k.clone(), values: vs.clone() }),
            Flt::RangeGte(k, v) => FilterType::Range(RangeMatch { key: k.clone(), bound: Some(kyrodb::range_match::Bound::Gte(v.clone())) }),
            Flt::DeepNot(n) => {
                let mut cur = MetadataFilter { filter_type: Some(FilterType::Exact(ExactMatch { key: "a".into(), value: "1".into() })) };
                for _ in 0..*n {
                    cur = MetadataFilter { filter_type: Some(FilterType::NotFilter(Box::new(NotFilter { filter: Some(Box::new(cur)) }))) };
                }
                return Some(cur);
            }
        };
        Some(MetadataFilter { filter_type: Some(ft) })
    }

    #[derive(Clone, Debug, PartialEq, serde::Serialize, serde::Deserialize)]
    pub enum Rpc {
        Insert { t: usize, item: Item },
        BulkInsert { t: usize, items: Vec<Item> },
        BulkLoad { t: usize, items: Vec<Item> },
        Query { t: usize, id: u64, emb: bool, ns: String },
        BulkQuery { t: usize, ids: Vec<u64>, emb: bool, ns: String },
        Search { t: usize, q: Vec<f32>, k: u32, ns: String, flt: Flt, legacy: Vec<(String, String)>, emb: bool, ef: u32 },
        BulkSearch { t: usize, qs: Vec<(Vec<f32>, u32)>, ns: String, flt: Flt },
        /// BulkSearch stream whose items carry their own filters
        BulkSearchMixed { t: usize, items: Vec<(Vec<f32>, u32, Flt)> },
        UpdateMetadata { t: usize, id: u64, m: Vec<(String, String)>, merge: bool, ns: String },
        Delete { t: usize, id: u64, ns: String },
        BatchDeleteIds { t: usize, ids: Vec<u64>, ns: String },
        BatchDeleteFilter { t: usize, flt: Flt, ns: String },
        Flush { t: usize },
        /// request without tenant context (auth enabled => must be refused)
        NoTenantQuery { id: u64 },
        Restart,
    }

    impl Rpc {
        pub fn tenant(&self) -> Option<usize> {
            match self {
                Rpc::Insert { t, .. } | Rpc::BulkInsert { t, .. } | Rpc::BulkLoad { t, .. } | Rpc::Query { t, .. } | Rpc::BulkQuery { t, .. }
                | Rpc::Search { t, .. } | Rpc::BulkSearch { t, .. } | Rpc::BulkSearchMixed { t, .. } | Rpc::UpdateMetadata { t, .. } | Rpc::Delete { t, .. }
                | Rpc::BatchDeleteIds { t, .. } | Rpc::BatchDeleteFilter { t, .. } | Rpc::Flush { t } => Some(*t),
                _ => None,
            }
        }
        pub fn short(&self) -> String {
            let s = format!("{self:?}");
            if s.len() > 160 { format!("{}…", &s[..160]) } else { s }
        }
    }

    fn ins_req(it: &Item) -> InsertRequest {
        InsertRequest { doc_id: it.id, embedding: it.v.clone(), metadata: it.m.iter().cloned().collect(), namespace: it.ns.clone() }
    }

    fn with_tenant<T>(srv: &Srv, t: usize, msg: T) -> Request<T> {
        let mut r = Request::new(msg);
        if srv.cfg.auth {
            r.extensions_mut().insert(tenant_ctx(&srv.cfg, t));
        }
        r
    }

    fn streaming<T: prost::Message + Default + Send + 'static>(items: Vec<T>) -> tonic::Streaming<T> {
        use tonic::codec::Codec;
        let mut buf: Vec<u8> = Vec::new();
        for it in items {
            let p = it.encode_to_vec();
            buf.push(0u8);
            buf.extend_from_slice(&(p.len() as u32).to_be_bytes());
            buf.extend_from_slice(&p);
        }
        let body = tonic::transport::Body::from(buf);
        let mut codec = tonic::codec::ProstCodec::<T, T>::default();
        tonic::Streaming::new_request(codec.decoder(), body, None, None)
    }

    fn status_json(s: &Status) -> Value {
        json!({"status": format!("{:?}", s.code())})
    }

    fn meta_json(m: &HashMap<String, String>) -> Value {
        let mut v: Vec<(&String, &String)> = m.iter().collect();
        v.sort();
        json!(v)
    }

    fn query_json(r: &QueryResponse) -> Value {
        json!({"found": r.found, "doc_id": r.doc_id, "embedding": r.embedding, "metadata": meta_json(&r.metadata), "error": !r.error.is_empty()})
    }

    fn search_json(r: &SearchResponse) -> Value {
        json!({
            "results": r.results.iter().map(|x| json!({"doc_id": x.doc_id, "score": (x.score * 1e4).round() / 1e4, "embedding": x.embedding, "metadata": meta_json(&x.metadata)})).collect::<Vec<_>>(),
            "total_found": r.total_found,
            "error": !r.error.is_empty(),
        })
    }

    /// Call one RPC on the real handler and normalise the response.
    pub async fn call(srv: &Srv, rpc: &Rpc) -> Value {
        let svc = &srv.svc;
        match rpc {
            Rpc::Insert { t, item } => match svc.insert(with_tenant(srv, *t, ins_req(item))).await {
                Ok(r) => json!({"ok": r.get_ref().success, "inserted": r.get_ref().total_inserted}),
                Err(s) => status_json(&s),
            },
            Rpc::BulkInsert { t, items } => match svc.bulk_insert(with_tenant(srv, *t, streaming(items.iter().map(ins_req).collect()))).await {
                Ok(r) => json!({"ok": r.get_ref().success, "inserted": r.get_ref().total_inserted, "failed": r.get_ref().total_failed}),
                Err(s) => status_json(&s),
            },
            Rpc::BulkLoad { t, items } => match svc.bulk_load_hnsw(with_tenant(srv, *t, streaming(items.iter().map(ins_req).collect()))).await {
                Ok(r) => json!({"ok": r.get_ref().success, "loaded": r.get_ref().total_loaded, "failed": r.get_ref().total_failed}),
                Err(s) => status_json(&s),
            },
            Rpc::Query { t, id, emb, ns } => match svc.query(with_tenant(srv, *t, QueryRequest { doc_id: *id, include_embedding: *emb, namespace: ns.clone() })).await {
                Ok(r) => query_json(r.get_ref()),
                Err(s) => status_json(&s),
            },
            Rpc::NoTenantQuery { id } => match svc.query(Request::new(QueryRequest { doc_id: *id, include_embedding: true, namespace: String::new() })).await {
                Ok(r) => query_json(r.get_ref()),
                Err(s) => status_json(&s),
            },
            Rpc::BulkQuery { t, ids, emb, ns } => match svc.bulk_query(with_tenant(srv, *t, BulkQueryRequest { doc_ids: ids.clone(), include_embeddings: *emb, namespace: ns.clone() })).await {
                Ok(r) => json!({"results": r.get_ref().results.iter().map(query_json).collect::<Vec<_>>(), "total_found": r.get_ref().total_found, "total_requested": r.get_ref().total_requested}),
                Err(s) => status_json(&s),
            },
            Rpc::Search { t, q, k, ns, flt, legacy, emb, ef } => {
                #[allow(deprecated)]
                let req = SearchRequest { query_embedding: q.clone(), k: *k, min_score: 0.0, namespace: ns.clone(), include_embeddings: *emb, ef_search: *ef, filter: flt_to_proto(flt), metadata_filters: legacy.iter().cloned().collect() };
                match svc.search(with_tenant(srv, *t, req)).await {
                    Ok(r) => search_json(r.get_ref()),
                    Err(s) => status_json(&s),
                }
            }
            Rpc::BulkSearch { t, qs, ns, flt } => {
                #[allow(deprecated)]
                let reqs: Vec<SearchRequest> = qs.iter().map(|(q, k)| SearchRequest { query_embedding: q.clone(), k: *k, min_score: 0.0, namespace: ns.clone(), include_embeddings: false, ef_search: 0, filter: flt_to_proto(flt), metadata_filters: Default::default() }).collect();
                match svc.bulk_search(with_tenant(srv, *t, streaming(reqs))).await {
                    Ok(r) => {
                        use tokio_stream::StreamExt;
                        let mut st = r.into_inner();
                        let mut out = Vec::new();
                        loop {
                            match tokio::time::timeout(Duration::from_secs(20), st.next()).await {
                                Ok(Some(Ok(x))) => out.push(search_json(&x)),
                                Ok(Some(Err(s))) => out.push(status_json(&s)),
                                Ok(None) => break,
                                Err(_) => {
                                    out.push(json!({"status": "HANG"}));
                                    break;
                                }
                            }
                        }
                        json!({"stream": out})
                    }
                    Err(s) => status_json(&s),
                }
            }
            Rpc::BulkSearchMixed { t, items } => {
                #[allow(deprecated)]
                let reqs: Vec<SearchRequest> = items.iter().map(|(q, k, f)| SearchRequest { query_embedding: q.clone(), k: *k, min_score: 0.0, namespace: String::new(), include_embeddings: false, ef_search: 0, filter: flt_to_proto(f), metadata_filters: Default::default() }).collect();
                match svc.bulk_search(with_tenant(srv, *t, streaming(reqs))).await {
                    Ok(r) => {
                        use tokio_stream::StreamExt;
                        let mut st = r.into_inner();
                        let mut out = Vec::new();
                        loop {
                            match tokio::time::timeout(Duration::from_secs(20), st.next()).await {
                                Ok(Some(Ok(x))) => out.push(search_json(&x)),
                                Ok(Some(Err(s))) => out.push(status_json(&s)),
                                Ok(None) => break,
                                Err(_) => {
                                    out.push(json!({"status": "HANG"}));
                                    break;
                                }
                            }
                        }
                        json!({"stream": out})
                    }
                    Err(s) => status_json(&s),
                }
            }
            Rpc::UpdateMetadata { t, id, m, merge, ns } => match svc.update_metadata(with_tenant(srv, *t, UpdateMetadataRequest { doc_id: *id, metadata: m.iter().cloned().collect(), merge: *merge, namespace: ns.clone() })).await {
                Ok(r) => json!({"ok": r.get_ref().success, "existed": r.get_ref().existed}),
                Err(s) => status_json(&s),
            },
            Rpc::Delete { t, id, ns } => match svc.delete(with_tenant(srv, *t, DeleteRequest { doc_id: *id, namespace: ns.clone() })).await {
                Ok(r) => json!({"ok": r.get_ref().success, "existed": r.get_ref().existed}),
                Err(s) => status_json(&s),
            },
            Rpc::BatchDeleteIds { t, ids, ns } => match svc.batch_delete(with_tenant(srv, *t, BatchDeleteRequest { delete_criteria: Some(kyrodb::batch_delete_request::DeleteCriteria::Ids(IdList { doc_ids: ids.clone() })), namespace: ns.clone() })).await {
                Ok(r) => json!({"ok": r.get_ref().success, "deleted": r.get_ref().deleted_count}),
                Err(s) => status_json(&s),
            },
            Rpc::BatchDeleteFilter { t, flt, ns } => {
                let crit = flt_to_proto(flt).map(kyrodb::batch_delete_request::DeleteCriteria::Filter);
                match svc.batch_delete(with_tenant(srv, *t, BatchDeleteRequest { delete_criteria: crit, namespace: ns.clone() })).await {
                    Ok(r) => json!({"ok": r.get_ref().success, "deleted": r.get_ref().deleted_count}),
                    Err(s) => status_json(&s),
                }
            }
            Rpc::Flush { t } => match svc.flush_hot_tier(with_tenant(srv, *t, FlushRequest { force: true })).await {
                Ok(r) => json!({"ok": r.get_ref().success}),
                Err(s) => status_json(&s),
            },
            Rpc::Restart => json!({"restart": true}),
        }
    }

    /// Run a unary handler to completion on the calling thread without a runtime (the unary
    /// handlers used under the scheduler contain no suspending await). None = it suspended.
    pub fn call_now(srv: &Srv, rpc: &Rpc) -> Option<Value> {
        call(srv, rpc).now_or_never()
    }

    /// Quota counter the server keeps for a tenant.
    pub fn quota_count(srv: &Srv, t: usize) -> Option<usize> {
        let tid = &srv.cfg.tenants[t].0;
        srv.svc.state.tenant_vector_counts.as_ref().and_then(|c| c.read().get(tid).copied())
    }

    /// Ground truth: live canonical documents carrying the tenant's index.
    pub fn live_docs_for_tenant(srv: &Srv, tenant_index: u32) -> usize {
        let want = tenant_index.to_string();
        srv.svc.state.engine.cold_tier().scan(|m| m.get("__tenant_idx__").map(|x| x == &want).unwrap_or(false)).len()
    }

    /// Canonical census: global doc id -> (vector bits, metadata incl. reserved keys)
    pub fn census(srv: &Srv) -> std::collections::BTreeMap<u64, (Vec<u32>, Vec<(String, String)>)> {
        let cold = srv.svc.state.engine.cold_tier();
        let mut ids = cold.scan(|_| true);
        ids.sort_unstable();
        let mut out = std::collections::BTreeMap::new();
        for id in ids {
            let v = cold.fetch_document(id).unwrap_or_default();
            let mut m: Vec<(String, String)> = cold.fetch_metadata(id).unwrap_or_default().into_iter().collect();
            m.sort();
            out.insert(id, (v.iter().map(|x| x.to_bits()).collect(), m));
        }
        out
    }

    /// /usage endpoint in-process: returns (http status, body json) for a requester.
    pub async fn usage(srv: &Srv, requester: Option<(String, bool)>, scope: Option<String>) -> (u16, Value) {
        let resp = usage_handler(
            AxumState(srv.svc.state.clone()),
            Query(UsageQuery { scope }),
            requester.map(|(tenant_id, is_admin)| Extension(ObservabilityAuthContext { tenant_id, is_admin })),
        )
        .await;
        let status = resp.status().as_u16();
        let bytes = axum::body::to_bytes(resp.into_body(), 1 << 20).await.unwrap_or_default();
        (status, serde_json::from_slice(&bytes).unwrap_or(Value::Null))
    }

    /// Raw bytes through the full tower stack (panic containment layer + generated server).
    pub async fn raw_grpc(srv: &Srv, path: &str, t: Option<usize>, framed_body: Vec<u8>) -> (Option<String>, bool) {
        use tower::ServiceExt;
        let svc_impl = KyroDBServiceImpl { state: srv.svc.state.clone() };
        let server = KyroDbServiceServer::new(svc_impl);
        let mut stacked = GrpcPanicContainmentLayer.layer(server);
        let mut req = hyper014_request(path, framed_body);
        if let Some(t) = t {
            if srv.cfg.auth {
                req.extensions_mut().insert(tenant_ctx(&srv.cfg, t));
            }
        }
        let fut = async {
            type Req = tonic::codegen::http::Request<tonic::transport::Body>;
            let ready = ServiceExt::<Req>::ready(&mut stacked).await;
            match ready {
                Ok(s) => Service::<Req>::call(s, req).await.ok(),
                Err(_) => None,
            }
        };
        match tokio::time::timeout(Duration::from_secs(20), fut).await {
            Err(_) => (None, true),
            Ok(None) => (None, false),
            Ok(Some(resp)) => {
                let hdr = resp.headers().get("grpc-status").and_then(|v| v.to_str().ok()).map(|s| s.to_string());
                if hdr.is_some() {
                    return (hdr, false);
                }
                // status is in the trailers: drain the body
                use tonic::codegen::Body as _;
                let mut body = resp.into_body();
                let mut status = None;
                let drained = tokio::time::timeout(Duration::from_secs(20), async {
                    let mut body = std::pin::Pin::new(&mut body);
                    while let Some(_chunk) = body.data().await {}
                    if let Ok(Some(tr)) = body.trailers().await {
                        status = tr.get("grpc-status").and_then(|v| v.to_str().ok()).map(|s| s.to_string());
                    }
                })
                .await;
                (status, drained.is_err())
            }
        }
    }

    fn hyper014_request(path: &str, framed_body: Vec<u8>) -> tonic::codegen::http::Request<tonic::transport::Body> {
        tonic::codegen::http::Request::builder()
            .method("POST")
            .uri(format!("http://localhost{path}"))
            .header("content-type", "application/grpc")
            .header("te", "trailers")
            .body(tonic::transport::Body::from(framed_body))
            .unwrap()
    }

    pub fn frame<T: prost::Message>(msgs: &[T]) -> Vec<u8> {
        let mut buf = Vec::new();
        for m in msgs {
            let p = m.encode_to_vec();
            buf.push(0u8);
            buf.extend_from_slice(&(p.len() as u32).to_be_bytes());
            buf.extend_from_slice(&p);
        }
        buf
    }

    /// Tenant index mapping as main() drives it at start-up: load_or_create(path, enabled
    /// tenants) followed by ensure_tenant for every enabled tenant. Returns the mapping after
    /// each start in `starts` (each start = the list of tenant ids of the enabled API keys; a
    /// tenant with two keys appears twice), or an error string.
    pub fn tenant_map_history(dir: &std::path::Path, starts: &[Vec<String>]) -> Result<Vec<std::collections::BTreeMap<String, u32>>, String> {
        let path = dir.join("tenants.json");
        let mut out = Vec::new();
        for keys in starts {
            let tenants: Vec<TenantInfo> = keys
                .iter()
                .map(|t| {
                    serde_json::from_value(serde_json::json!({"tenant_id": t, "tenant_name": t, "max_qps": 10, "max_vectors": 10, "enabled": true}))
                        .map_err(|e| format!("tenant info: {e}"))
                })
                .collect::<Result<_, _>>()?;
            let mapper = TenantIdMapper::load_or_create(path.clone(), &tenants).map_err(|e| format!("{e:#}"))?;
            let mut m = std::collections::BTreeMap::new();
            for t in &tenants {
                let idx = mapper.ensure_tenant(&t.tenant_id).map_err(|e| format!("{e:#}"))?;
                m.insert(t.tenant_id.clone(), idx);
            }
            // everything the mapper knows
            for (k, v) in mapper.map.read().iter() {
                m.insert(k.clone(), *v);
            }
            out.push(m);
        }
        Ok(out)
    }

    pub fn state_size() -> usize {
        std::mem::size_of::<ServerState>()
    }
}
