//! C01, server-level slice: the REAL server binary killed right before each of its file-system
//! calls. The executable re-executed with SRVMC_AS_SERVER=1 is kyrodb_server's unmodified main();
//! it runs under kvshim's kill mode (KVSHIM_KILL_AT=n: the process dies, as by SIGKILL, right
//! before its n-th call under the data directory takes effect; torn variant: a write is cut in
//! half first) on an EMPTY directory while a client drives a short write history over gRPC.
//! n = 1, 2, ... until a run completes the whole history alive, so every call of the first
//! start-up (WAL header, first MANIFEST), of the acknowledged writes, of the automatic snapshots,
//! rotations and compactions is a crash point. Then the real server is started normally on what
//! is left: it must start (main()'s own recover-or-start-fresh decision included) and serve
//! exactly the acknowledged operations, optionally followed by the one in flight; it is then
//! killed during THAT start-up at its k-th call for every k, and the next start-up must give the
//! same collection.
//!
//! Output: one line `C01S-RESULT <json>` on stdout (merged into C01's evidence by crashmc).

use crate::realbin::*;
use serde_json::json;
use std::path::Path;
use std::sync::atomic::{AtomicBool, AtomicU64, Ordering};
use std::sync::Mutex;
use vcore::findings::SigBag;

fn cfg_toml(data_dir: &Path, snap: u64, rotation: u64) -> String {
    format!(
        "[environment]\ntype = \"production\"\n[server]\nhost = \"127.0.0.1\"\n[persistence]\ndata_dir = {:?}\nfsync_policy = \"data_only\"\nsnapshot_interval_mutations = {snap}\nmax_wal_size_bytes = {rotation}\n[hnsw]\ndimension = 3\nmax_elements = 64\ndistance = \"euclidean\"\n[cache]\nenable_training_task = false\n[logging]\nlevel = \"warn\"\n",
        data_dir.to_string_lossy()
    )
}

const MAX_ID: u64 = 6;

#[derive(Clone, Debug)]
enum Step {
    Ins(u64, u32),
    Del(u64),
    Upd(u64),
}

fn history() -> Vec<Step> {
    vec![Step::Ins(1, 1), Step::Ins(2, 1), Step::Del(1), Step::Ins(3, 1), Step::Upd(2), Step::Ins(1, 2), Step::Ins(2, 2)]
}

fn vec_of(id: u64, w: u32) -> Vec<f32> {
    vec![id as f32, w as f32, 1.0]
}

fn apply(model: &mut Census, s: &Step) {
    match s {
        Step::Ins(id, w) => {
            model.insert(*id, (vec_of(*id, *w).iter().map(|x| x.to_bits()).collect(), [("w".to_string(), w.to_string())].into_iter().collect()));
        }
        Step::Del(id) => {
            model.remove(id);
        }
        Step::Upd(id) => {
            if let Some(d) = model.get_mut(id) {
                d.1.insert("u".into(), "x".into());
            }
        }
    }
}

fn send(c: &mut Client, s: &Step) -> Result<bool, String> {
    match s {
        Step::Ins(id, w) => c.insert(*id, &vec_of(*id, *w), &[("w", &w.to_string())]),
        Step::Del(id) => c.delete(*id).map(|_| true),
        Step::Upd(id) => c.update_metadata(*id, &[("u", "x")], true).map(|_| true),
    }
}

const CLASS: [(i64, &str); 9] = [(1, "write"), (2, "fsync"), (4, "fdatasync"), (8, "ftruncate"), (16, "rename"), (32, "open"), (64, "unlink"), (128, "mkdir"), (256, "fsync-dir")];
const ROLE: [&str; 5] = ["?", "wal", "manifest", "snapshot", "other"];

fn note_label(p: &Path) -> String {
    let s = std::fs::read_to_string(p).unwrap_or_default();
    let f: Vec<i64> = s.split_whitespace().filter_map(|x| x.parse().ok()).collect();
    if f.len() < 3 {
        return "unknown".into();
    }
    let cls = CLASS.iter().find(|(c, _)| *c == f[1]).map(|(_, n)| *n).unwrap_or("other");
    format!("{cls}({})", ROLE.get(f[2] as usize).copied().unwrap_or("?"))
}

struct Outcome {
    survived: bool,
    launches: u64,
    viol: Vec<(String, serde_json::Value)>,
    label: String,
    nested: u64,
}

/// One crash point: kill the history-running server before its n-th call; restart; judge.
fn crash_point(root: &Path, tag: &str, shim: &str, snap: u64, rot: u64, n: u64, torn: bool, nested: bool) -> Outcome {
    let work = root.join(format!("{tag}-{n}-{}", torn as u8));
    let data = work.join("data");
    std::fs::create_dir_all(&data).unwrap();
    let cfgp = work.join("c.toml");
    std::fs::write(&cfgp, cfg_toml(&data, snap, rot)).unwrap();
    let note = work.join("kill.note");
    let envs: Vec<(String, String)> = vec![
        ("LD_PRELOAD".into(), shim.into()),
        ("KVSHIM_ROOT".into(), data.to_string_lossy().to_string()),
        ("KVSHIM_KILL_AT".into(), n.to_string()),
        ("KVSHIM_KILL_TORN".into(), if torn { "1".into() } else { "0".into() }),
        ("KVSHIM_KILL_NOTE".into(), note.to_string_lossy().to_string()),
        ("KVSHIM_CLOCK".into(), "0".into()),
        ("KVSHIM_RAND".into(), "0".into()),
    ];
    let mut out = Outcome { survived: false, launches: 1, viol: Vec::new(), label: String::new(), nested: 0 };
    let mut acked = Census::new();
    let mut inflight: Option<Step> = None;
    match launch(&cfgp, free_port(), free_port(), &envs, &work) {
        Launch::Refused { code, log_tail } => {
            // died during start-up: there must be a kill note; a server that exits by itself on an
            // empty directory means this slice's configuration is not accepted (vacuity guard)
            if !note.exists() {
                out.viol.push(("C01|server|machinery|first-start-refused-without-kill".into(), json!({"detail": format!("exit {code:?}: {log_tail}")})));
                return out;
            }
        }
        Launch::Hung { log_tail } => {
            out.viol.push(("C01|server|machinery|first-start-hangs".into(), json!({"detail": log_tail})));
            return out;
        }
        Launch::Started(mut srv) => {
            let mut completed = true;
            match Client::connect(srv.port) {
                Err(_) => completed = false,
                Ok(mut cl) => {
                    for s in history() {
                        match send(&mut cl, &s) {
                            Ok(true) => apply(&mut acked, &s),
                            Ok(false) => {}
                            Err(_) => {
                                inflight = Some(s);
                                completed = false;
                                break;
                            }
                        }
                    }
                }
            }
            if completed && srv.exited().is_none() && !note.exists() {
                out.survived = true;
                srv.kill();
                let _ = std::fs::remove_dir_all(&work);
                return out;
            }
            srv.kill();
        }
    }
    out.label = note_label(&note);
    // the crash state, kept aside for the kill-in-recovery runs (the restart below modifies `data`)
    let crashed = work.join("crashed");
    if nested {
        vcore::copy_dir(&data, &crashed);
    }
    let phase = if acked.is_empty() && inflight.is_none() { "first-start-up" } else { "serving" };
    let ctx = |detail: String| json!({"engine":"srvmc","check":"C01S","snapshot_interval":snap,"rotation":rot,"kill_before_call":n,"torn_write":torn,"killed_at":out.label,"acked":acked.keys().collect::<Vec<_>>(),"in_flight":format!("{inflight:?}"),"detail":detail});
    // allowed collections: acked, or acked + in-flight
    let mut allowed = vec![acked.clone()];
    if let Some(s) = &inflight {
        let mut m = acked.clone();
        apply(&mut m, s);
        allowed.push(m);
    }
    // restart normally
    out.launches += 1;
    let served = match launch(&cfgp, free_port(), free_port(), &[], &work) {
        Launch::Started(s) => {
            let r = census_retry(s.port, MAX_ID);
            s.kill();
            match r {
                Ok(c) => c,
                Err(e) => {
                    out.viol.push((format!("C01|server|kill|{phase}|{}|restart-does-not-answer", out.label), ctx(e)));
                    return out;
                }
            }
        }
        Launch::Refused { code, log_tail } => {
            out.viol.push((format!("C01|server|kill|{phase}|{}|startup-fails", out.label), ctx(format!("exit {code:?}: {log_tail}"))));
            return out;
        }
        Launch::Hung { log_tail } => {
            out.viol.push((format!("C01|server|kill|{phase}|{}|startup-hangs", out.label), ctx(log_tail)));
            return out;
        }
    };
    if !allowed.contains(&served) {
        let sym = if served.keys().any(|k| !allowed.iter().any(|a| a.contains_key(k))) {
            "unacknowledged-or-deleted-document-present"
        } else if allowed[0].keys().any(|k| !served.contains_key(k)) {
            "acked-op-lost"
        } else {
            "content-differs"
        };
        out.viol.push((format!("C01|server|kill|{phase}|{}|{sym}", out.label), ctx(format!("served {:?}", served.iter().map(|(k, v)| (k, v.1.clone())).collect::<Vec<_>>()))));
        return out;
    }
    // crash during THAT start-up: kill a restarting server before its k-th call, for every k, each
    // time on a fresh copy of the crash state; the start-up after that must serve what the
    // uninterrupted restart served
    if nested {
        let mut k = 1u64;
        loop {
            let w2 = work.join(format!("nested-{k}"));
            let d2 = w2.join("data");
            std::fs::create_dir_all(&w2).unwrap();
            vcore::copy_dir(&crashed, &d2);
            let c2 = w2.join("c.toml");
            std::fs::write(&c2, cfg_toml(&d2, snap, rot)).unwrap();
            let note2 = w2.join("kill.note");
            let envs2: Vec<(String, String)> = vec![
                ("LD_PRELOAD".into(), shim.into()),
                ("KVSHIM_ROOT".into(), d2.to_string_lossy().to_string()),
                ("KVSHIM_KILL_AT".into(), k.to_string()),
                ("KVSHIM_KILL_NOTE".into(), note2.to_string_lossy().to_string()),
                ("KVSHIM_CLOCK".into(), "0".into()),
                ("KVSHIM_RAND".into(), "0".into()),
            ];
            out.launches += 1;
            match launch(&c2, free_port(), free_port(), &envs2, &w2) {
                Launch::Started(s) => {
                    // start-up finished before its k-th call: all start-up calls enumerated
                    s.kill();
                    if !note2.exists() {
                        break;
                    }
                }
                Launch::Refused { .. } => {}
                Launch::Hung { .. } => break,
            }
            out.nested += 1;
            out.launches += 1;
            let lab2 = note_label(&note2);
            let ctx2 = |detail: String| json!({"engine":"srvmc","check":"C01S","snapshot_interval":snap,"rotation":rot,"kill_before_call":n,"torn_write":torn,"killed_at":out.label,"restart_killed_before_call":k,"restart_killed_at":lab2,"detail":detail});
            match launch(&c2, free_port(), free_port(), &[], &w2) {
                Launch::Started(s) => {
                    let r = census_retry(s.port, MAX_ID);
                    s.kill();
                    match r {
                        Ok(c) if c == served => {}
                        Ok(c) => out.viol.push((format!("C01|server|kill-in-recovery|{lab2}|outcome-differs"), ctx2(format!("first restart served {:?}, restart after a kill in recovery serves {:?}", served.keys().collect::<Vec<_>>(), c.keys().collect::<Vec<_>>())))),
                        Err(e) => out.viol.push((format!("C01|server|kill-in-recovery|{lab2}|restart-does-not-answer"), ctx2(e))),
                    }
                }
                Launch::Refused { code, log_tail } => out.viol.push((format!("C01|server|kill-in-recovery|{lab2}|startup-fails"), ctx2(format!("exit {code:?}: {log_tail}")))),
                Launch::Hung { log_tail } => out.viol.push((format!("C01|server|kill-in-recovery|{lab2}|startup-hangs"), ctx2(log_tail))),
            }
            let _ = std::fs::remove_dir_all(&w2);
            k += 1;
            if k > 200 || !out.viol.is_empty() {
                break;
            }
        }
    }
    let _ = std::fs::remove_dir_all(&work);
    out
}

pub fn run(tier: &str) -> i32 {
    let scratch = vcore::Scratch::new("c01s");
    let shim = std::env::var("KVSHIM_SO").unwrap_or_else(|_| "/verif/shim/kvshim.so".into());
    if !Path::new(&shim).exists() {
        eprintln!("C01S: machinery error: {shim} missing");
        return 2;
    }
    let variants: Vec<(u64, u64)> = if tier == "thorough" { vec![(2, 300), (3, 1 << 20), (1000, 200)] } else { vec![(2, 300)] };
    let viol = Mutex::new(SigBag::default());
    let launches = AtomicU64::new(0);
    let points = AtomicU64::new(0);
    let nested_points = AtomicU64::new(0);
    let labels: Mutex<std::collections::BTreeSet<String>> = Mutex::new(Default::default());
    let mut calls_per_variant = Vec::new();
    for (vi, (snap, rot)) in variants.iter().enumerate() {
        for torn in [false, true] {
            // enumerate n in parallel batches until one run survives the whole history
            let next = AtomicU64::new(1);
            let done = AtomicBool::new(false);
            let max_seen = AtomicU64::new(0);
            std::thread::scope(|sc| {
                for _ in 0..vcore::par::jobs().min(16) {
                    sc.spawn(|| loop {
                        if done.load(Ordering::SeqCst) {
                            break;
                        }
                        let n = next.fetch_add(1, Ordering::SeqCst);
                        if n > 600 {
                            done.store(true, Ordering::SeqCst);
                            break;
                        }
                        // nested (kill in recovery) at every crash point in thorough; in quick at the
                        // crash points of the first start-up and every third one afterwards
                        let nested = !torn && (tier == "thorough" || n <= 12 || n % 3 == 0);
                        let o = crash_point(&scratch.path, &format!("v{vi}"), &shim, *snap, *rot, n, torn, nested);
                        launches.fetch_add(o.launches, Ordering::Relaxed);
                        if o.survived {
                            done.store(true, Ordering::SeqCst);
                            break;
                        }
                        points.fetch_add(1, Ordering::Relaxed);
                        nested_points.fetch_add(o.nested, Ordering::Relaxed);
                        max_seen.fetch_max(n, Ordering::Relaxed);
                        labels.lock().unwrap().insert(o.label.clone());
                        let mut vb = viol.lock().unwrap();
                        for v in o.viol {
                            vb.push(v);
                        }
                    });
                }
            });
            calls_per_variant.push(json!({"snapshot_interval": snap, "rotation": rot, "torn": torn, "crash_points": max_seen.load(Ordering::Relaxed)}));
        }
    }
    let vb = viol.into_inner().unwrap();
    if vb.to_json().as_array().map(|a| a.iter().any(|x| x["sig"].as_str().map(|s| s.contains("machinery")).unwrap_or(false))).unwrap_or(false) {
        eprintln!("C01S: machinery error: {}", vb.to_json());
        return 2;
    }
    release_ports();
    println!(
        "C01S-RESULT {}",
        json!({"variants": calls_per_variant, "crash_points": points.load(Ordering::Relaxed), "kill_in_recovery_points": nested_points.load(Ordering::Relaxed), "launches": launches.load(Ordering::Relaxed),
               "killed_at": labels.into_inner().unwrap().into_iter().collect::<Vec<_>>(), "violations": vb.to_json()})
    );
    0
}
