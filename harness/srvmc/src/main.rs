//! srvmc: the real gRPC handlers of kyrodb_server.rs compiled in-process and driven by
//! exhaustive RPC sequences. With SRVMC_AS_SERVER=1 the binary IS the real server (its main()).
#![allow(dead_code, unused_imports, clippy::all)]

#[path = "gen/kyrodb_server.rs"]
mod server;

mod c10;
mod c14;
mod c15;
mod c01s;
mod c05s;
mod c10s;
mod c13s;
mod c18s;
mod c19s;
mod realbin;
#[path = "../../schedmc/src/explore.rs"]
mod explore;

fn main() {
    if std::env::var_os("SRVMC_AS_SERVER").is_some() {
        if let Err(e) = server::verif_driver::real_main() {
            eprintln!("Error: {e:#}");
            std::process::exit(1);
        }
        return;
    }
    let args: Vec<String> = std::env::args().collect();
    if args.len() < 2 {
        eprintln!("usage: srvmc <PROPERTY> [quick|thorough] [--replay <file>]");
        std::process::exit(2);
    }
    let prop = args[1].as_str();
    let mut tier = vcore::tier_from_env_or(None);
    let mut replay: Option<String> = None;
    let mut i = 2;
    while i < args.len() {
        match args[i].as_str() {
            "--replay" => {
                replay = args.get(i + 1).cloned();
                i += 1;
            }
            t @ ("quick" | "thorough") => tier = t.to_string(),
            other => {
                eprintln!("unknown argument {other}");
                std::process::exit(2);
            }
        }
        i += 1;
    }
    let code = match prop {
        "C10" => c10::run(&tier, replay.as_deref()),
        "C14" => c14::run(&tier, replay.as_deref()),
        "C15" => c15::run(&tier, replay.as_deref()),
        "C01S" => c01s::run(&tier),
        "C05S" => c05s::run(&tier),
        "C10S" => c10s::run(&tier),
        "C13S" => c13s::run(&tier),
        "C18S" => c18s::run(&tier),
        "C19S" => c19s::run(&tier),
        _ => {
            eprintln!("srvmc: unknown property {prop}");
            2
        }
    };
    std::process::exit(code);
}
