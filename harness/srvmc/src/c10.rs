//! C10 — tenants are isolated end to end. All RPC sequences up to a depth by two tenants with
//! colliding local ids, identical vectors, spoofed reserved keys and hostile filters, on the real
//! handlers; oracle = non-interference by projection + direct checks.

use crate::server::verif_driver::*;
use serde_json::{json, Value};
use std::collections::{BTreeMap, BTreeSet, HashMap};
use vcore::exec::sequences;
use vcore::findings::SigBag;

pub fn cfg(metric: &str) -> DriverCfg {
    DriverCfg {
        dim: 2,
        metric: metric.into(),
        auth: true,
        data_dir: None,
        hnsw_capacity: 64,
        snapshot_interval: 0,
        tenants: vec![("tenant_a".into(), 1, 1000), ("tenant_b".into(), 2, 1000)],
    }
}

fn item(t: usize, id: u64, v: [f32; 2], spoof: bool, ns: &str) -> Item {
    let other = if t == 0 { ("tenant_b", "2") } else { ("tenant_a", "1") };
    let mut m = vec![("k".to_string(), if t == 0 { "a".to_string() } else { "b".to_string() })];
    if spoof {
        m.push(("__tenant_idx__".into(), other.1.into()));
        m.push(("__tenant_id__".into(), other.0.into()));
        m.push(("__namespace__".into(), "stolen".into()));
    }
    Item { id, v: v.to_vec(), m, ns: ns.into() }
}

pub fn alphabet_for(t: usize) -> Vec<Rpc> {
    let other_idx = if t == 0 { "2" } else { "1" };
    let me = if t == 0 { "a" } else { "b" };
    let v1 = [1.0f32, 0.0];
    let v2 = [0.0f32, 1.0];
    let s = |k: u32, ns: &str, flt: Flt, legacy: Vec<(String, String)>| Rpc::Search { t, q: v1.to_vec(), k, ns: ns.into(), flt, legacy, emb: true, ef: 0 };
    vec![
        Rpc::Insert { t, item: item(t, 1, v1, false, "") },
        Rpc::Insert { t, item: item(t, 1, v2, true, "n") },
        Rpc::Insert { t, item: item(t, 2, v1, false, "") },
        Rpc::BulkInsert { t, items: vec![item(t, 1, v1, false, ""), item(t, 2, v2, true, "")] },
        Rpc::BulkLoad { t, items: vec![item(t, 2, v2, false, "n")] },
        Rpc::Query { t, id: 1, emb: true, ns: "".into() },
        Rpc::Query { t, id: 1, emb: false, ns: "n".into() },
        Rpc::BulkQuery { t, ids: vec![1, 2], emb: true, ns: "".into() },
        s(2, "", Flt::None, vec![]),
        s(1, "", Flt::None, vec![]),
        s(2, "", Flt::Exact("__tenant_idx__".into(), other_idx.into()), vec![]),
        s(2, "", Flt::Not(Box::new(Flt::Exact("k".into(), me.into()))), vec![]),
        s(2, "", Flt::Or(vec![Flt::Exact("k".into(), "zzz".into()), Flt::Exact("__tenant_idx__".into(), other_idx.into())]), vec![]),
        s(2, "n", Flt::None, vec![]),
        s(2, "", Flt::None, vec![("__tenant_idx__".into(), other_idx.into())]),
        Rpc::BulkSearch { t, qs: vec![(v1.to_vec(), 2), (v2.to_vec(), 1)], ns: "".into(), flt: Flt::None },
        Rpc::UpdateMetadata { t, id: 1, m: vec![("u".into(), "1".into())], merge: true, ns: "".into() },
        Rpc::UpdateMetadata { t, id: 1, m: vec![("__tenant_idx__".into(), other_idx.into()), ("k".into(), me.into())], merge: false, ns: "".into() },
        Rpc::Delete { t, id: 1, ns: "".into() },
        Rpc::BatchDeleteIds { t, ids: vec![1, 2, 1], ns: "".into() },
        Rpc::BatchDeleteFilter { t, flt: Flt::Not(Box::new(Flt::Exact("k".into(), "zzz".into()))), ns: "".into() },
        Rpc::BatchDeleteFilter { t, flt: Flt::Exact("__tenant_idx__".into(), other_idx.into()), ns: "".into() },
        Rpc::Flush { t },
    ]
}

pub fn alphabet() -> Vec<Rpc> {
    let mut v = alphabet_for(0);
    v.extend(alphabet_for(1));
    v
}

#[derive(Default)]
pub struct Stats {
    pub sequences: u64,
    pub calls: u64,
    pub projections: u64,
    pub compared: u64,
    pub interfering_sequences: u64,
    pub tie_swaps: u64,
    pub states: BTreeSet<u64>,
    pub viol: SigBag,
}

thread_local! {
    static KNOWN: vcore::findings::Reporter = vcore::findings::Reporter::new("C10");
}

const RESERVED: [&str; 3] = ["__tenant_id__", "__tenant_idx__", "__namespace__"];

fn scan_reserved_and_ids(v: &Value, bad: &mut Vec<String>) {
    match v {
        Value::Object(o) => {
            if let Some(Value::Array(m)) = o.get("metadata") {
                for kv in m {
                    if let Some(k) = kv.get(0).and_then(|x| x.as_str()) {
                        if RESERVED.contains(&k) {
                            bad.push(format!("reserved key {k} in response"));
                        }
                    }
                }
            }
            if let Some(id) = o.get("doc_id").and_then(|x| x.as_u64()) {
                if id > 0xffff_ffff {
                    bad.push(format!("global doc id {id} leaked"));
                }
            }
            for x in o.values() {
                scan_reserved_and_ids(x, bad);
            }
        }
        Value::Array(a) => {
            for x in a {
                scan_reserved_and_ids(x, bad);
            }
        }
        _ => {}
    }
}

fn rpc_kind(r: &Rpc) -> &'static str {
    match r {
        Rpc::Insert { .. } => "Insert",
        Rpc::BulkInsert { .. } => "BulkInsert",
        Rpc::BulkLoad { .. } => "BulkLoadHnsw",
        Rpc::Query { .. } => "Query",
        Rpc::BulkQuery { .. } => "BulkQuery",
        Rpc::Search { .. } => "Search",
        Rpc::BulkSearch { .. } | Rpc::BulkSearchMixed { .. } => "BulkSearch",
        Rpc::UpdateMetadata { .. } => "UpdateMetadata",
        Rpc::Delete { .. } => "Delete",
        Rpc::BatchDeleteIds { .. } => "BatchDelete(ids)",
        Rpc::BatchDeleteFilter { .. } => "BatchDelete(filter)",
        Rpc::Flush { .. } => "FlushHotTier",
        Rpc::NoTenantQuery { .. } => "Query(no tenant)",
        Rpc::Restart => "Restart",
    }
}

/// Run a sequence on a fresh server; returns per-step responses and the final usage views.
pub fn run_seq(rt: &tokio::runtime::Runtime, c: &DriverCfg, seq: &[Rpc]) -> (Vec<Value>, Vec<Value>) {
    let srv = build(c);
    let mut out = Vec::new();
    for r in seq {
        out.push(rt.block_on(call(&srv, r)));
    }
    let mut usage_views = Vec::new();
    for t in 0..c.tenants.len() {
        let (st, body) = rt.block_on(usage(&srv, Some((c.tenants[t].0.clone(), false)), None));
        usage_views.push(json!({"status": st, "body": strip_volatile(&body)}));
    }
    (out, usage_views)
}

fn strip_volatile(v: &Value) -> Value {
    match v {
        Value::Object(o) => Value::Object(
            o.iter()
                .filter(|(k, _)| !k.contains("time") && !k.contains("timestamp") && !k.contains("updated") && !k.contains("generated"))
                .map(|(k, x)| (k.clone(), strip_volatile(x)))
                .collect(),
        ),
        Value::Array(a) => Value::Array(a.iter().map(strip_volatile).collect()),
        x => x.clone(),
    }
}

pub fn check_sequence(rt: &tokio::runtime::Runtime, c: &DriverCfg, seq: &[Rpc], memo: &mut HashMap<String, (Vec<Value>, Vec<Value>)>, st: &mut Stats) {
    st.sequences += 1;
    st.calls += seq.len() as u64;
    let (full, usage_full) = run_seq(rt, c, seq);
    {
        use std::hash::{Hash, Hasher};
        let mut h = std::collections::hash_map::DefaultHasher::new();
        format!("{full:?}").hash(&mut h);
        st.states.insert(h.finish());
    }
    let ctx = |detail: String, obs: usize| json!({"engine":"srvmc","check":"C10","cfg":c,"sequence":seq,"observer":c.tenants[obs].0,"detail":detail});
    // direct checks on every response
    for (i, r) in full.iter().enumerate() {
        let mut bad = Vec::new();
        scan_reserved_and_ids(r, &mut bad);
        if let Some(b) = bad.first() {
            let key = if b.contains("reserved") { "reserved-key-visible" } else { "global-doc-id-visible" };
            st.viol.push((format!("C10|{key}|{}", rpc_kind(&seq[i])), ctx(format!("step {i}: {b}: {}", r), seq[i].tenant().unwrap_or(0))));
            return;
        }
    }
    for obs in 0..2usize {
        if !seq.iter().any(|r| r.tenant() == Some(obs)) {
            continue;
        }
        if !seq.iter().any(|r| r.tenant() == Some(1 - obs)) {
            continue; // nothing to project away
        }
        let proj: Vec<Rpc> = seq.iter().filter(|r| r.tenant() == Some(obs)).cloned().collect();
        let key = format!("{}|{:?}", c.metric, proj);
        if !memo.contains_key(&key) {
            st.projections += 1;
            let r = run_seq(rt, c, &proj);
            memo.insert(key.clone(), r);
        }
        let (pr, usage_proj) = memo.get(&key).unwrap();
        let mine: Vec<(usize, &Value)> = full.iter().enumerate().filter(|(i, _)| seq[*i].tenant() == Some(obs)).collect();
        let mut interfered = false;
        for (j, (i, resp)) in mine.iter().enumerate() {
            st.compared += 1;
            if *resp != &pr[j] && matches!(&seq[*i], Rpc::Search { .. } | Rpc::BulkSearch { .. }) {
                // Which of several EXACTLY tied documents of the observer is returned is not one of
                // the channels the statement lists (found / not-found, result counts, usage,
                // foreign content): accept a difference that only permutes / swaps the observer's
                // own documents at identical scores.
                fn lists(v: &Value, out: &mut Vec<Vec<(String, String)>>) {
                    match v {
                        Value::Object(o) => {
                            if let Some(Value::Array(rs)) = o.get("results") {
                                out.push(rs.iter().map(|r| (r["score"].to_string(), r["metadata"].to_string())).collect());
                            }
                            for (k, x) in o {
                                if k != "results" {
                                    lists(x, out);
                                }
                            }
                        }
                        Value::Array(a) => a.iter().for_each(|x| lists(x, out)),
                        _ => {}
                    }
                }
                let (mut a, mut b) = (Vec::new(), Vec::new());
                lists(resp, &mut a);
                lists(&pr[j], &mut b);
                let me = if obs == 0 { "[\"k\",\"a\"]" } else { "[\"k\",\"b\"]" };
                let same_scores = a.len() == b.len() && a.iter().zip(&b).all(|(x, y)| x.len() == y.len() && x.iter().zip(y).all(|(p, q)| p.0 == q.0));
                let all_mine = a.iter().all(|l| l.iter().all(|(_, m)| m.contains(me)));
                if same_scores && all_mine {
                    st.tie_swaps += 1;
                    continue;
                }
            }
            if *resp != &pr[j] {
                interfered = true;
                // Search: are the observer's results merely a subset of what it gets alone (its own
                // documents crowded out of the global top-k by the other tenant), or different?
                fn rows(v: &Value, out: &mut Vec<String>) {
                    match v {
                        Value::Object(o) => {
                            if let Some(Value::Array(rs)) = o.get("results") {
                                for r in rs {
                                    out.push(format!("{}|{}|{}", r["doc_id"], r["metadata"], r["embedding"]));
                                }
                            }
                            for x in o.values() {
                                rows(x, out);
                            }
                        }
                        Value::Array(a) => a.iter().for_each(|x| rows(x, out)),
                        _ => {}
                    }
                }
                let what = match &seq[*i] {
                    Rpc::Search { .. } | Rpc::BulkSearch { .. } => {
                        let (mut a, mut b) = (Vec::new(), Vec::new());
                        rows(resp, &mut a);
                        rows(&pr[j], &mut b);
                        if a.iter().all(|x| b.contains(x)) && a.len() < b.len() {
                            "own-results-crowded-out-by-other-tenants-documents"
                        } else {
                            "search-results-differ-with-other-tenant-present"
                        }
                    }
                    _ => "response-depends-on-other-tenant",
                };
                let sig = format!("C10|non-interference|{}|{what}", rpc_kind(&seq[*i]));
                let is_known = KNOWN.with(|k| k.is_known(&sig));
                st.viol.push((
                    sig,
                    ctx(format!("step {i} {}: with the other tenant's requests present the observer got {} ; with them removed it gets {}", seq[*i].short(), resp, pr[j]), obs),
                ));
                if is_known {
                    // a listed finding must not hide a different violation later in the sequence
                    continue;
                }
                break;
            }
        }
        if interfered {
            st.interfering_sequences += 1;
            continue;
        }
        if usage_full[obs] != usage_proj[obs] {
            st.viol.push(("C10|non-interference|usage-report-depends-on-other-tenant".into(), ctx(format!("usage with other tenant {} without {}", usage_full[obs], usage_proj[obs]), obs)));
            return;
        }
    }
}

pub fn worker(wi: usize, wn: usize, tier: &str) {
    let base_depth: usize = std::env::var("C10_DEPTH").ok().and_then(|s| s.parse().ok()).unwrap_or(3);
    let rt = tokio::runtime::Builder::new_multi_thread().worker_threads(1).max_blocking_threads(4).enable_all().build().unwrap();
    let alpha = alphabet();
    let mut st = Stats::default();
    let metrics: Vec<&str> = if tier == "thorough" { vec!["euclidean", "cosine"] } else { vec!["euclidean"] };
    let mut idx = 0usize;
    for m in metrics {
        // thorough: one level deeper for the first metric (46^4 sequences)
        let depth = if tier == "thorough" && m == "euclidean" && std::env::var("C10_DEPTH").is_err() { base_depth + 1 } else { base_depth };
        let c = cfg(m);
        let mut memo: HashMap<String, (Vec<Value>, Vec<Value>)> = HashMap::new();
        for first in 0..alpha.len() {
            for second in 0..alpha.len() {
                idx += 1;
                if idx % wn != wi {
                    continue;
                }
                if depth <= 2 {
                    let seq = vec![alpha[first].clone(), alpha[second].clone()];
                    check_sequence(&rt, &c, &seq, &mut memo, &mut st);
                    continue;
                }
                for s in sequences(alpha.len(), depth, &[first, second]) {
                    let seq: Vec<Rpc> = s.iter().map(|&i| alpha[i].clone()).collect();
                    check_sequence(&rt, &c, &seq, &mut memo, &mut st);
                }
            }
        }
    }
    // from a populated state: both tenants hold local ids 1 and 2 (identical vectors), drained
    // to the cold tier, with one cached search each; then every sequence of depth 2 (thorough 3)
    {
        let a0 = alphabet_for(0);
        let a1 = alphabet_for(1);
        let prefix: Vec<Rpc> = vec![a0[0].clone(), a1[0].clone(), a0[2].clone(), a1[2].clone(), a0[22].clone(), a0[8].clone(), a1[8].clone()];
        let pdepth = if tier == "thorough" { 3 } else { 2 };
        let c = cfg("euclidean");
        let mut memo: HashMap<String, (Vec<Value>, Vec<Value>)> = HashMap::new();
        for (si, s) in sequences(alpha.len(), pdepth, &[]).into_iter().enumerate() {
            if si % wn != wi {
                continue;
            }
            let mut seq = prefix.clone();
            seq.extend(s.iter().map(|&i| alpha[i].clone()));
            check_sequence(&rt, &c, &seq, &mut memo, &mut st);
        }
    }
    // tenant index mapping: every sequence of up to 3 server starts over a family of API-key
    // sets (tenants with one or two keys, tenants added later): distinct tenants never share an
    // index and a tenant's index never changes across restarts
    if wi == 0 {
        let families: Vec<Vec<&str>> = vec![vec!["a"], vec!["a", "b"], vec!["a", "a", "b"], vec!["b", "a", "c"], vec!["a", "a", "b", "b", "c"], vec!["c"], vec!["a", "b", "c", "d"], vec!["d", "d"]];
        let scratch = vcore::Scratch::new("c10map");
        let mut n = 0u64;
        for len in 1..=3usize {
            for s in sequences(families.len(), len, &[]) {
                n += 1;
                let dir = scratch.path.join("m");
                let _ = std::fs::remove_dir_all(&dir);
                std::fs::create_dir_all(&dir).unwrap();
                let starts: Vec<Vec<String>> = s.iter().map(|i| families[*i].iter().map(|x| x.to_string()).collect()).collect();
                match tenant_map_history(&dir, &starts) {
                    Err(e) => st.viol.push(("C10|tenant-index-map|start-fails".into(), json!({"starts": starts, "detail": e}))),
                    Ok(hist) => {
                        let mut seen: BTreeMap<String, u32> = BTreeMap::new();
                        for (k, m) in hist.iter().enumerate() {
                            let mut by_idx: BTreeMap<u32, &String> = BTreeMap::new();
                            for (t, i) in m {
                                if let Some(other) = by_idx.insert(*i, t) {
                                    st.viol.push(("C10|tenant-index-map|two-tenants-share-an-index".into(), json!({"engine":"srvmc","check":"C10","starts": starts, "detail": format!("after start {k}: tenants {other} and {t} both map to index {i}: {m:?}")})));
                                }
                                if let Some(prev) = seen.get(t) {
                                    if prev != i {
                                        st.viol.push(("C10|tenant-index-map|index-changes-across-restart".into(), json!({"engine":"srvmc","check":"C10","starts": starts, "detail": format!("tenant {t}: index {prev} then {i}")})));
                                    }
                                }
                                seen.insert(t.clone(), *i);
                            }
                        }
                    }
                }
            }
        }
        st.projections += 0;
        st.calls += n;
    }
    // direct: a request without tenant context is refused; usage scope=all needs admin
    let c = cfg("euclidean");
    let srv = build(&c);
    let r = rt.block_on(call(&srv, &Rpc::NoTenantQuery { id: 1 }));
    if r.get("status").and_then(|x| x.as_str()) != Some("Unauthenticated") {
        st.viol.push(("C10|request-without-tenant-context-served".into(), json!({"response": r})));
    }
    let (s1, _) = rt.block_on(usage(&srv, Some(("tenant_a".into(), false)), Some("all".into())));
    if s1 == 200 {
        st.viol.push(("C10|usage-scope-all-served-to-non-admin".into(), json!({"status": s1})));
    }
    let (s2, _) = rt.block_on(usage(&srv, None, None));
    if s2 == 200 {
        st.viol.push(("C10|usage-served-without-requester".into(), json!({"status": s2})));
    }
    vcore::par::worker_emit(&json!({"sequences":st.sequences,"calls":st.calls,"projections":st.projections,"compared":st.compared,"interfering":st.interfering_sequences,"tie_swaps":st.tie_swaps,
        "states":st.states.iter().collect::<Vec<_>>(),"violations":st.viol.to_json()}));
}

pub fn run(tier: &str, replay: Option<&str>) -> i32 {
    if let Some(p) = replay {
        let v: Value = serde_json::from_str(&std::fs::read_to_string(p).expect("read")).expect("json");
        if v["case"]["check"] == "C10S" {
            let sig = v["signature"].as_str().unwrap_or("").to_string();
            return match crate::realbin::run_slice("C10S", tier) {
                Ok(r) => {
                    if r["violations"].as_array().map(|a| a.iter().any(|x| x["sig"] == sig.as_str())).unwrap_or(false) {
                        println!("replay: reproduced {sig}");
                        println!("VIOLATION property=C10 replay={p}");
                        1
                    } else {
                        println!("replay: no violation with signature {sig}");
                        0
                    }
                }
                Err(e) => {
                    eprintln!("machinery error: {e}");
                    2
                }
            };
        }
        let c: DriverCfg = serde_json::from_value(v["case"]["cfg"].clone()).unwrap();
        let seq: Vec<Rpc> = serde_json::from_value(v["case"]["sequence"].clone()).unwrap();
        let rt = tokio::runtime::Builder::new_multi_thread().worker_threads(1).enable_all().build().unwrap();
        let mut st = Stats::default();
        let mut memo = HashMap::new();
        check_sequence(&rt, &c, &seq, &mut memo, &mut st);
        if let Some((s, r)) = st.viol.any_first() {
            println!("replay: reproduced {s}: {}", r["detail"]);
            println!("VIOLATION property=C10 replay={p}");
            return 1;
        }
        println!("replay: no violation");
        return 0;
    }
    if let Some((i, n)) = vcore::par::worker_id() {
        worker(i, n, tier);
        return 0;
    }
    let res = vcore::par::run_workers(vcore::par::jobs(), &[]);
    let mut ev = vcore::evidence::Evidence::new("C10", tier, "model_checking");
    let mut rep = vcore::findings::Reporter::new("C10");
    let mut tot: BTreeMap<&str, u64> = BTreeMap::new();
    let mut states: BTreeSet<u64> = BTreeSet::new();
    for r in &res {
        for k in ["sequences", "calls", "projections", "compared", "interfering", "tie_swaps"] {
            *tot.entry(k).or_insert(0) += r[k].as_u64().unwrap_or(0);
        }
        for s in r["states"].as_array().unwrap() {
            states.insert(s.as_u64().unwrap());
        }
        rep.report_bag(&r["violations"]);
    }
    let depth: usize = std::env::var("C10_DEPTH").ok().and_then(|s| s.parse().ok()).unwrap_or(if tier == "thorough" { 4 } else { 3 });
    let n = alphabet().len();
    ev.set("states", states.len() as u64);
    ev.set("transitions", tot["calls"]);
    ev.set("traces_validated_against_impl", tot["sequences"]);
    ev.set("evaluations", tot["sequences"]);
    ev.set("distinct_nontrivial", tot["compared"]);
    ev.set("rule", format!("all {n}^{depth} sequences over a {n}-letter alphabet (23 RPC forms x 2 tenants: Insert incl. spoofed reserved keys and namespace, BulkInsert, BulkLoadHnsw, Query, BulkQuery, Search with k 1/2, namespace, hostile filters naming the other tenant's reserved key / NOT / OR / legacy metadata_filters, BulkSearch, UpdateMetadata merge and replace-with-spoof, Delete, BatchDelete by ids and by filters that match everything or name the other tenant, FlushHotTier) on the real in-process handlers with auth on, colliding local ids {{1,2}} and identical vectors, from the empty server and (depth 2, thorough 3) from a populated one (both tenants hold ids 1,2, drained, one cached search each); oracle: for each tenant, its responses must be identical when the other tenant's requests are deleted from the sequence (projection run on a fresh server), plus no reserved key and no global id in any response, per-tenant /usage unchanged by the other tenant, scope=all refused to non-admin, request without tenant context refused; plus every sequence of <= 3 server starts over 8 API-key sets (multi-key tenants, tenants added later) through the real TenantIdMapper: indices injective and stable. states = distinct response vectors; non-trivial = observer responses compared against a projection"));
    ev.set("samples", json!([alphabet()[1], alphabet()[11], alphabet()[21]]));
    ev.set("exhaustive", true);
    ev.set("projection_runs", tot["projections"]);
    ev.set("sequences_with_interference", tot["interfering"]);
    ev.set("search_responses_differing_only_in_which_exactly_tied_own_document_is_returned", tot["tie_swaps"]);
    ev.assume("a search response that differs from the projection run only in WHICH of the observer's own exactly tied documents is returned (same scores, same counts, own content) is not interference: tie-breaking is not among the channels the statement lists");
    ev.assume("the API-key interceptor lives in main(); the in-process driver attaches the TenantContext the interceptor would attach; the interceptor itself, the persistent tenant map and the restart are exercised by the server-level slice (real binary, auth on): {no key, unknown, disabled, empty, Bearer unknown} x 9 RPCs => UNAUTHENTICATED; two tenants (one with two keys) with identical local ids and vectors see only their own documents through Query / BulkQuery / Search before and after two restarts, with a tenant added in between");
    ev.assume("search latency, execution path and the flush count (process-wide aggregates) are not compared");
    // server-level slice through the real binary (auth interceptor, tenant map, start-up recount)
    match crate::realbin::run_slice("C10S", tier) {
        Ok(v) => {
            rep.report_bag(&crate::realbin::violations_with_prefix(&v, "C10|"));
            ev.set("server_slice_launches_of_the_real_binary", v["launches"].clone());
            ev.set("server_slice_checks", v["checks"].clone());
        }
        Err(e) => {
            eprintln!("C10: machinery error in the server-level slice: {e}");
            return 2;
        }
    }
    ev.violations = rep.violations as i64;
    ev.write();
    println!("C10 {tier}: sequences={} calls={} projections={} compared={} interfering={} states={} violations={}", tot["sequences"], tot["calls"], tot["projections"], tot["compared"], tot["interfering"], states.len(), rep.violations);
    rep.finish()
}
