//! C10 — tenants are isolated end to end. All RPC sequences up to a depth by two tenants with
//! colliding local ids, identical vectors, spoofed reserved keys and hostile filters, on the real
//! handlers; oracle = non-interference by projection + direct checks.

use crate::server::verif_driver::*;
use serde_json::{json, Value};
use std::collections::{BTreeMap, BTreeSet, HashMap};
use vcore::exec::sequences;
use vcore::findings::SigBag;

pub fn cfg(metric: &str) -> DriverCfg {
    DriverCfg {
        dim: 2,
        metric: metric.into(),
        auth: true,
        data_dir: None,
        hnsw_capacity: 64,
        snapshot_interval: 0,
        tenants: vec![("tenant_a".into(), 1, 1000), ("tenant_b".into(), 2, 1000)],
    }
}

fn item(t: usize, id: u64, v: [f32; 2], spoof: bool, ns: &str) -> Item {
    let other = if t == 0 { ("tenant_b", "2") } else { ("tenant_a", "1") };
    let mut m = vec![("k".to_string(), if t == 0 { "a".to_string() } else { "b".to_string() })];
    if spoof {
        m.push(("__tenant_idx__".into(), other.1.into()));
        m.push(("__tenant_id__".into(), other.0.into()));
        m.push(("__namespace__".into(), "stolen".into()));
    }
    Item { id, v: v.to_vec(), m, ns: ns.into() }
}

pub fn alphabet_for(t: usize) -> Vec<Rpc> {
    let other_idx = if t == 0 { "2" } else { "1" };
    let me = if t == 0 { "a" } else { "b" };
    let v1 = [1.0f32, 0.0];
    let v2 = [0.0f32, 1.0];
    let s = |k: u32, ns: &str, flt: Flt, legacy: Vec<(String, String)>| Rpc::Search { t, q: v1.to_vec(), k, ns: ns.into(), flt, legacy, emb: true, ef: 0 };
    vec![
        Rpc::Insert { t, item: item(t, 1, v1, false, "") },
        Rpc::Insert { t, item: item(t, 1, v2, true, "n") },
        Rpc::Insert { t, item: item(t, 2, v1, false, "") },
        Rpc::BulkInsert { t, items: vec![item(t, 1, v1, false, ""), item(t, 2, v2, true, "")] },
        Rpc::BulkLoad { t, items: vec![item(t, 2, v2, false, "n")] },
        Rpc::Query { t, id: 1, emb: true, ns: "".into() },
        Rpc::Query { t, id: 1, emb: false, ns: "n".into() },
        Rpc::BulkQuery { t, ids: vec![1, 2], emb: true, ns: "".into() },
        s(2, "", Flt::None, vec![]),
        s(1, "", Flt::None, vec![]),
        s(2, "", Flt::Exact("__tenant_idx__".into(), other_idx.into()), vec![]),
        s(2, "", Flt::Not(Box::new(Flt::Exact("k".into(), me.into()))), vec![]),
        s(2, "", Flt::Or(vec![Flt::Exact("k".into(), "zzz".into()), Flt::Exact("__tenant_idx__".into(), other_idx.into())]), vec![]),
        s(2, "n", Flt::None, vec![]),
        s(2, "", Flt::None, vec![("__tenant_idx__".into(), other_idx.into())]),
        Rpc::BulkSearch { t, qs: vec![(v1.to_vec(), 2), (v2.to_vec(), 1)], ns: "".into(), flt: Flt::None },
        Rpc::UpdateMetadata { t, id: 1, m: vec![("u".into(), "1".into())], merge: true, ns: "".into() },
        Rpc::UpdateMetadata { t, id: 1, m: vec![("__tenant_idx__".into(), other_idx.into()), ("k".into(), me.into())], merge: false, ns: "".into() },
        Rpc::Delete { t, id: 1, ns: "".into() },
        Rpc::BatchDeleteIds { t, ids: vec![1, 2, 1], ns: "".into() },
        Rpc::BatchDeleteFilter { t, flt: Flt::Not(Box::new(Flt::Exact("k".into(), "zzz".into()))), ns: "".into() },
        Rpc::BatchDeleteFilter { t, flt: Flt::Exact("__tenant_idx__".into(), other_idx.into()), ns: "".into() },
        Rpc::Flush { t },
        // a tenant-local id with bits above 2^32: added to the tenant's base it would land in the
        // NEXT tenant's id range (local id 1 of the other tenant); must be refused as out of range
        Rpc::Insert { t, item: Item { id: (1u64 << 32) | 1, v: v2.to_vec(), m: vec![("k".to_string(), me.to_string())], ns: "".into() } },
    ]
}

pub fn alphabet() -> Vec<Rpc> {
    let mut v = alphabet_for(0);
    v.extend(alphabet_for(1));
    v
}

#[derive(Default)]
pub struct Stats {
    pub sequences: u64,
    pub calls: u64,
    pub projections: u64,
    pub compared: u64,
    pub interfering_sequences: u64,
    pub tie_swaps: u64,
    pub states: BTreeSet<u64>,
    pub viol: SigBag,
}

thread_local! {
    static KNOWN: vcore::findings::Reporter = vcore::findings::Reporter::new("C10");
}

const RESERVED: [&str; 3] = ["__tenant_id__", "__tenant_idx__", "__namespace__"];

fn scan_reserved_and_ids(v: &Value, bad: &mut Vec<String>) {
    match v {
        Value::Object(o) => {
            if let Some(Value::Array(m)) = o.get("metadata") {
                for kv in m {
                    if let Some(k) = kv.get(0).and_then(|x| x.as_str()) {
                        if RESERVED.contains(&k) {
                            bad.push(format!("reserved key {k} in response"));
                        }
                    }
                }
            }
            if let Some(id) = o.get("doc_id").and_then(|x| x.as_u64()) {
                if id > 0xffff_ffff {
                    bad.push(format!("global doc id {id} leaked"));
                }
            }
            for x in o.values() {
                scan_reserved_and_ids(x, bad);
            }
        }
        Value::Array(a) => {
            for x in a {
                scan_reserved_and_ids(x, bad);
            }
        }
        _ => {}
    }
}

fn rpc_kind(r: &Rpc) -> &'static str {
    match r {
        Rpc::Insert { .. } => "Insert",
        Rpc::BulkInsert { .. } => "BulkInsert",
        Rpc::BulkLoad { .. } => "BulkLoadHnsw",
        Rpc::Query { .. } => "Query",
        Rpc::BulkQuery { .. } => "BulkQuery",
        Rpc::Search { .. } => "Search",
        Rpc::BulkSearch { .. } | Rpc::BulkSearchMixed { .. } => "BulkSearch",
        Rpc::UpdateMetadata { .. } => "UpdateMetadata",
        Rpc::Delete { .. } => "Delete",
        Rpc::BatchDeleteIds { .. } => "BatchDelete(ids)",
        Rpc::BatchDeleteFilter { .. } => "BatchDelete(filter)",
        Rpc::Flush { .. } => "FlushHotTier",
        Rpc::NoTenantQuery { .. } => "Query(no tenant)",
        Rpc::Restart => "Restart",
    }
}

/// Run a sequence on a fresh server; returns per-step responses and the final usage views.
pub fn run_seq(rt: &tokio::runtime::Runtime, c: &DriverCfg, seq: &[Rpc]) -> (Vec<Value>, Vec<Value>) {
    let srv = build(c);
    let mut out = Vec::new();
    for r in seq {
        out.push(rt.block_on(call(&srv, r)));
    }
    let mut usage_views = Vec::new();
    for t in 0..c.tenants.len() {
        let (st, body) = rt.block_on(usage(&srv, Some((c.tenants[t].0.clone(), false)), None));
        usage_views.push(json!({"status": st, "body": strip_volatile(&body)}));
    }
    (out, usage_views)
}

fn strip_volatile(v: &Value) -> Value {
    match v {
        Value::Object(o) => Value::Object(
            o.iter()
                .filter(|(k, _)| !k.contains("time") && !k.contains("timestamp") && !k.contains("updated") && !k.contains("generated"))
                .map(|(k, x)| (k.clone(), strip_volatile(x)))
                .collect(),
        ),
        Value::Array(a) => Value::Array(a.iter().map(strip_volatile).collect()),
        x => x.clone(),
    }
}

pub fn check_sequence(rt: &tokio::runtime::Runtime, c: &DriverCfg, seq: &[Rpc], memo: &mut HashMap<String, (Vec<Value>, Vec<Value>)>, st: &mut Stats) {
    st.sequences += 1;
    st.calls += seq.len() as u64;
    let (full, usage_full) = run_seq(rt, c, seq);
    {
        use std::hash::{Hash, Hasher};
        let mut h = std::collections::hash_map::DefaultHasher::new();
        format!("{full:?}").hash(&mut h);
        st.states.insert(h.finish());
    }
    let ctx = |detail: String, obs: usize| json!({"engine":"srvmc","check":"C10","cfg":c,"sequence":seq,"observer":c.tenants[obs].0,"detail":detail});
    // direct checks on every response
    for (i, r) in full.iter().enumerate() {
        let mut bad = Vec::new();
        scan_reserved_and_ids(r, &mut bad);
        if let Some(b) = bad.first() {
            let key = if b.contains("reserved") { "reserved-key-visible" } else { "global-doc-id-visible" };
            st.viol.push((format!("C10|{key}|{}", rpc_kind(&seq[i])), ctx(format!("step {i}: {b}: {}", r), seq[i].tenant().unwrap_or(0))));
            return;
        }
    }
    for obs in 0..2usize {
        if !seq.iter().any(|r| r.tenant() == Some(obs)) {
            continue;
        }
        if !seq.iter().any(|r| r.tenant() == Some(1 - obs)) {
            continue; // nothing to project away
        }
        let proj: Vec<Rpc> = seq.iter().filter(|r| r.tenant() == Some(obs)).cloned().collect();
        let key = format!("{}|{:?}", c.metric, proj);
        if !memo.contains_key(&key) {
            st.projections += 1;
            let r = run_seq(rt, c, &proj);
            memo.insert(key.clone(), r);
        }
        let (pr, usage_proj) = memo.get(&key).unwrap();
        let mine: Vec<(usize, &Value)> = full.iter().enumerate().filter(|(i, _)| seq[*i].tenant() == Some(obs)).collect();
        let mut interfered = false;
        for (j, (i, resp)) in mine.iter().enumerate() {
            st.compared += 1;
            if *resp != &pr[j] && matches!(&seq[*i], Rpc::Search { .. } | Rpc::BulkSearch { .. }) {
                // Which of several EXACTLY tied documents of the observer is returned is not one of
                // the channels the statement lists (found / not-found, result counts, usage,
                // foreign content): accept a difference that only permutes / swaps the observer's
                // own documents at identical scores.
                fn lists(v: &Value, out: &mut Vec<Vec<(String, String)>>) {
                    match v {
                        Value::Object(o) => {
                            if let Some(Value::Array(rs)) = o.get("results") {
                                out.push(rs.iter().map(|r| (r["score"].to_string(), r["metadata"].to_string())).collect());
                            }
                            for (k, x) in o {
                                if k != "results" {
                                    lists(x, out);
                                }
                            }
                        }
                        Value::Array(a) => a.iter().for_each(|x| lists(x, out)),
                        _ => {}
                    }
                }
                let (mut a, mut b) = (Vec::new(), Vec::new());
                lists(resp, &mut a);
                lists(&pr[j], &mut b);
                let me = if obs == 0 { "[\"k\",\"a\"]" } else { "[\"k\",\"b\"]" };
                let same_scores = a.len() == b.len() && a.iter().zip(&b).all(|(x, y)| x.len() == y.len() && x.iter().zip(y).all(|(p, q)| p.0 == q.0));
                let all_mine = a.iter().all(|l| l.iter().all(|(_, m)| m.contains(me)));
                if same_scores && all_mine {
                    st.tie_swaps += 1;
                    continue;
                }
            }
            if *resp != &pr[j] {
                interfered = true;
                // Search: are the observer's results merely a subset of what it gets alone (its own
                // documents crowded out of the global top-k by the other tenant), or different?
                fn rows(v: &Value, out: &mut Vec<String>) {
                    match v {
                        Value::Object(o) => {
                            if let Some(Value::Array(rs)) = o.get("results") {
                                for r in rs {
                                    out.push(format!("{}|{}|{}", r["doc_id"], r["metadata"], r["embedding"]));
                                }
                            }
                            for x in o.values() {
                                rows(x, out);
                            }
                        }
                        Value::Array(a) => a.iter().for_each(|x| rows(x, out)),
                        _ => {}
                    }
                }
                let what = match &seq[*i] {
                    Rpc::Search { .. } | Rpc::BulkSearch { .. } => {
                        let (mut a, mut b) = (Vec::new(), Vec::new());
                        rows(resp, &mut a);
                        rows(&pr[j], &mut b);
                        if a.iter().all(|x| b.contains(x)) && a.len() < b.len() {
                            "own-results-crowded-out-by-other-tenants-documents"
                        } else {
                            "search-results-differ-with-other-tenant-present"
                        }
                    }
                    _ => "response-depends-on-other-tenant",
                };
                let sig = format!("C10|non-interference|{}|{what}", rpc_kind(&seq[*i]));
                let is_known = KNOWN.with(|k| k.is_known(&sig));
                st.viol.push((
                    sig,
                    ctx(format!("step {i} {}: with the other tenant's requests present the observer got {} ; with them removed it gets {}", seq[*i].short(), resp, pr[j]), obs),
                ));
                if is_known {
                    // a listed finding must not hide a different violation later in the sequence
                    continue;
                }
                break;
            }
        }
        if interfered {
            st.interfering_sequences += 1;
            continue;
        }
        if usage_full[obs] != usage_proj[obs] {
            st.viol.push(("C10|non-interference|usage-report-depends-on-other-tenant".into(), ctx(format!("usage with other tenant {} without {}", usage_full[obs], usage_proj[obs]), obs)));
            return;
        }
    }
}

pub fn worker(wi: usize, wn: usize, tier: &str) {
    let base_depth: usize = std::env::var("C10_DEPTH").ok().and_then(|s| s.parse().ok()).unwrap_or(3);
    let rt = tokio::runtime::Builder::new_multi_thread().worker_threads(1).max_blocking_threads(4).enable_all().build().unwrap();
    let alpha = alphabet();
    let mut st = Stats::default();
    let mut ns_sequences = 0u64;
    let metrics: Vec<&str> = if tier == "thorough" { vec!["euclidean", "cosine"] } else { vec!["euclidean"] };
    let mut idx = 0usize;
    for m in metrics {
        // thorough: one level deeper for the first metric (46^4 sequences)
        let depth = if tier == "thorough" && m == "euclidean" && std::env::var("C10_DEPTH").is_err() { base_depth + 1 } else { base_depth };
        let c = cfg(m);
        let mut memo: HashMap<String, (Vec<Value>, Vec<Value>)> = HashMap::new();
        for first in 0..alpha.len() {
            for second in 0..alpha.len() {
                idx += 1;
                if idx % wn != wi {
                    continue;
                }
                if depth <= 2 {
                    let seq = vec![alpha[first].clone(), alpha[second].clone()];
                    check_sequence(&rt, &c, &seq, &mut memo, &mut st);
                    continue;
                }
                for s in sequences(alpha.len(), depth, &[first, second]) {
                    let seq: Vec<Rpc> = s.iter().map(|&i| alpha[i].clone()).collect();
                    check_sequence(&rt, &c, &seq, &mut memo, &mut st);
                }
            }
        }
    }
    // from a populated state: both tenants hold local ids 1 and 2 (identical vectors), drained
    // to the cold tier, with one cached search each; then every sequence of depth 2 (thorough 3)
    {
        let a0 = alphabet_for(0);
        let a1 = alphabet_for(1);
        let prefix: Vec<Rpc> = vec![a0[0].clone(), a1[0].clone(), a0[2].clone(), a1[2].clone(), a0[22].clone(), a0[8].clone(), a1[8].clone()];
        let pdepth = if tier == "thorough" { 3 } else { 2 };
        let c = cfg("euclidean");
        let mut memo: HashMap<String, (Vec<Value>, Vec<Value>)> = HashMap::new();
        for (si, s) in sequences(alpha.len(), pdepth, &[]).into_iter().enumerate() {
            if si % wn != wi {
                continue;
            }
            let mut seq = prefix.clone();
            seq.extend(s.iter().map(|&i| alpha[i].clone()));
            check_sequence(&rt, &c, &seq, &mut memo, &mut st);
        }
    }
    // namespace clause (one tenant, reference model of document namespaces)
    {
        let na = ns_alphabet();
        let nd = if tier == "thorough" { 4 } else { 3 };
        let c = cfg("euclidean");
        for (si, s) in sequences(na.len(), nd, &[]).into_iter().enumerate() {
            if si % wn != wi {
                continue;
            }
            let seq: Vec<Rpc> = s.iter().map(|&i| na[i].clone()).collect();
            let before = st.sequences;
            ns_check_sequence(&rt, &c, &seq, &mut st);
            ns_sequences += st.sequences - before;
        }
    }
    // tenant index mapping: every sequence of up to 3 server starts over a family of API-key
    // sets (tenants with one or two keys, tenants added later): distinct tenants never share an
    // index and a tenant's index never changes across restarts
    if wi == 0 {
        let families: Vec<Vec<&str>> = vec![vec!["a"], vec!["a", "b"], vec!["a", "a", "b"], vec!["b", "a", "c"], vec!["a", "a", "b", "b", "c"], vec!["c"], vec!["a", "b", "c", "d"], vec!["d", "d"]];
        let scratch = vcore::Scratch::new("c10map");
        let mut n = 0u64;
        for len in 1..=3usize {
            for s in sequences(families.len(), len, &[]) {
                n += 1;
                let dir = scratch.path.join("m");
                let _ = std::fs::remove_dir_all(&dir);
                std::fs::create_dir_all(&dir).unwrap();
                let starts: Vec<Vec<String>> = s.iter().map(|i| families[*i].iter().map(|x| x.to_string()).collect()).collect();
                match tenant_map_history(&dir, &starts) {
                    Err(e) => st.viol.push(("C10|tenant-index-map|start-fails".into(), json!({"starts": starts, "detail": e}))),
                    Ok(hist) => {
                        let mut seen: BTreeMap<String, u32> = BTreeMap::new();
                        for (k, m) in hist.iter().enumerate() {
                            let mut by_idx: BTreeMap<u32, &String> = BTreeMap::new();
                            for (t, i) in m {
                                if let Some(other) = by_idx.insert(*i, t) {
                                    st.viol.push(("C10|tenant-index-map|two-tenants-share-an-index".into(), json!({"engine":"srvmc","check":"C10","starts": starts, "detail": format!("after start {k}: tenants {other} and {t} both map to index {i}: {m:?}")})));
                                }
                                if let Some(prev) = seen.get(t) {
                                    if prev != i {
                                        st.viol.push(("C10|tenant-index-map|index-changes-across-restart".into(), json!({"engine":"srvmc","check":"C10","starts": starts, "detail": format!("tenant {t}: index {prev} then {i}")})));
                                    }
                                }
                                seen.insert(t.clone(), *i);
                            }
                        }
                    }
                }
            }
        }
        st.projections += 0;
        st.calls += n;
    }
    // direct: a request without tenant context is refused; usage scope=all needs admin
    let c = cfg("euclidean");
    let srv = build(&c);
    let r = rt.block_on(call(&srv, &Rpc::NoTenantQuery { id: 1 }));
    if r.get("status").and_then(|x| x.as_str()) != Some("Unauthenticated") {
        st.viol.push(("C10|request-without-tenant-context-served".into(), json!({"response": r})));
    }
    let (s1, _) = rt.block_on(usage(&srv, Some(("tenant_a".into(), false)), Some("all".into())));
    if s1 == 200 {
        st.viol.push(("C10|usage-scope-all-served-to-non-admin".into(), json!({"status": s1})));
    }
    let (s2, _) = rt.block_on(usage(&srv, None, None));
    if s2 == 200 {
        st.viol.push(("C10|usage-served-without-requester".into(), json!({"status": s2})));
    }
    vcore::par::worker_emit(&json!({"ns_sequences":ns_sequences,"sequences":st.sequences,"calls":st.calls,"projections":st.projections,"compared":st.compared,"interfering":st.interfering_sequences,"tie_swaps":st.tie_swaps,
        "states":st.states.iter().collect::<Vec<_>>(),"violations":st.viol.to_json()}));
}


// ------------------------------------------------------------------------------------------
// Namespace clause: "The server-owned tenant and namespace metadata keys can be neither set nor
// seen by clients, a namespace selector never matches documents of another namespace."
// One tenant, every sequence over a write alphabet that moves documents between namespaces,
// spoofs the reserved keys through every write RPC, and uses selectors on updates and deletes;
// after every step the full selector x id grid is probed against a reference model.
// ------------------------------------------------------------------------------------------
pub fn ns_alphabet() -> Vec<Rpc> {
    let t = 0usize;
    let v1 = [1.0f32, 0.0];
    let v2 = [0.0f32, 1.0];
    let kv = |k: &str, v: &str| (k.to_string(), v.to_string());
    let it = |id: u64, v: [f32; 2], ns: &str, spoof: Option<&str>| {
        let mut m = vec![kv("k", "a")];
        if let Some(sp) = spoof {
            m.push(kv("__namespace__", sp));
            m.push(kv("__tenant_idx__", "2"));
        }
        Item { id, v: v.to_vec(), m, ns: ns.into() }
    };
    vec![
        Rpc::Insert { t, item: it(1, v1, "", None) },
        Rpc::Insert { t, item: it(1, v2, "n", Some("m")) },
        Rpc::Insert { t, item: it(2, v1, "m", None) },
        Rpc::Insert { t, item: it(2, v2, "", Some("n")) },
        Rpc::BulkInsert { t, items: vec![it(1, v1, "", Some("n")), it(2, v2, "n", None)] },
        Rpc::BulkLoad { t, items: vec![it(2, v2, "n", Some("m")), it(1, v1, "", None)] },
        Rpc::UpdateMetadata { t, id: 1, m: vec![kv("__namespace__", "n"), kv("u", "1")], merge: true, ns: "".into() },
        Rpc::UpdateMetadata { t, id: 1, m: vec![kv("__namespace__", "m"), kv("k", "z")], merge: false, ns: "".into() },
        Rpc::UpdateMetadata { t, id: 2, m: vec![], merge: false, ns: "".into() },
        Rpc::UpdateMetadata { t, id: 2, m: vec![kv("__namespace__", "n")], merge: false, ns: "".into() },
        Rpc::UpdateMetadata { t, id: 1, m: vec![kv("w", "1")], merge: true, ns: "n".into() },
        Rpc::Delete { t, id: 1, ns: "n".into() },
        Rpc::Delete { t, id: 2, ns: "".into() },
        Rpc::BatchDeleteIds { t, ids: vec![1, 2, 1], ns: "m".into() },
        Rpc::BatchDeleteFilter { t, flt: Flt::Not(Box::new(Flt::Exact("k".into(), "zzz".into()))), ns: "n".into() },
        Rpc::Flush { t },
    ]
}

type NsModel = BTreeMap<u64, (String, BTreeMap<String, String>)>;

fn ns_apply(model: &mut NsModel, r: &Rpc) {
    let user = |m: &Vec<(String, String)>| -> BTreeMap<String, String> { m.iter().filter(|(k, _)| !RESERVED.contains(&k.as_str())).cloned().collect() };
    let sel = |ns: &str, doc_ns: &str| ns.is_empty() || ns == doc_ns;
    match r {
        Rpc::Insert { item, .. } => {
            model.insert(item.id, (item.ns.clone(), user(&item.m)));
        }
        Rpc::BulkInsert { items, .. } | Rpc::BulkLoad { items, .. } => {
            for item in items {
                model.insert(item.id, (item.ns.clone(), user(&item.m)));
            }
        }
        Rpc::UpdateMetadata { id, m, merge, ns, .. } => {
            if let Some((doc_ns, meta)) = model.get_mut(id) {
                if sel(ns, doc_ns) {
                    if *merge {
                        meta.extend(user(m));
                    } else {
                        *meta = user(m);
                    }
                }
            }
        }
        Rpc::Delete { id, ns, .. } => {
            if model.get(id).map(|(d, _)| sel(ns, d)).unwrap_or(false) {
                model.remove(id);
            }
        }
        Rpc::BatchDeleteIds { ids, ns, .. } => {
            for id in ids {
                if model.get(id).map(|(d, _)| sel(ns, d)).unwrap_or(false) {
                    model.remove(id);
                }
            }
        }
        Rpc::BatchDeleteFilter { ns, .. } => {
            // the only filter in this alphabet matches every document of the tenant
            model.retain(|_, (d, _)| !sel(ns, d));
        }
        _ => {}
    }
}

/// Probe the selector x id grid; returns the first discrepancy.
fn ns_probe(rt: &tokio::runtime::Runtime, srv: &Srv, model: &NsModel, calls: &mut u64) -> Option<(String, String)> {
    let t = 0usize;
    for sel in ["", "n", "m", "stolen"] {
        let want: BTreeSet<u64> = model.iter().filter(|(_, (d, _))| sel.is_empty() || d == sel).map(|(id, _)| *id).collect();
        for id in [1u64, 2] {
            *calls += 1;
            let r = rt.block_on(call(srv, &Rpc::Query { t, id, emb: false, ns: sel.into() }));
            let found = r.get("found").and_then(|x| x.as_bool()).unwrap_or(false);
            if found != want.contains(&id) {
                return Some((if found { "namespace-selector-matches-foreign-document" } else { "namespace-selector-misses-own-document" }.into(), format!("Query(id {id}, namespace {sel:?}): found={found}, model: document namespaces {:?}", model.iter().map(|(i, (d, _))| (*i, d.clone())).collect::<Vec<_>>())));
            }
            if found {
                let got: BTreeMap<String, String> = r["metadata"].as_array().map(|a| a.iter().filter_map(|kv| Some((kv.get(0)?.as_str()?.to_string(), kv.get(1)?.as_str()?.to_string()))).collect()).unwrap_or_default();
                if let Some(k) = got.keys().find(|k| RESERVED.contains(&k.as_str())) {
                    return Some(("reserved-key-visible".into(), format!("Query(id {id}, namespace {sel:?}) returned reserved key {k}")));
                }
                if got != model[&id].1 {
                    return Some(("metadata-differs-from-model".into(), format!("Query(id {id}, namespace {sel:?}) metadata {got:?}, model {:?}", model[&id].1)));
                }
            }
        }
        *calls += 1;
        let r = rt.block_on(call(srv, &Rpc::BulkQuery { t, ids: vec![1, 2], emb: false, ns: sel.into() }));
        if let Some(items) = r["results"].as_array() {
            for (i, it) in items.iter().enumerate() {
                let id = [1u64, 2][i.min(1)];
                let found = it.get("found").and_then(|x| x.as_bool()).unwrap_or(false);
                if found != want.contains(&id) {
                    return Some((if found { "namespace-selector-matches-foreign-document" } else { "namespace-selector-misses-own-document" }.into(), format!("BulkQuery([1,2], namespace {sel:?}) item {i}: found={found}, model namespaces {:?}", model.iter().map(|(i, (d, _))| (*i, d.clone())).collect::<Vec<_>>())));
                }
            }
        }
        *calls += 1;
        let r = rt.block_on(call(srv, &Rpc::Search { t, q: vec![0.6, 0.8], k: 10, ns: sel.into(), flt: Flt::None, legacy: vec![], emb: false, ef: 0 }));
        if let Some(items) = r["results"].as_array() {
            let got: BTreeSet<u64> = items.iter().filter_map(|x| x["doc_id"].as_u64()).collect();
            if got != want {
                let foreign = got.iter().any(|g| !want.contains(g));
                return Some((if foreign { "namespace-selector-matches-foreign-document" } else { "namespace-selector-misses-own-document" }.into(), format!("Search(namespace {sel:?}) returned ids {got:?}, model says {want:?}")));
            }
            let mut bad = Vec::new();
            scan_reserved_and_ids(&r, &mut bad);
            if let Some(b) = bad.first() {
                return Some(("reserved-key-visible".into(), format!("Search(namespace {sel:?}): {b}")));
            }
        }
    }
    None
}

pub fn ns_check_sequence(rt: &tokio::runtime::Runtime, c: &DriverCfg, seq: &[Rpc], st: &mut Stats) {
    let srv = build(c);
    let mut model = NsModel::new();
    st.sequences += 1;
    for (i, r) in seq.iter().enumerate() {
        st.calls += 1;
        let resp = rt.block_on(call(&srv, r));
        if resp.get("status").is_some() {
            st.viol.push((format!("C10|namespace|write-refused|{}", rpc_kind(r)), json!({"engine":"srvmc","check":"C10","section":"namespace","cfg":c,"sequence":seq,"detail":format!("step {i}: {resp}")})));
            return;
        }
        ns_apply(&mut model, r);
        let mut calls = 0u64;
        let bad = ns_probe(rt, &srv, &model, &mut calls);
        st.calls += calls;
        st.compared += calls;
        if let Some((sym, detail)) = bad {
            st.viol.push((format!("C10|namespace|{sym}|after-{}", rpc_kind(r)), json!({"engine":"srvmc","check":"C10","section":"namespace","cfg":c,"sequence":seq,"detail":format!("after step {i} ({}): {detail}", rpc_kind(r))})));
            return;
        }
    }
}

pub fn run(tier: &str, replay: Option<&str>) -> i32 {
    if let Some(p) = replay {
        let v: Value = serde_json::from_str(&std::fs::read_to_string(p).expect("read")).expect("json");
        if v["case"]["check"] == "C10S" {
            let sig = v["signature"].as_str().unwrap_or("").to_string();
            return match crate::realbin::run_slice("C10S", tier) {
                Ok(r) => {
                    if r["violations"].as_array().map(|a| a.iter().any(|x| x["sig"] == sig.as_str())).unwrap_or(false) {
                        println!("replay: reproduced {sig}");
                        println!("VIOLATION property=C10 replay={p}");
                        1
                    } else {
                        println!("replay: no violation with signature {sig}");
                        0
                    }
                }
                Err(e) => {
                    eprintln!("machinery error: {e}");
                    2
                }
            };
        }
        let c: DriverCfg = serde_json::from_value(v["case"]["cfg"].clone()).unwrap();
        let seq: Vec<Rpc> = serde_json::from_value(v["case"]["sequence"].clone()).unwrap();
        let rt = tokio::runtime::Builder::new_multi_thread().worker_threads(1).enable_all().build().unwrap();
        let mut st = Stats::default();
        let mut memo = HashMap::new();
        if v["case"]["section"] == "namespace" {
            ns_check_sequence(&rt, &c, &seq, &mut st);
        } else {
            check_sequence(&rt, &c, &seq, &mut memo, &mut st);
        }
        if let Some((s, r)) = st.viol.any_first() {
            println!("replay: reproduced {s}: {}", r["detail"]);
            println!("VIOLATION property=C10 replay={p}");
            return 1;
        }
        println!("replay: no violation");
        return 0;
    }
    if let Some((i, n)) = vcore::par::worker_id() {
        worker(i, n, tier);
        return 0;
    }
    let res = vcore::par::run_workers(vcore::par::jobs(), &[]);
    let mut ev = vcore::evidence::Evidence::new("C10", tier, "model_checking");
    let mut rep = vcore::findings::Reporter::new("C10");
    let mut tot: BTreeMap<&str, u64> = BTreeMap::new();
    let mut states: BTreeSet<u64> = BTreeSet::new();
    for r in &res {
        for k in ["sequences", "calls", "projections", "compared", "interfering", "tie_swaps", "ns_sequences"] {
            *tot.entry(k).or_insert(0) += r[k].as_u64().unwrap_or(0);
        }
        for s in r["states"].as_array().unwrap() {
            states.insert(s.as_u64().unwrap());
        }
        rep.report_bag(&r["violations"]);
    }
    let depth: usize = std::env::var("C10_DEPTH").ok().and_then(|s| s.parse().ok()).unwrap_or(if tier == "thorough" { 4 } else { 3 });
    let n = alphabet().len();
    ev.set("states", states.len() as u64);
    ev.set("transitions", tot["calls"]);
    ev.set("traces_validated_against_impl", tot["sequences"]);
    ev.set("evaluations", tot["sequences"]);
    ev.set("distinct_nontrivial", tot["compared"]);
    ev.set("rule", format!("all {n}^{depth} sequences over a {n}-letter alphabet (23 RPC forms x 2 tenants: Insert incl. spoofed reserved keys and namespace, BulkInsert, BulkLoadHnsw, Query, BulkQuery, Search with k 1/2, namespace, hostile filters naming the other tenant's reserved key / NOT / OR / legacy metadata_filters, BulkSearch, UpdateMetadata merge and replace-with-spoof, Delete, BatchDelete by ids and by filters that match everything or name the other tenant, FlushHotTier) on the real in-process handlers with auth on, colliding local ids {{1,2}} and identical vectors, from the empty server and (depth 2, thorough 3) from a populated one (both tenants hold ids 1,2, drained, one cached search each); oracle: for each tenant, its responses must be identical when the other tenant's requests are deleted from the sequence (projection run on a fresh server), plus no reserved key and no global id in any response, per-tenant /usage unchanged by the other tenant, scope=all refused to non-admin, request without tenant context refused; plus every sequence of <= 3 server starts over 8 API-key sets (multi-key tenants, tenants added later) through the real TenantIdMapper: indices injective and stable. states = distinct response vectors; non-trivial = observer responses compared against a projection"));
    ev.set("namespace_section", json!({"sequences": tot["ns_sequences"], "alphabet": ns_alphabet().len(), "depth": if tier == "thorough" { 4 } else { 3 },
        "rule": "one tenant; every sequence over 16 write letters (Insert / BulkInsert / BulkLoadHnsw that move ids 1,2 between namespaces '', 'n', 'm' while spoofing __namespace__ / __tenant_idx__ in the metadata, UpdateMetadata merge / replace / replace-with-empty carrying a spoofed __namespace__ on documents with and without a namespace, UpdateMetadata / Delete / BatchDelete(ids) / BatchDelete(filter) with a namespace selector, FlushHotTier); after every step Query and BulkQuery for ids {1,2} and Search under selectors {'', 'n', 'm', 'stolen'} must match exactly the documents whose LAST WRITE carried that namespace (reference model), return the model's user metadata, and show no reserved key"}));
    ev.set("samples", json!([alphabet()[1], alphabet()[11], alphabet()[21]]));
    ev.set("exhaustive", true);
    ev.set("projection_runs", tot["projections"]);
    ev.set("sequences_with_interference", tot["interfering"]);
    ev.set("search_responses_differing_only_in_which_exactly_tied_own_document_is_returned", tot["tie_swaps"]);
    ev.assume("a search response that differs from the projection run only in WHICH of the observer's own exactly tied documents is returned (same scores, same counts, own content) is not interference: tie-breaking is not among the channels the statement lists");
    ev.assume("the API-key interceptor lives in main(); the in-process driver attaches the TenantContext the interceptor would attach; the interceptor itself, the persistent tenant map and the restart are exercised by the server-level slice (real binary, auth on): {no key, unknown, disabled, empty, Bearer unknown} x 9 RPCs => UNAUTHENTICATED; two tenants (one with two keys) with identical local ids and vectors see only their own documents through Query / BulkQuery / Search before and after two restarts, with a tenant added in between");
    ev.assume("search latency, execution path and the flush count (process-wide aggregates) are not compared");
    // server-level slice through the real binary (auth interceptor, tenant map, start-up recount)
    match crate::realbin::run_slice("C10S", tier) {
        Ok(v) => {
            rep.report_bag(&crate::realbin::violations_with_prefix(&v, "C10|"));
            ev.set("server_slice_launches_of_the_real_binary", v["launches"].clone());
            ev.set("server_slice_checks", v["checks"].clone());
        }
        Err(e) => {
            eprintln!("C10: machinery error in the server-level slice: {e}");
            return 2;
        }
    }
    ev.violations = rep.violations as i64;
    ev.write();
    println!("C10 {tier}: sequences={} calls={} projections={} compared={} interfering={} states={} violations={}", tot["sequences"], tot["calls"], tot["projections"], tot["compared"], tot["interfering"], states.len(), rep.violations);
    rep.finish()
}
