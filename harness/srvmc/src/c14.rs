//! C14 — tenant vector quotas are exact: the server's counter equals the tenant's live documents
//! after any sequence of write RPCs (incl. rejected ones, duplicates, restarts) and after every
//! schedule of two concurrent RPCs on the same id.

use crate::explore::{explore, ExploreCfg};
use crate::server::verif_driver::*;
use parking_lot::sched::{Body, Outcome};
use serde_json::{json, Value};
use std::collections::{BTreeMap, BTreeSet};
use std::sync::Arc;
use vcore::exec::sequences;
use vcore::findings::SigBag;

const LIMIT: usize = 2;

const SHAPE_LIMIT: usize = 3;

fn cfg(persistent: Option<String>) -> DriverCfg {
    cfg_l(persistent, LIMIT)
}

fn cfg_l(persistent: Option<String>, limit: usize) -> DriverCfg {
    DriverCfg { dim: 2, metric: "euclidean".into(), auth: true, data_dir: persistent, hnsw_capacity: if limit > 1000 { limit + 64 } else { 64 }, snapshot_interval: 3, tenants: vec![("tenant_q".into(), 7, limit)] }
}

fn it(id: u64, v: [f32; 2]) -> Item {
    Item { id, v: v.to_vec(), m: vec![("k".into(), "v".into())], ns: "".into() }
}

pub fn alphabet() -> Vec<Rpc> {
    vec![
        Rpc::Insert { t: 0, item: it(1, [1.0, 0.0]) },
        Rpc::Insert { t: 0, item: it(2, [0.0, 1.0]) },
        Rpc::Insert { t: 0, item: it(3, [1.0, 1.0]) },
        Rpc::Insert { t: 0, item: Item { id: 3, v: vec![f32::NAN, 0.0], m: vec![], ns: "".into() } },
        Rpc::Insert { t: 0, item: Item { id: 1, v: vec![1.0], m: vec![], ns: "".into() } },
        Rpc::Delete { t: 0, id: 1, ns: "".into() },
        Rpc::Delete { t: 0, id: 3, ns: "".into() },
        Rpc::BatchDeleteIds { t: 0, ids: vec![1, 1, 2], ns: "".into() },
        Rpc::BatchDeleteFilter { t: 0, flt: Flt::Exact("k".into(), "v".into()), ns: "".into() },
        Rpc::BulkInsert { t: 0, items: vec![it(1, [2.0, 0.0]), Item { id: 2, v: vec![f32::INFINITY, 0.0], m: vec![], ns: "".into() }] },
        Rpc::BulkInsert { t: 0, items: vec![it(2, [2.0, 2.0]), it(3, [3.0, 3.0])] },
        Rpc::BulkLoad { t: 0, items: vec![it(3, [4.0, 4.0]), it(3, [5.0, 5.0])] },
        Rpc::BulkLoad { t: 0, items: vec![it(1, [6.0, 6.0]), it(2, [7.0, 7.0]), it(3, [8.0, 8.0])] },
        Rpc::UpdateMetadata { t: 0, id: 1, m: vec![("k".into(), "w".into())], merge: false, ns: "".into() },
        Rpc::Flush { t: 0 },
        Rpc::Restart,
    ]
}

/// Request-shape section: every id list of length <= 3 over {1,2,3,9} (9 is never live) — so every
/// pattern of adjacent / non-adjacent repeats, present / absent ids — as BatchDelete(ids), BulkInsert
/// and BulkLoadHnsw, from every reachable population of <= LIMIT documents, followed by a refill
/// (Insert 1,2,3,4) that probes the limit with whatever counter the list RPC left behind.
pub fn shape_sequences() -> Vec<Vec<Rpc>> {
    let ids = [1u64, 2, 3, 9];
    let mut lists: Vec<Vec<u64>> = Vec::new();
    for a in ids {
        lists.push(vec![a]);
        for b in ids {
            lists.push(vec![a, b]);
            for c in ids {
                lists.push(vec![a, b, c]);
            }
        }
    }
    let pops: Vec<Vec<u64>> = vec![vec![], vec![1], vec![2], vec![3], vec![1, 2], vec![1, 3], vec![2, 3], vec![1, 2, 3]];
    let mut out = Vec::new();
    for pop in &pops {
        for l in &lists {
            for kind in 0..3 {
                let mut seq: Vec<Rpc> = pop.iter().map(|&i| Rpc::Insert { t: 0, item: it(i, [i as f32, 0.5]) }).collect();
                let items: Vec<Item> = l.iter().enumerate().map(|(j, &i)| it(i, [i as f32 + 10.0, j as f32])).collect();
                seq.push(match kind {
                    0 => Rpc::BatchDeleteIds { t: 0, ids: l.clone(), ns: "".into() },
                    1 => Rpc::BulkInsert { t: 0, items },
                    _ => Rpc::BulkLoad { t: 0, items },
                });
                for i in [1u64, 2, 3, 4] {
                    seq.push(Rpc::Insert { t: 0, item: it(i, [i as f32, 7.0]) });
                }
                out.push(seq);
            }
        }
    }
    // bulk streams mixing valid and REJECTED items (wrong dimension): every list of length <= 3
    // over ids {1,2,3} x {valid, rejected}. A rejected new id must give its reserved slot back
    // even when the same batch also overwrites a document or repeats an id.
    let mut mixed: Vec<Vec<(u64, bool)>> = Vec::new();
    let atoms: Vec<(u64, bool)> = [1u64, 2, 3].iter().flat_map(|&i| [(i, true), (i, false)]).collect();
    for &a in &atoms {
        mixed.push(vec![a]);
        for &b in &atoms {
            mixed.push(vec![a, b]);
            for &c in &atoms {
                mixed.push(vec![a, b, c]);
            }
        }
    }
    for pop in &pops {
        for l in &mixed {
            if l.iter().all(|x| x.1) {
                continue; // all-valid lists are covered above
            }
            for kind in 1..3 {
                let mut seq: Vec<Rpc> = pop.iter().map(|&i| Rpc::Insert { t: 0, item: it(i, [i as f32, 0.5]) }).collect();
                let items: Vec<Item> = l
                    .iter()
                    .enumerate()
                    .map(|(j, &(i, valid))| if valid { it(i, [i as f32 + 10.0, j as f32]) } else { Item { id: i, v: vec![1.0, 2.0, 3.0], m: vec![], ns: "".into() } })
                    .collect();
                seq.push(if kind == 1 { Rpc::BulkInsert { t: 0, items } } else { Rpc::BulkLoad { t: 0, items } });
                for i in [1u64, 2, 3, 4] {
                    seq.push(Rpc::Insert { t: 0, item: it(i, [i as f32, 7.0]) });
                }
                out.push(seq);
            }
        }
    }
    out
}

/// Full-batch section: BulkLoadHnsw ingests in chunks of 10,000 validated documents INSIDE its
/// receive loop and handles the remainder at end of stream — two copies of the reserve / load /
/// release logic. Streams of <= 3 items only ever reach the second copy, so every mixed
/// valid / rejected prefix of length <= 2 over ids {1,2,3} is also sent at the head of a stream
/// of 10,000 fillers plus two trailing items (max_vectors = FULL_LIMIT), from three populations,
/// followed by inserts that walk up to the limit.
const FULL_LIMIT: usize = 10_008;
pub fn full_batch_sequences() -> Vec<Vec<Rpc>> {
    let atoms: Vec<(u64, bool)> = [1u64, 2, 3].iter().flat_map(|&i| [(i, true), (i, false)]).collect();
    let mut prefixes: Vec<Vec<(u64, bool)>> = vec![vec![]];
    for &a in &atoms {
        prefixes.push(vec![a]);
        for &b in &atoms {
            prefixes.push(vec![a, b]);
        }
    }
    let mk = |(i, valid): (u64, bool), j: usize| if valid { it(i, [i as f32 + 10.0, j as f32]) } else { Item { id: i, v: vec![1.0, 2.0, 3.0], m: vec![], ns: "".into() } };
    let pops: Vec<Vec<u64>> = vec![vec![], vec![1], vec![1, 2]];
    let mut out = Vec::new();
    for pop in &pops {
        for pre in &prefixes {
            let mut seq: Vec<Rpc> = pop.iter().map(|&i| Rpc::Insert { t: 0, item: it(i, [i as f32, 0.5]) }).collect();
            let mut items: Vec<Item> = pre.iter().enumerate().map(|(j, a)| mk(*a, j)).collect();
            for f in 0..10_000u64 {
                items.push(it(100 + f, [((f % 97) as f32) * 0.01 + 1.0, ((f / 97) as f32) * 0.01 + 1.0]));
            }
            items.push(mk((3, false), 7));
            items.push(it(50_000, [0.25, 0.75]));
            seq.push(Rpc::BulkLoad { t: 0, items });
            for i in 60_000u64..60_010 {
                seq.push(Rpc::Insert { t: 0, item: it(i, [0.5, (i - 60_000) as f32 * 0.1 + 2.0]) });
            }
            out.push(seq);
        }
    }
    out
}

#[derive(Default)]
pub struct Stats {
    pub sequences: u64,
    pub steps: u64,
    pub at_limit_steps: u64,
    pub refused_at_limit: u64,
    pub states: BTreeSet<u64>,
    pub viol: SigBag,
    pub conc_programs: u64,
    pub conc_executions: u64,
    pub conc_points: u64,
    pub conc_incomplete: u64,
}

fn kind(r: &Rpc) -> &'static str {
    match r {
        Rpc::Insert { .. } => "Insert",
        Rpc::BulkInsert { .. } => "BulkInsert",
        Rpc::BulkLoad { .. } => "BulkLoadHnsw",
        Rpc::Delete { .. } => "Delete",
        Rpc::BatchDeleteIds { .. } => "BatchDelete(ids)",
        Rpc::BatchDeleteFilter { .. } => "BatchDelete(filter)",
        Rpc::UpdateMetadata { .. } => "UpdateMetadata",
        Rpc::Flush { .. } => "FlushHotTier",
        Rpc::Restart => "Restart",
        _ => "other",
    }
}

pub fn check_sequence(rt: &tokio::runtime::Runtime, seq: &[Rpc], scratch: &vcore::Scratch, st: &mut Stats) {
    check_sequence_l(rt, seq, scratch, st, LIMIT)
}

pub fn check_sequence_l(rt: &tokio::runtime::Runtime, seq: &[Rpc], scratch: &vcore::Scratch, st: &mut Stats, limit: usize) {
    st.sequences += 1;
    let dir = scratch.path.join("d");
    let _ = std::fs::remove_dir_all(&dir);
    let needs_restart = seq.iter().any(|r| matches!(r, Rpc::Restart));
    let c = cfg_l(if needs_restart { Some(dir.to_string_lossy().to_string()) } else { None }, limit);
    let mut srv = build(&c);
    let ctx = |detail: String| json!({"engine":"srvmc","check":"C14","sequence":seq,"limit":limit,"detail":detail});
    for (i, r) in seq.iter().enumerate() {
        st.steps += 1;
        let live_before = live_docs_for_tenant(&srv, 7);
        if live_before == limit {
            st.at_limit_steps += 1;
        }
        let resp = if matches!(r, Rpc::Restart) {
            match restart(srv) {
                Ok(s) => {
                    srv = s;
                    json!({"restart": true})
                }
                Err(e) => {
                    st.viol.push(("C14|restart-fails".into(), ctx(format!("step {i}: {e}"))));
                    return;
                }
            }
        } else {
            rt.block_on(call(&srv, r))
        };
        let live = live_docs_for_tenant(&srv, 7);
        let count = quota_count(&srv, 0).unwrap_or(usize::MAX);
        {
            use std::hash::{Hash, Hasher};
            let mut h = std::collections::hash_map::DefaultHasher::new();
            (format!("{:?}", census(&srv).keys().collect::<Vec<_>>()), count).hash(&mut h);
            st.states.insert(h.finish());
        }
        if count != live {
            let dir_ = if count > live { "counter-above-live" } else { "counter-below-live" };
            st.viol.push((format!("C14|sequential|{dir_}|after={}", kind(r)), ctx(format!("step {i} {}: quota counter {count}, live documents {live}; response {resp}", r.short()))));
            return;
        }
        if live > limit {
            st.viol.push((format!("C14|sequential|more-live-documents-than-limit|after={}", kind(r)), ctx(format!("step {i}: {live} live documents, limit {limit}"))));
            return;
        }
        // admission at the boundary for single valid inserts of a new id
        if let Rpc::Insert { item, .. } = r {
            let valid = item.v.len() == 2 && item.v.iter().all(|x| x.is_finite());
            if valid {
                let gid_exists_before = {
                    // was this id live before the call? (live count unchanged and response ok => overwrite)
                    resp.get("ok").and_then(|x| x.as_bool()) == Some(true) && live == live_before
                };
                let refused = resp.get("status").and_then(|x| x.as_str()) == Some("ResourceExhausted");
                if refused {
                    st.refused_at_limit += 1;
                    if live_before < limit {
                        st.viol.push(("C14|sequential|refused-below-limit".into(), ctx(format!("step {i} {}: refused although only {live_before} of {limit} live", r.short()))));
                        return;
                    }
                } else if resp.get("ok").and_then(|x| x.as_bool()) != Some(true) {
                    st.viol.push(("C14|sequential|valid-insert-failed".into(), ctx(format!("step {i} {}: {resp}", r.short()))));
                    return;
                }
                let _ = gid_exists_before;
            }
        }
    }
}

// ------------------------------------------------------------------------------------------
// concurrent pairs under the scheduler
// ------------------------------------------------------------------------------------------
fn conc_programs() -> Vec<(Vec<Rpc>, Vec<Rpc>)> {
    // (setup sequence run sequentially, the concurrent RPCs: one per thread)
    let ins1 = Rpc::Insert { t: 0, item: it(1, [1.0, 0.0]) };
    let ins1b = Rpc::Insert { t: 0, item: it(1, [9.0, 9.0]) };
    let ins2 = Rpc::Insert { t: 0, item: it(2, [0.0, 1.0]) };
    let ins3 = Rpc::Insert { t: 0, item: it(3, [1.0, 1.0]) };
    let del1 = Rpc::Delete { t: 0, id: 1, ns: "".into() };
    let bd = Rpc::BatchDeleteIds { t: 0, ids: vec![1, 2], ns: "".into() };
    let bdf = Rpc::BatchDeleteFilter { t: 0, flt: Flt::Exact("k".into(), "v".into()), ns: "".into() };
    let mut v = Vec::new();
    for setup in [vec![], vec![ins1.clone()], vec![ins1.clone(), ins2.clone()]] {
        v.push((setup.clone(), vec![ins1b.clone(), del1.clone()]));
        v.push((setup.clone(), vec![ins1.clone(), ins1b.clone()]));
        v.push((setup.clone(), vec![del1.clone(), del1.clone()]));
        v.push((setup.clone(), vec![ins1b.clone(), bd.clone()]));
        v.push((setup.clone(), vec![ins3.clone(), del1.clone()]));
        v.push((setup.clone(), vec![ins3.clone(), ins2.clone()]));
        v.push((setup.clone(), vec![ins1b.clone(), bdf.clone()]));
        v.push((setup.clone(), vec![del1.clone(), bd.clone()]));
    }
    v.push((vec![ins1.clone()], vec![ins1b.clone(), del1.clone(), ins2.clone()]));
    // a drain racing a delete (the drain "repairs" a mirror whose canonical record is gone)
    let flush = Rpc::Flush { t: 0 };
    v.push((vec![ins1.clone()], vec![del1.clone(), flush.clone()]));
    v.push((vec![ins1.clone(), ins2.clone()], vec![bd.clone(), flush.clone()]));
    v
}

fn check_conc(setup: &[Rpc], conc: &[Rpc], bound: usize, st: &mut Stats) {
    st.conc_programs += 1;
    let ecfg = ExploreCfg { bound, max_execs: 30_000, ..Default::default() };
    let known = vcore::findings::Reporter::new("C14");
    let rt = tokio::runtime::Builder::new_current_thread().enable_all().build().unwrap();
    let setup_v = setup.to_vec();
    let conc_v = conc.to_vec();
    let out = explore(
        &ecfg,
        || {
            let srv = Arc::new(build(&cfg(None)));
            for r in &setup_v {
                let _ = rt.block_on(call(&srv, r));
            }
            let bodies: Vec<Body> = conc_v
                .iter()
                .map(|r| {
                    let srv = srv.clone();
                    let r = r.clone();
                    Box::new(move || {
                        let _ = call_now(&srv, &r);
                    }) as Body
                })
                .collect();
            (bodies, srv)
        },
        |res, srv, choices| {
            if res.outcome != Outcome::Completed {
                // deadlock freedom is C08's verdict; counted and reported in the evidence
                st.conc_incomplete += 1;
                return true;
            }
            let live = live_docs_for_tenant(&srv, 7);
            let count = quota_count(&srv, 0).unwrap_or(usize::MAX);
            if count != live || live > LIMIT {
                let dir_ = if live > LIMIT { "more-live-documents-than-limit" } else if count > live { "counter-above-live" } else { "counter-below-live" };
                let kinds: BTreeSet<&str> = conc_v.iter().map(kind).collect();
                st.viol.push((
                    format!("C14|concurrent|{dir_}|{}", kinds.into_iter().collect::<Vec<_>>().join("+")),
                    json!({"engine":"srvmc","check":"C14","setup":setup_v,"concurrent":conc_v,"schedule":choices,"preemptions":res.preemptions,"detail":format!("after both calls returned: quota counter {count}, live documents {live}, limit {LIMIT}")}),
                ));
                return st.viol.map.keys().all(|k| known.is_known(k));
            }
            true
        },
    );
    st.conc_executions += out.executions;
    st.conc_points += out.points;
}

pub fn worker(wi: usize, wn: usize, tier: &str) {
    let depth: usize = std::env::var("C14_DEPTH").ok().and_then(|s| s.parse().ok()).unwrap_or(if tier == "thorough" { 5 } else { 3 });
    let bound: usize = if tier == "thorough" { 3 } else { 1 };
    let rt = tokio::runtime::Builder::new_multi_thread().worker_threads(1).max_blocking_threads(2).enable_all().build().unwrap();
    let scratch = vcore::Scratch::new(&format!("c14w{wi}"));
    let alpha = alphabet();
    let mut st = Stats::default();
    let mut idx = 0usize;
    for first in 0..alpha.len() {
        for second in 0..alpha.len() {
            idx += 1;
            if idx % wn != wi {
                continue;
            }
            for s in sequences(alpha.len(), depth, &[first, second]) {
                let seq: Vec<Rpc> = s.iter().map(|&i| alpha[i].clone()).collect();
                check_sequence(&rt, &seq, &scratch, &mut st);
            }
        }
    }
    let mut shapes = 0u64;
    for (i, seq) in shape_sequences().iter().enumerate() {
        if i % wn != wi {
            continue;
        }
        shapes += 1;
        check_sequence_l(&rt, seq, &scratch, &mut st, SHAPE_LIMIT);
    }
    let mut full_batches = 0u64;
    for (i, seq) in full_batch_sequences().iter().enumerate() {
        if i % wn != wi {
            continue;
        }
        full_batches += 1;
        check_sequence_l(&rt, seq, &scratch, &mut st, FULL_LIMIT);
    }
    drop(rt);
    for (i, (setup, conc)) in conc_programs().iter().enumerate() {
        if i % wn != wi {
            continue;
        }
        check_conc(setup, conc, bound, &mut st);
    }
    vcore::par::worker_emit(&json!({"sequences":st.sequences,"steps":st.steps,"at_limit":st.at_limit_steps,"refused":st.refused_at_limit,"states":st.states.iter().collect::<Vec<_>>(),
        "shapes":shapes,"full_batches":full_batches,"conc_programs":st.conc_programs,"conc_executions":st.conc_executions,"conc_points":st.conc_points,"conc_incomplete":st.conc_incomplete,"violations":st.viol.to_json()}));
}

pub fn run(tier: &str, replay: Option<&str>) -> i32 {
    if let Some(p) = replay {
        let v: Value = serde_json::from_str(&std::fs::read_to_string(p).expect("read")).expect("json");
        if v["case"]["check"] == "C10S" {
            let sig = v["signature"].as_str().unwrap_or("").to_string();
            return match crate::realbin::run_slice("C10S", tier) {
                Ok(r) => {
                    if r["violations"].as_array().map(|a| a.iter().any(|x| x["sig"] == sig.as_str())).unwrap_or(false) {
                        println!("replay: reproduced {sig}");
                        println!("VIOLATION property=C14 replay={p}");
                        1
                    } else {
                        println!("replay: no violation with signature {sig}");
                        0
                    }
                }
                Err(e) => {
                    eprintln!("machinery error: {e}");
                    2
                }
            };
        }
        let c = &v["case"];
        let mut st = Stats::default();
        if c.get("sequence").is_some() {
            let seq: Vec<Rpc> = serde_json::from_value(c["sequence"].clone()).unwrap();
            let rt = tokio::runtime::Builder::new_multi_thread().worker_threads(1).enable_all().build().unwrap();
            let scratch = vcore::Scratch::new("c14replay");
            let limit = c["limit"].as_u64().unwrap_or(LIMIT as u64) as usize;
            check_sequence_l(&rt, &seq, &scratch, &mut st, limit);
        } else {
            let setup: Vec<Rpc> = serde_json::from_value(c["setup"].clone()).unwrap();
            let conc: Vec<Rpc> = serde_json::from_value(c["concurrent"].clone()).unwrap();
            check_conc(&setup, &conc, 2, &mut st);
        }
        if let Some((s, r)) = st.viol.any_first() {
            println!("replay: reproduced {s}: {}", r["detail"]);
            println!("VIOLATION property=C14 replay={p}");
            return 1;
        }
        println!("replay: no violation");
        return 0;
    }
    if let Some((i, n)) = vcore::par::worker_id() {
        worker(i, n, tier);
        return 0;
    }
    let res = vcore::par::run_workers(vcore::par::jobs(), &[]);
    let mut ev = vcore::evidence::Evidence::new("C14", tier, "model_checking");
    let mut rep = vcore::findings::Reporter::new("C14");
    let mut tot: BTreeMap<&str, u64> = BTreeMap::new();
    let mut states: BTreeSet<u64> = BTreeSet::new();
    for r in &res {
        for k in ["sequences", "steps", "at_limit", "refused", "shapes", "full_batches", "conc_incomplete", "conc_programs", "conc_executions", "conc_points"] {
            *tot.entry(k).or_insert(0) += r[k].as_u64().unwrap_or(0);
        }
        for s in r["states"].as_array().unwrap() {
            states.insert(s.as_u64().unwrap());
        }
        rep.report_bag(&r["violations"]);
    }
    let depth: usize = std::env::var("C14_DEPTH").ok().and_then(|s| s.parse().ok()).unwrap_or(if tier == "thorough" { 5 } else { 3 });
    let n = alphabet().len();
    ev.set("states", states.len() as u64);
    ev.set("transitions", tot["steps"] + tot["conc_points"]);
    ev.set("traces_validated_against_impl", tot["sequences"] + tot["conc_executions"]);
    ev.set("evaluations", tot["sequences"] + tot["conc_executions"]);
    ev.set("distinct_nontrivial", tot["at_limit"]);
    ev.set("rule", format!("sequential: all {n}^{depth} sequences of one tenant (max_vectors = {LIMIT}, local ids 1-3) over Insert new / duplicate / NaN / wrong dimension, Delete present / absent, BatchDelete with duplicate ids and by filter, BulkInsert with a rejected item and across the limit, BulkLoadHnsw with an in-batch duplicate and over the limit, UpdateMetadata, FlushHotTier, Restart (persistent engine + the start-up recount); after EVERY step the server's counter (read through the child module) must equal the live documents carrying the tenant index, never exceed the limit, and a valid Insert of a new id is RESOURCE_EXHAUSTED only at the limit. request shapes: every id list of length <= 3 over {{1,2,3,absent}} (all adjacent / non-adjacent repeat patterns) as BatchDelete(ids), BulkInsert and BulkLoadHnsw from each of the 8 populations of <= {SHAPE_LIMIT} documents (max_vectors = {SHAPE_LIMIT} there, so that a counter driven below the live count is not masked by saturation at zero), followed by a refill Insert 1,2,3,4, same per-step oracle; and every bulk stream of length <= 3 over ids {{1,2,3}} x {{valid, rejected (wrong dimension)}} with at least one rejected item, as BulkInsert and BulkLoadHnsw, from the same populations; full-batch section: every mixed valid / rejected prefix of length <= 2 at the head of a BulkLoadHnsw stream of 10,000 fillers + 2 trailing items (the in-loop 10,000-document chunk path AND the end-of-stream path in one request), from three populations, max_vectors = 10,008, followed by ten inserts walking up to the limit. concurrent: 25 programs of two (one of three) RPCs on the same id (insert||delete, overwrite||delete, insert||insert, delete||delete, insert||batch delete by ids/filter, inserts at the limit) from three setups, every schedule with <= 1 (quick) / 3 (thorough) preemptions under ksched; after join counter == live <= limit. non-trivial = steps executed with the tenant exactly at its limit"));
    ev.set("samples", json!([alphabet()[9], alphabet()[11], {"concurrent": ["Insert(1)", "Delete(1)"], "setup": ["Insert(1)"]}]));
    ev.set("exhaustive", true);
    ev.set("sequences", tot["sequences"]);
    ev.set("inserts_refused_at_limit", tot["refused"]);
    ev.set("request_shape_sequences", tot["shapes"]);
    ev.set("full_batch_bulk_load_streams_of_10002_plus_prefix_items", tot["full_batches"]);
    ev.set("concurrent_programs", tot["conc_programs"]);
    ev.set("concurrent_executions_not_completed", tot["conc_incomplete"]);
    ev.set("concurrent_executions", tot["conc_executions"]);
    ev.assume("server-level slice: through the real binary a tenant at max_vectors is refused (RESOURCE_EXHAUSTED), may overwrite, is admitted again after one delete and refused again after that insert — on first boot and after each of two restarts (main()'s own start-up recount)");
    ev.assume("Restart = TieredEngine::recover + a transcription of main()'s start-up recount (cold ids_for_metadata_filter(Exact __tenant_idx__) + hot-tier scan); main() itself is only reachable through the real binary");
    ev.assume("under the scheduler unary handlers run to completion with now_or_never (they contain no suspending await)");
    // server-level slice through the real binary (auth interceptor, tenant map, start-up recount)
    match crate::realbin::run_slice("C10S", tier) {
        Ok(v) => {
            rep.report_bag(&crate::realbin::violations_with_prefix(&v, "C14|"));
            ev.set("server_slice_launches_of_the_real_binary", v["launches"].clone());
            ev.set("server_slice_checks", v["checks"].clone());
        }
        Err(e) => {
            eprintln!("C14: machinery error in the server-level slice: {e}");
            return 2;
        }
    }
    ev.violations = rep.violations as i64;
    ev.write();
    println!("C14 {tier}: sequences={} steps={} at_limit={} refused={} states={} conc_programs={} conc_execs={} violations={}", tot["sequences"], tot["steps"], tot["at_limit"], tot["refused"], states.len(), tot["conc_programs"], tot["conc_executions"], rep.violations);
    rep.finish()
}
