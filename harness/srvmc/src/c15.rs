//! C15 — every request gets an answer and invalid input is refused without effect.
//! Per-RPC boundary-value cross products, singly and in streams of length <= 3 (thorough 5), on a persistent
//! server; every request additionally goes through the tower stack (panic containment layer +
//! generated server) as raw gRPC frames, together with malformed frames.

use crate::server::verif_driver::*;
use serde_json::{json, Value};
use std::collections::{BTreeMap, BTreeSet};
use vcore::findings::SigBag;

const DIM: usize = 3;
const TIDX: u64 = 5;

fn cfg(dir: Option<String>, metric: &str) -> DriverCfg {
    DriverCfg { dim: DIM, metric: metric.into(), auth: true, data_dir: dir, hnsw_capacity: 256, snapshot_interval: 5, tenants: vec![("tenant_x".into(), TIDX as u32, 10_000)] }
}

fn vectors() -> Vec<(&'static str, Vec<f32>)> {
    vec![
        ("valid", vec![0.6, 0.8, 0.0]),
        ("empty", vec![]),
        ("dim-1", vec![1.0, 0.0]),
        ("dim+1", vec![1.0, 0.0, 0.0, 0.0]),
        ("dim4097", vec![0.5; 4097]),
        ("zero", vec![0.0, 0.0, 0.0]),
        ("nan", vec![f32::NAN, 0.0, 1.0]),
        ("+inf", vec![0.0, f32::INFINITY, 0.0]),
        ("-inf", vec![f32::NEG_INFINITY, 0.0, 0.0]),
        ("1e30", vec![1e30, 1e30, 0.0]),
        ("f32max", vec![f32::MAX, 0.0, 0.0]),
        ("subnormal", vec![1e-40, 0.0, 0.0]),
    ]
}

fn ids() -> Vec<u64> {
    vec![1, 0, (1u64 << 32) - 1, 1u64 << 32, u64::MAX]
}

fn item(id: u64, v: &[f32], ns: &str, meta: u8) -> Item {
    let m = match meta {
        0 => vec![("a".to_string(), "1".to_string())],
        1 => vec![("__tenant_idx__".to_string(), "9".to_string()), ("__namespace__".to_string(), "zz".to_string())],
        _ => (0..300).map(|i| (format!("k{i}"), "v".repeat(50))).collect(),
    };
    Item { id, v: v.to_vec(), m, ns: ns.into() }
}

/// Liberal validity: what a request must satisfy to be *allowed* to take effect.
fn may_apply(it: &Item) -> bool {
    it.id >= 1 && it.id < (1u64 << 32) && it.v.len() == DIM && it.v.iter().all(|x| x.is_finite())
}

pub fn single_requests() -> Vec<(String, Rpc)> {
    let mut v: Vec<(String, Rpc)> = Vec::new();
    let long_ns: String = "n".repeat(5000);
    for (vn, vec) in vectors() {
        for id in ids() {
            for (nsn, ns) in [("", ""), ("long", long_ns.as_str())] {
                for meta in [0u8, 1, 2] {
                    if meta == 2 && (vn != "valid" || id != 1) {
                        continue;
                    }
                    v.push((format!("Insert vec={vn} id={id} ns={nsn} meta={meta}"), Rpc::Insert { t: 0, item: item(id, &vec, ns, meta) }));
                }
            }
        }
    }
    for (vn, q) in vectors() {
        for k in [1u32, 0, 1000, 1001, u32::MAX] {
            for ef in [0u32, 1, 10_000, 10_001] {
                if (k != 1 || ef != 0) && !["valid", "nan", "dim+1", "empty"].contains(&vn) {
                    continue;
                }
                v.push((format!("Search vec={vn} k={k} ef={ef}"), Rpc::Search { t: 0, q: q.clone(), k, ns: "".into(), flt: Flt::None, legacy: vec![], emb: true, ef }));
            }
        }
    }
    for (fname, flt) in [
        ("and-empty", Flt::And(vec![])),
        ("or-empty", Flt::Or(vec![])),
        ("deep-not-200", Flt::DeepNot(200)),
        ("deep-not-201", Flt::DeepNot(201)),
        ("in-10000", Flt::In("a".into(), (0..10_000).map(|i| i.to_string()).collect())),
        ("range-nan", Flt::RangeGte("a".into(), "NaN".into())),
        ("reserved", Flt::Exact("__tenant_idx__".into(), "5".into())),
    ] {
        v.push((format!("Search filter={fname}"), Rpc::Search { t: 0, q: vec![0.6, 0.8, 0.0], k: 2, ns: "".into(), flt: flt.clone(), legacy: vec![], emb: false, ef: 0 }));
        v.push((format!("Search filter={fname} ns=long"), Rpc::Search { t: 0, q: vec![0.6, 0.8, 0.0], k: 2, ns: long_ns.clone(), flt: flt.clone(), legacy: vec![("a".into(), "1".into())], emb: false, ef: 0 }));
        v.push((format!("BatchDelete filter={fname}"), Rpc::BatchDeleteFilter { t: 0, flt: Flt::And(vec![flt.clone(), Flt::Exact("a".into(), "no-such-value".into())]), ns: "".into() }));
    }
    for id in ids() {
        v.push((format!("Query id={id}"), Rpc::Query { t: 0, id, emb: true, ns: "".into() }));
        v.push((format!("Delete id={id}"), Rpc::Delete { t: 0, id, ns: long_ns.clone() }));
        v.push((format!("UpdateMetadata id={id}"), Rpc::UpdateMetadata { t: 0, id, m: vec![("__tenant_idx__".into(), "9".into()), ("b".into(), "2".into())], merge: id % 2 == 0, ns: "".into() }));
    }
    for n in [0usize, 1, 10_000, 10_001] {
        v.push((format!("BulkQuery n={n}"), Rpc::BulkQuery { t: 0, ids: (0..n as u64).map(|i| i % 7).collect(), emb: true, ns: "".into() }));
        v.push((format!("BatchDelete ids n={n}"), Rpc::BatchDeleteIds { t: 0, ids: (0..n as u64).map(|i| 500 + i % 3).collect(), ns: "".into() }));
    }
    v.push(("BatchDelete no criteria".into(), Rpc::BatchDeleteFilter { t: 0, flt: Flt::None, ns: "".into() }));
    v.push(("BulkSearch mixed".into(), Rpc::BulkSearch { t: 0, qs: vec![(vec![0.6, 0.8, 0.0], 1), (vec![f32::NAN, 0.0, 0.0], 1), (vec![1.0], 2), (vec![0.0, 1.0, 0.0], 0), (vec![0.0, 1.0, 0.0], 2)], ns: "".into(), flt: Flt::None }));
    v.push(("BulkSearch empty".into(), Rpc::BulkSearch { t: 0, qs: vec![], ns: "".into(), flt: Flt::None }));
    v
}

/// Stream item classes for BulkInsert / BulkLoadHnsw.
fn stream_items() -> Vec<(&'static str, Item)> {
    vec![
        ("valid-a", item(11, &[1.0, 0.0, 0.0], "", 0)),
        ("valid-b", item(12, &[0.0, 1.0, 0.0], "", 0)),
        ("dup-of-a", item(11, &[0.0, 0.0, 1.0], "", 0)),
        ("nan", item(13, &[f32::NAN, 0.0, 1.0], "", 0)),
        ("+inf", item(14, &[0.0, f32::INFINITY, 0.0], "", 0)),
        ("1e30", item(15, &[1e30, 1e30, 0.0], "", 0)),
        ("dim+1", item(16, &[1.0, 0.0, 0.0, 0.0], "", 0)),
        ("id0", item(0, &[1.0, 0.0, 0.0], "", 0)),
        ("id-2^32", item(1u64 << 32, &[1.0, 0.0, 0.0], "", 0)),
        // refused rows that carry the id of a VALID row of the same stream: a refused item must
        // not cancel (or replace) an accepted one
        ("nan-on-a", item(11, &[f32::NAN, 0.0, 1.0], "", 0)),
        ("dim+1-on-b", item(12, &[1.0, 0.0, 0.0, 0.0], "", 0)),
        ("zero-on-a", item(11, &[0.0, 0.0, 0.0], "", 0)),
    ]
}

#[derive(Default)]
pub struct Stats {
    pub requests: u64,
    pub refused: u64,
    pub accepted: u64,
    pub streams: u64,
    pub tower_requests: u64,
    pub tower_malformed: u64,
    pub restarts: u64,
    pub outcomes: BTreeSet<String>,
    pub viol: SigBag,
}

type Census = BTreeMap<u64, (Vec<u32>, Vec<(String, String)>)>;

fn nonfinite_in(c: &Census) -> Option<u64> {
    c.iter().find(|(_, (v, _))| v.iter().any(|b| !f32::from_bits(*b).is_finite())).map(|(k, _)| *k)
}

fn rpc_name(r: &Rpc) -> &'static str {
    match r {
        Rpc::Insert { .. } => "Insert",
        Rpc::BulkInsert { .. } => "BulkInsert",
        Rpc::BulkLoad { .. } => "BulkLoadHnsw",
        Rpc::Query { .. } => "Query",
        Rpc::BulkQuery { .. } => "BulkQuery",
        Rpc::Search { .. } => "Search",
        Rpc::BulkSearch { .. } | Rpc::BulkSearchMixed { .. } => "BulkSearch",
        Rpc::UpdateMetadata { .. } => "UpdateMetadata",
        Rpc::Delete { .. } => "Delete",
        Rpc::BatchDeleteIds { .. } | Rpc::BatchDeleteFilter { .. } => "BatchDelete",
        Rpc::Flush { .. } => "FlushHotTier",
        _ => "other",
    }
}

fn is_refusal(resp: &Value) -> bool {
    resp.get("status").is_some() || resp.get("ok").and_then(|x| x.as_bool()) == Some(false)
}

fn vec_bits(v: &[f32]) -> Vec<u32> {
    v.iter().map(|x| x.to_bits()).collect()
}

/// One request on server `srv`: answer, effect, canary.
fn check_one(rt: &tokio::runtime::Runtime, srv: &Srv, label: &str, rpc: &Rpc, metric: &str, st: &mut Stats) -> bool {
    st.requests += 1;
    let before = census(srv);
    let ctx = |detail: String| json!({"engine":"srvmc","check":"C15","request":label,"metric":metric,"detail":detail});
    let resp = std::panic::catch_unwind(std::panic::AssertUnwindSafe(|| rt.block_on(async { tokio::time::timeout(std::time::Duration::from_secs(30), call(srv, rpc)).await })));
    let resp = match resp {
        Err(_) => json!({"status": "Internal(panic contained by the tower layer)"}),
        Ok(Err(_)) => {
            st.viol.push((format!("C15|{}|no-answer-within-horizon", rpc_name(rpc)), ctx("request did not complete within 30 s".into())));
            return false;
        }
        Ok(Ok(v)) => v,
    };
    if format!("{resp}").contains("HANG") {
        st.viol.push((format!("C15|{}|stream-hang", rpc_name(rpc)), ctx(format!("{resp}"))));
        return false;
    }
    let after = census(srv);
    let refused = is_refusal(&resp);
    st.outcomes.insert(format!("{}:{}", rpc_name(rpc), resp.get("status").and_then(|x| x.as_str()).unwrap_or(if refused { "refused" } else { "ok" })));
    if let Some(id) = nonfinite_in(&after) {
        st.viol.push((format!("C15|{}|non-finite-vector-stored", rpc_name(rpc)), ctx(format!("document {id} now holds a non-finite vector; response {resp}"))));
        return false;
    }
    match rpc {
        Rpc::Insert { item, .. } => {
            if refused {
                st.refused += 1;
                if after != before {
                    st.viol.push(("C15|Insert|refused-but-collection-changed".into(), ctx(format!("response {resp}"))));
                    return false;
                }
            } else {
                st.accepted += 1;
                if !may_apply(item) {
                    st.viol.push(("C15|Insert|invalid-request-accepted".into(), ctx(format!("response {resp}"))));
                    return false;
                }
                let gid = (TIDX << 32) | item.id;
                let ok = after.get(&gid).map(|(v, _)| vcore::model::stored_matches_input(vcore::metric_from(metric), v, &item.v)).unwrap_or(false);
                let others_same = after.iter().filter(|(k, _)| **k != gid).eq(before.iter().filter(|(k, _)| **k != gid));
                if !ok || !others_same {
                    st.viol.push(("C15|Insert|accepted-but-not-stored-as-given".into(), ctx(format!("response {resp}; stored {:?}", after.get(&gid).map(|x| x.0.iter().map(|b| f32::from_bits(*b)).collect::<Vec<_>>())))));
                    return false;
                }
            }
        }
        Rpc::Query { .. } | Rpc::BulkQuery { .. } | Rpc::Search { .. } | Rpc::BulkSearch { .. } => {
            if refused {
                st.refused += 1;
            } else {
                st.accepted += 1;
            }
            if after != before {
                st.viol.push((format!("C15|{}|read-changed-collection", rpc_name(rpc)), ctx(format!("response {resp}"))));
                return false;
            }
        }
        _ => {
            if refused {
                st.refused += 1;
                if after != before {
                    st.viol.push((format!("C15|{}|refused-but-collection-changed", rpc_name(rpc)), ctx(format!("response {resp}"))));
                    return false;
                }
            } else {
                st.accepted += 1;
            }
        }
    }
    // keeps serving: a canary insert + query
    let canary = Rpc::Insert { t: 0, item: item(777, &[0.0, 0.6, 0.8], "", 0) };
    let c = rt.block_on(call(srv, &canary));
    if is_refusal(&c) {
        st.viol.push((format!("C15|{}|server-stops-serving-valid-requests", rpc_name(rpc)), ctx(format!("after the request a valid insert is answered {c}"))));
        return false;
    }
    true
}

fn check_stream(rt: &tokio::runtime::Runtime, srv: &Srv, load: bool, names: &[&str], items: &[Item], metric: &str, st: &mut Stats) -> bool {
    st.streams += 1;
    st.requests += 1;
    let before = census(srv);
    let rpc = if load { Rpc::BulkLoad { t: 0, items: items.to_vec() } } else { Rpc::BulkInsert { t: 0, items: items.to_vec() } };
    let ctx = |detail: String| json!({"engine":"srvmc","check":"C15","stream":names,"rpc":rpc_name(&rpc),"metric":metric,"detail":detail});
    let resp = match std::panic::catch_unwind(std::panic::AssertUnwindSafe(|| rt.block_on(call(srv, &rpc)))) {
        Ok(v) => v,
        Err(_) => json!({"status": "Internal(panic)"}),
    };
    let after = census(srv);
    if let Some(id) = nonfinite_in(&after) {
        st.viol.push((format!("C15|{}|non-finite-vector-stored", rpc_name(&rpc)), ctx(format!("document {id} holds a non-finite vector; response {resp}"))));
        return false;
    }
    // every subset of the allowed items, applied in order, that explains `after`
    let allowed: Vec<usize> = (0..items.len()).filter(|i| may_apply(&items[*i])).collect();
    let n_ok = resp.get("inserted").or(resp.get("loaded")).and_then(|x| x.as_u64());
    let mut explained = false;
    let mut count_mismatch: Option<(u64, usize)> = None;
    for mask in 0..(1u32 << allowed.len()) {
        let mut m: BTreeMap<u64, Vec<u32>> = before.iter().map(|(k, v)| (*k, v.0.clone())).collect();
        let mut cnt = 0;
        for (bi, idx) in allowed.iter().enumerate() {
            if mask & (1 << bi) != 0 {
                m.insert((TIDX << 32) | items[*idx].id, vec_bits(&items[*idx].v));
                cnt += 1;
            }
        }
        let same_keys = m.keys().eq(after.keys());
        let same_vecs = same_keys && m.iter().all(|(k, v)| {
            let a = &after[k].0;
            a == v || vcore::model::stored_matches_input(vcore::metric_from(metric), a, &v.iter().map(|b| f32::from_bits(*b)).collect::<Vec<_>>())
        });
        if same_vecs {
            // the number of rows the response acknowledges must be the number of rows of this
            // explanation (rows are counted individually, duplicates included): an acknowledged
            // row that is not in the collection is a lost write, whatever the totals say
            if let Some(n) = n_ok {
                if n != cnt as u64 {
                    count_mismatch = Some((n, cnt));
                    continue;
                }
            }
            explained = true;
            break;
        }
    }
    if !explained && count_mismatch.is_some() {
        let (n, cnt) = count_mismatch.unwrap();
        st.viol.push((format!("C15|{}|acknowledged-rows-not-in-collection", rpc_name(&rpc)), ctx(format!("the response acknowledges {n} rows but the collection is only explained by applying {cnt} of the valid rows: response {resp}; before {:?} after {:?}", before.keys().collect::<Vec<_>>(), after.iter().map(|(k, v)| (k, v.0.iter().map(|b| f32::from_bits(*b)).collect::<Vec<_>>())).collect::<Vec<_>>()))));
        return false;
    }
    if !explained {
        st.viol.push((format!("C15|{}|collection-not-explained-by-the-valid-items", rpc_name(&rpc)), ctx(format!("response {resp}; before {:?} after {:?}", before.keys().collect::<Vec<_>>(), after.keys().collect::<Vec<_>>()))));
        return false;
    }
    if is_refusal(&resp) && resp.get("status").is_some() && after != before {
        st.viol.push((format!("C15|{}|status-error-but-collection-changed", rpc_name(&rpc)), ctx(format!("response {resp}"))));
        return false;
    }
    true
}

/// Malformed filters on the SEARCH RPCs: every malformed filter as a unary Search, and as the
/// middle item of a BulkSearch stream [valid, malformed, valid]. Every request gets an answer:
/// the unary call returns a response or a status; the stream yields one element (response or
/// per-item status) per request, or ends with a status — it must not end cleanly with fewer
/// answers than requests. Nothing changes, and valid requests are served afterwards.
fn check_malformed_search(rt: &tokio::runtime::Runtime, name: &str, flt: &Flt, metric: &str, st: &mut Stats) {
    let srv = build(&cfg(None, metric));
    for (id, v) in [(1u64, [1.0f32, 0.0, 0.0]), (2, [0.0, 1.0, 0.0]), (3, [0.6, 0.8, 0.0])] {
        let _ = rt.block_on(call(&srv, &Rpc::Insert { t: 0, item: item(id, &v, "", 0) }));
    }
    let before = census(&srv);
    let q = vec![0.6f32, 0.8, 0.0];
    let unary = Rpc::Search { t: 0, q: q.clone(), k: 2, ns: "".into(), flt: flt.clone(), legacy: vec![], emb: false, ef: 0 };
    let stream = Rpc::BulkSearchMixed { t: 0, items: vec![(q.clone(), 2, Flt::None), (q.clone(), 2, flt.clone()), (vec![0.0, 1.0, 0.0], 1, Flt::None)] };
    for (what, rpc, nreq) in [("Search", &unary, 1usize), ("BulkSearch", &stream, 3)] {
        st.requests += 1;
        let ctx = |detail: String| json!({"engine":"srvmc","check":"C15","request":format!("{what} with malformed filter={name}"),"metric":metric,"detail":detail});
        let resp = match std::panic::catch_unwind(std::panic::AssertUnwindSafe(|| rt.block_on(async { tokio::time::timeout(std::time::Duration::from_secs(30), call(&srv, rpc)).await }))) {
            Err(_) => json!({"status": "Internal(panic contained by the tower layer)"}),
            Ok(Err(_)) => {
                st.viol.push((format!("C15|{what}|no-answer-within-horizon"), ctx("request did not complete within 30 s".into())));
                return;
            }
            Ok(Ok(v)) => v,
        };
        if format!("{resp}").contains("HANG") {
            st.viol.push((format!("C15|{what}|stream-hang"), ctx(format!("{resp}"))));
            return;
        }
        if let Some(items) = resp.get("stream").and_then(|x| x.as_array()) {
            let ended_with_status = items.last().map(|l| l.get("status").is_some()).unwrap_or(false);
            st.outcomes.insert(format!("BulkSearch-malformed[{name}]:{}answers{}", items.len(), if ended_with_status { "+status" } else { "" }));
            if items.len() < nreq && !ended_with_status {
                st.viol.push((
                    "C15|BulkSearch|stream-ends-cleanly-with-fewer-answers-than-requests".into(),
                    ctx(format!("{nreq} requests sent (the middle one with the malformed filter), {} answers received and no status: {resp}", items.len())),
                ));
                return;
            }
        }
        if census(&srv) != before {
            st.viol.push((format!("C15|{what}|read-changed-collection"), ctx(format!("{resp}"))));
            return;
        }
    }
    let c = rt.block_on(call(&srv, &Rpc::Search { t: 0, q, k: 2, ns: "".into(), flt: Flt::None, legacy: vec![], emb: false, ef: 0 }));
    if is_refusal(&c) || c.get("results").and_then(|r| r.as_array()).map(|a| a.is_empty()).unwrap_or(true) {
        st.viol.push(("C15|Search|server-stops-serving-valid-requests".into(), json!({"engine":"srvmc","check":"C15","request":format!("after malformed filter={name}"),"metric":metric,"detail":format!("a valid Search is answered {c}")})));
    }
}

/// Long BulkSearch streams: the handler groups the request stream into batches of
/// BULK_SEARCH_BATCH_SIZE = 128 (and the cold tier chunks a batch again); streams of <= 5 requests
/// never reach either boundary. `n` requests, request i asking for the nearest neighbour of
/// document (i % 6) + 1's own vector (the six signed axis vectors: pairwise cosine <= 0, so the
/// semantic query cache — similarity threshold 0.90 on this server — can only match a repeat of
/// the same query), optionally with one wrong-dimension request at `bad_at`:
/// exactly n answers (or a final status), answer i names ITS document, the bad request gets a
/// per-item failure and nothing else is disturbed.
fn check_long_bulk_search(rt: &tokio::runtime::Runtime, n: usize, bad_at: Option<usize>, metric: &str, st: &mut Stats) {
    let srv = build(&cfg(None, metric));
    let docv = |j: usize| -> Vec<f32> {
        let mut v = vec![0.0f32; 3];
        v[j % 3] = if j < 3 { 1.0 } else { -1.0 };
        v
    };
    for j in 0..6usize {
        let _ = rt.block_on(call(&srv, &Rpc::Insert { t: 0, item: item(j as u64 + 1, &docv(j), "", 0) }));
    }
    let _ = rt.block_on(call(&srv, &Rpc::Flush { t: 0 }));
    let before = census(&srv);
    let qs: Vec<(Vec<f32>, u32)> = (0..n).map(|i| if Some(i) == bad_at { (vec![1.0, 0.0], 1) } else { (docv(i % 6), 1) }).collect();
    st.requests += 1;
    let label = format!("BulkSearch stream of {n} requests{}", bad_at.map(|b| format!(", wrong-dimension query at position {b}")).unwrap_or_default());
    let ctx = |detail: String| json!({"engine":"srvmc","check":"C15","request":label,"metric":metric,"detail":detail});
    let resp = match std::panic::catch_unwind(std::panic::AssertUnwindSafe(|| rt.block_on(async { tokio::time::timeout(std::time::Duration::from_secs(60), call(&srv, &Rpc::BulkSearch { t: 0, qs: qs.clone(), ns: "".into(), flt: Flt::None })).await }))) {
        Err(_) => json!({"status": "Internal(panic contained by the tower layer)"}),
        Ok(Err(_)) => {
            st.viol.push(("C15|BulkSearch|no-answer-within-horizon".into(), ctx("stream did not complete within 60 s".into())));
            return;
        }
        Ok(Ok(v)) => v,
    };
    let Some(items) = resp.get("stream").and_then(|x| x.as_array()) else {
        st.outcomes.insert(format!("BulkSearch-long[{n}]:refused"));
        if bad_at.is_none() {
            st.viol.push(("C15|BulkSearch|valid-long-stream-refused".into(), ctx(format!("{resp}"))));
        }
        return;
    };
    if format!("{resp}").contains("HANG") {
        st.viol.push(("C15|BulkSearch|stream-hang".into(), ctx(format!("{} answers then silence", items.len()))));
        return;
    }
    let ended_with_status = items.last().map(|l| l.get("status").is_some()).unwrap_or(false);
    st.outcomes.insert(format!("BulkSearch-long[{n},{bad_at:?}]:{}answers{}", items.len(), if ended_with_status { "+status" } else { "" }));
    if items.len() != n && !ended_with_status {
        st.viol.push(("C15|BulkSearch|stream-ends-cleanly-with-fewer-answers-than-requests".into(), ctx(format!("{n} requests sent, {} answers received and no status", items.len()))));
        return;
    }
    for (i, it) in items.iter().enumerate() {
        if it.get("status").is_some() {
            continue;
        }
        if Some(i) == bad_at {
            let served = it.get("results").and_then(|r| r.as_array()).map(|a| !a.is_empty()).unwrap_or(false);
            if served && it.get("error").and_then(|e| e.as_bool()) != Some(true) {
                st.viol.push(("C15|BulkSearch|invalid-item-served".into(), ctx(format!("answer {i} (wrong-dimension query): {it}"))));
                return;
            }
            continue;
        }
        let want = (i % 6) as u64 + 1;
        let top = it.get("results").and_then(|r| r.as_array()).and_then(|a| a.first()).and_then(|x| x["doc_id"].as_u64());
        if top != Some(want) {
            st.viol.push(("C15|BulkSearch|answer-does-not-belong-to-its-request".into(), ctx(format!("answer {i} of {n}: the request asked for the nearest neighbour of document {want}'s own vector, the answer is {it}"))));
            return;
        }
    }
    if census(&srv) != before {
        st.viol.push(("C15|BulkSearch|read-changed-collection".into(), ctx("census differs after the stream".into())));
    }
}

/// "Keeps serving later requests": every read request of the grid (plus large-k searches with a
/// filter, which the server oversamples) is sent FIVE times in a row to a populated server, then a
/// plain valid Search, Query and Insert must still be answered successfully — repeated
/// pathological requests must not trip a circuit breaker (or any other latch) for valid ones.
fn check_repeats(rt: &tokio::runtime::Runtime, label: &str, rpc: &Rpc, metric: &str, st: &mut Stats) {
    let srv = build(&cfg(None, metric));
    for (id, v) in [(1u64, [1.0f32, 0.0, 0.0]), (2, [0.0, 1.0, 0.0]), (3, [0.6, 0.8, 0.0])] {
        let _ = rt.block_on(call(&srv, &Rpc::Insert { t: 0, item: item(id, &v, "", 0) }));
    }
    let _ = rt.block_on(call(&srv, &Rpc::Flush { t: 0 }));
    st.requests += 1;
    for _ in 0..5 {
        let r = std::panic::catch_unwind(std::panic::AssertUnwindSafe(|| rt.block_on(async { tokio::time::timeout(std::time::Duration::from_secs(30), call(&srv, rpc)).await })));
        if matches!(r, Ok(Err(_))) {
            st.viol.push((format!("C15|{}|no-answer-within-horizon", rpc_name(rpc)), json!({"engine":"srvmc","check":"C15","request":label,"metric":metric,"detail":"repeated request did not complete within 30 s"})));
            return;
        }
    }
    let probes = [
        ("Search", Rpc::Search { t: 0, q: vec![0.6, 0.8, 0.0], k: 2, ns: "".into(), flt: Flt::None, legacy: vec![], emb: false, ef: 0 }),
        ("Query", Rpc::Query { t: 0, id: 1, emb: true, ns: "".into() }),
        ("Insert", Rpc::Insert { t: 0, item: item(778, &[0.0, 0.6, 0.8], "", 0) }),
    ];
    for (pname, p) in probes {
        let c = rt.block_on(call(&srv, &p));
        let found_nothing = pname == "Search" && c.get("results").and_then(|r| r.as_array()).map(|a| a.is_empty()).unwrap_or(false);
        if is_refusal(&c) || found_nothing {
            st.viol.push((
                format!("C15|{}|repeated-request-stops-valid-{pname}", rpc_name(rpc)),
                json!({"engine":"srvmc","check":"C15","request":format!("5 x {label}"),"metric":metric,"detail":format!("after the request was sent five times a valid {pname} is answered {c}")}),
            ));
            return;
        }
    }
}

/// Structurally malformed filters (a required operand is missing). `Flt::Not(None)` is a
/// NotFilter without operand.
fn malformed_filters() -> Vec<(&'static str, Flt)> {
    let not_none = || Flt::Not(Box::new(Flt::None));
    vec![
        ("not-without-operand", not_none()),
        ("and[exact,not-without-operand]", Flt::And(vec![Flt::Exact("a".into(), "1".into()), not_none()])),
        ("or[not-without-operand]", Flt::Or(vec![not_none()])),
        ("not(not(not-without-operand))", Flt::Not(Box::new(Flt::Not(Box::new(not_none()))))),
        ("not(not-without-operand)", Flt::Not(Box::new(not_none()))),
        ("hole", Flt::Hole),
        ("and[hole]", Flt::And(vec![Flt::Hole])),
        ("or[hole,exact]", Flt::Or(vec![Flt::Hole, Flt::Exact("a".into(), "1".into())])),
        ("not(hole)", Flt::Not(Box::new(Flt::Hole))),
        ("range-without-bound", Flt::RangeNoBound("a".into())),
        ("not(range-without-bound)", Flt::Not(Box::new(Flt::RangeNoBound("a".into())))),
        ("and[]", Flt::And(vec![])),
        ("or[]", Flt::Or(vec![])),
        ("not(or[])", Flt::Not(Box::new(Flt::Or(vec![])))),
    ]
}

/// BatchDelete{filter} with a bare malformed filter on a populated persistent server: the request
/// is answered; if it is refused nothing changes; if it is accepted it removes ONLY documents that
/// the engine's own reference matcher (metadata_filter::matches) selects for that filter — a
/// malformed filter must not widen into "everything in scope"; and the collection after a restart
/// equals the live one.
fn check_malformed_delete(rt: &tokio::runtime::Runtime, dir: &std::path::Path, name: &str, flt: &Flt, metric: &str, st: &mut Stats) {
    let _ = std::fs::remove_dir_all(dir);
    let srv = build(&cfg(Some(dir.to_string_lossy().to_string()), metric));
    for (id, v, meta) in [(1u64, [1.0f32, 0.0, 0.0], 0u8), (2, [0.0, 1.0, 0.0], 0), (3, [0.0, 0.0, 1.0], 1), (4, [0.6, 0.8, 0.0], 0)] {
        let _ = rt.block_on(call(&srv, &Rpc::Insert { t: 0, item: item(id, &v, "", meta) }));
    }
    // documents 1,2 only in the cold tier, 3,4 still mirrored in the recent-write tier
    if name.len() % 2 == 0 {
        let _ = rt.block_on(call(&srv, &Rpc::Flush { t: 0 }));
    }
    st.requests += 1;
    let before = census(&srv);
    let rpc = Rpc::BatchDeleteFilter { t: 0, flt: flt.clone(), ns: "".into() };
    let ctx = |detail: String| json!({"engine":"srvmc","check":"C15","request":format!("BatchDelete bare malformed filter={name}"),"metric":metric,"detail":detail});
    let resp = match std::panic::catch_unwind(std::panic::AssertUnwindSafe(|| rt.block_on(async { tokio::time::timeout(std::time::Duration::from_secs(30), call(&srv, &rpc)).await }))) {
        Err(_) => json!({"status": "Internal(panic contained by the tower layer)"}),
        Ok(Err(_)) => {
            st.viol.push(("C15|BatchDelete|no-answer-within-horizon".into(), ctx("request did not complete within 30 s".into())));
            return;
        }
        Ok(Ok(v)) => v,
    };
    let after = census(&srv);
    let refused = is_refusal(&resp);
    st.outcomes.insert(format!("BatchDelete-malformed[{name}]:{}", if refused { "refused" } else { "ok" }));
    if refused {
        st.refused += 1;
        if after != before {
            st.viol.push(("C15|BatchDelete|refused-but-collection-changed".into(), ctx(format!("response {resp}"))));
            return;
        }
    } else {
        st.accepted += 1;
        let proto = flt_to_proto(flt).expect("filter");
        for (gid, (_, meta)) in &before {
            if after.contains_key(gid) {
                continue;
            }
            let m: std::collections::HashMap<String, String> = meta.iter().cloned().collect();
            if !kyrodb_engine::metadata_filter::matches(&proto, &m) {
                st.viol.push((
                    "C15|BatchDelete|malformed-filter-removed-documents-it-does-not-select".into(),
                    ctx(format!("filter {name}: document {} (metadata {:?}) was deleted although the reference matcher does not select it; response {resp}; {} of {} documents removed", gid & 0xffff_ffff, meta, before.len() - after.len(), before.len())),
                ));
                return;
            }
        }
        if after.keys().any(|k| !before.contains_key(k)) {
            st.viol.push(("C15|BatchDelete|delete-added-documents".into(), ctx(format!("response {resp}"))));
            return;
        }
    }
    let c = rt.block_on(call(&srv, &Rpc::Insert { t: 0, item: item(777, &[0.0, 0.6, 0.8], "", 0) }));
    if is_refusal(&c) {
        st.viol.push(("C15|BatchDelete|server-stops-serving-valid-requests".into(), ctx(format!("after the request a valid insert is answered {c}"))));
        return;
    }
    let live = census(&srv);
    st.restarts += 1;
    match restart(srv) {
        Err(e) => st.viol.push(("C15|restart-fails-after-requests".into(), ctx(e))),
        Ok(s2) => {
            if census(&s2) != live {
                st.viol.push(("C15|collection-after-restart-differs".into(), ctx("census after restart differs".into())));
            }
        }
    }
}

pub fn worker(wi: usize, wn: usize, tier: &str) {
    let rt = tokio::runtime::Builder::new_multi_thread().worker_threads(1).max_blocking_threads(4).enable_all().build().unwrap();
    let scratch = vcore::Scratch::new(&format!("c15w{wi}"));
    let mut st = Stats::default();
    // "cosine!" = cosine with hnsw.disable_normalization_check = true (the index then accepts
    // whatever the normalisation step hands it)
    let metrics: Vec<&str> = if tier == "thorough" { vec!["euclidean", "cosine", "inner_product", "cosine!", "inner_product!"] } else { vec!["euclidean", "cosine", "cosine!"] };
    let singles = single_requests();
    let sitems = stream_items();
    let mut idx = 0usize;
    for metric in &metrics {
        // --- single requests: groups of 12 share one persistent server, then restart + census
        for chunk in singles.chunks(12) {
            idx += 1;
            if idx % wn != wi {
                continue;
            }
            let dir = scratch.path.join(format!("s{idx}"));
            let mut srv = build(&cfg(Some(dir.to_string_lossy().to_string()), metric));
            // pre-existing documents that invalid overwrites must not disturb
            let _ = rt.block_on(call(&srv, &Rpc::Insert { t: 0, item: item(1, &[1.0, 0.0, 0.0], "", 0) }));
            let _ = rt.block_on(call(&srv, &Rpc::Insert { t: 0, item: item(500, &[0.0, 0.0, 1.0], "", 0) }));
            let mut ok = true;
            for (label, rpc) in chunk {
                if !check_one(&rt, &srv, label, rpc, metric, &mut st) {
                    ok = false;
                    break;
                }
            }
            if ok {
                let live = census(&srv);
                st.restarts += 1;
                match restart(srv) {
                    Err(e) => st.viol.push(("C15|restart-fails-after-requests".into(), json!({"requests": chunk.iter().map(|x| x.0.clone()).collect::<Vec<_>>(), "detail": e}))),
                    Ok(s2) => {
                        srv = s2;
                        let rec = census(&srv);
                        if rec != live {
                            st.viol.push(("C15|collection-after-restart-differs".into(), json!({"engine":"srvmc","check":"C15","requests": chunk.iter().map(|x| x.0.clone()).collect::<Vec<_>>(), "metric": metric,
                                "detail": format!("live ids {:?} recovered ids {:?}", live.keys().collect::<Vec<_>>(), rec.keys().collect::<Vec<_>>())})));
                        }
                    }
                }
            }
            let _ = std::fs::remove_dir_all(&dir);
        }
        // --- repeated pathological reads, then valid probes
        let mut reps: Vec<(String, Rpc)> = singles.iter().filter(|(_, r)| matches!(r, Rpc::Search { .. } | Rpc::BulkSearch { .. } | Rpc::Query { .. } | Rpc::BulkQuery { .. })).cloned().collect();
        for k in [1000u32, 999, 501] {
            reps.push((format!("Search k={k} with filter"), Rpc::Search { t: 0, q: vec![0.6, 0.8, 0.0], k, ns: "".into(), flt: Flt::Exact("a".into(), "1".into()), legacy: vec![], emb: false, ef: 0 }));
            reps.push((format!("Search k={k} ef=10000"), Rpc::Search { t: 0, q: vec![0.6, 0.8, 0.0], k, ns: "".into(), flt: Flt::None, legacy: vec![], emb: false, ef: 10_000 }));
            // filter shapes the server oversamples most (the cold tier is asked for k x factor)
            let shapes: Vec<(&str, Flt)> = vec![
                ("in-8-values", Flt::In("a".into(), (0..8).map(|i| i.to_string()).collect())),
                ("not", Flt::Not(Box::new(Flt::Exact("a".into(), "zzz".into())))),
                ("or-4", Flt::Or((0..4).map(|i| Flt::Exact("a".into(), i.to_string())).collect())),
                ("range", Flt::RangeGte("a".into(), "0".into())),
                ("and[not,in]", Flt::And(vec![Flt::Not(Box::new(Flt::Exact("a".into(), "zzz".into()))), Flt::In("a".into(), (0..8).map(|i| i.to_string()).collect())])),
            ];
            for (sname, flt) in shapes {
                reps.push((format!("Search k={k} with filter {sname}"), Rpc::Search { t: 0, q: vec![0.6, 0.8, 0.0], k, ns: "".into(), flt, legacy: vec![], emb: false, ef: 0 }));
            }
        }
        for (ri, (label, rpc)) in reps.iter().enumerate() {
            if (ri + idx) % wn != wi {
                continue;
            }
            check_repeats(&rt, label, rpc, metric, &mut st);
        }
        // --- malformed filters on Search / BulkSearch (incl. nested all-untyped OR / AND forms)
        let mut mfs = malformed_filters();
        mfs.push(("or[hole,hole]", Flt::Or(vec![Flt::Hole, Flt::Hole])));
        mfs.push(("not(or[hole])", Flt::Not(Box::new(Flt::Or(vec![Flt::Hole])))));
        mfs.push(("and[hole,hole]", Flt::And(vec![Flt::Hole, Flt::Hole])));
        mfs.push(("or[and[hole],not-without-operand]", Flt::Or(vec![Flt::And(vec![Flt::Hole]), Flt::Not(Box::new(Flt::None))])));
        for (mi, (name, flt)) in mfs.iter().enumerate() {
            if (mi + idx + 3) % wn != wi {
                continue;
            }
            check_malformed_search(&rt, name, flt, metric, &mut st);
        }
        // --- long BulkSearch streams across the handler's 128-request batching
        let mut longs: Vec<(usize, Option<usize>)> = vec![(127, None), (128, None), (129, None), (257, None), (129, Some(0)), (129, Some(127)), (129, Some(128)), (300, Some(200))];
        if tier == "thorough" {
            longs.extend([(256, None), (385, None), (1000, None), (257, Some(255)), (257, Some(256))]);
        }
        for (li, (n, bad)) in longs.iter().enumerate() {
            if (li + idx + 5) % wn != wi {
                continue;
            }
            check_long_bulk_search(&rt, *n, *bad, metric, &mut st);
        }
        // --- bare malformed filters on BatchDelete
        for (mi, (name, flt)) in malformed_filters().iter().enumerate() {
            if (mi + idx) % wn != wi {
                continue;
            }
            check_malformed_delete(&rt, &scratch.path.join("mf"), name, flt, metric, &mut st);
        }
        // --- streams of length <= 3 (BulkInsert and BulkLoadHnsw)
        let maxlen = if tier == "thorough" { 5usize } else { 3 };
        let mut seqs: Vec<Vec<usize>> = Vec::new();
        for l in 1..=maxlen {
            seqs.extend(vcore::exec::sequences(sitems.len(), l, &[]));
        }
        for (si, seq) in seqs.iter().enumerate() {
            if (si + idx) % wn != wi {
                continue;
            }
            for load in [false, true] {
                let dir = scratch.path.join("st");
                let _ = std::fs::remove_dir_all(&dir);
                let srv = build(&cfg(Some(dir.to_string_lossy().to_string()), metric));
                let _ = rt.block_on(call(&srv, &Rpc::Insert { t: 0, item: item(11, &[0.0, 0.6, 0.8], "", 0) }));
                let names: Vec<&str> = seq.iter().map(|i| sitems[*i].0).collect();
                let items: Vec<Item> = seq.iter().map(|i| sitems[*i].1.clone()).collect();
                if check_stream(&rt, &srv, load, &names, &items, metric, &mut st) && seq.len() == maxlen && si % 9 == 0 {
                    let live = census(&srv);
                    st.restarts += 1;
                    match restart(srv) {
                        Err(e) => st.viol.push(("C15|restart-fails-after-stream".into(), json!({"stream": names, "detail": e}))),
                        Ok(s2) => {
                            if census(&s2) != live {
                                st.viol.push(("C15|collection-after-restart-differs".into(), json!({"engine":"srvmc","check":"C15","stream": names, "metric": metric, "detail": "census after restart differs"})));
                            }
                        }
                    }
                }
            }
        }
        // oversized batches
        if wi == 0 {
            let mut big_cfg = cfg(None, metric);
            big_cfg.hnsw_capacity = 32_768; // the stream itself must not exhaust the index
            big_cfg.tenants[0].2 = 100_000;
            let srv = build(&big_cfg);
            let big: Vec<Item> = (0..10_001u64).map(|i| item(1000 + i, &[1.0, 0.0, 0.0], "", 0)).collect();
            for load in [false, true] {
                let rpc = if load { Rpc::BulkLoad { t: 0, items: big.clone() } } else { Rpc::BulkInsert { t: 0, items: big.clone() } };
                st.requests += 1;
                let r = rt.block_on(call(&srv, &rpc));
                st.outcomes.insert(format!("{}-10001:{}", rpc_name(&rpc), r));
                let c = rt.block_on(call(&srv, &Rpc::Insert { t: 0, item: item(777, &[0.0, 0.6, 0.8], "", 0) }));
                if is_refusal(&c) {
                    st.viol.push((format!("C15|{}|server-stops-serving-valid-requests", rpc_name(&rpc)), json!({"detail": format!("after a 10001-item stream: {c}")})));
                }
            }
            let r = rt.block_on(call(&srv, &Rpc::BulkInsert { t: 0, items: vec![] }));
            st.outcomes.insert(format!("BulkInsert-0:{r}"));
        }
    }
    // --- the same single requests as raw frames through the tower stack + malformed frames
    {
        use prost::Message;
        let srv = build(&cfg(None, "euclidean"));
        for (i, (label, rpc)) in singles.iter().enumerate() {
            if i % wn != wi {
                continue;
            }
            let (path, body) = match rpc {
                Rpc::Insert { item, .. } => ("/kyrodb.v1.KyroDBService/Insert", frame(&[kyrodb_engine::proto::InsertRequest { doc_id: item.id, embedding: item.v.clone(), metadata: item.m.iter().cloned().collect(), namespace: item.ns.clone() }])),
                Rpc::Query { id, .. } => ("/kyrodb.v1.KyroDBService/Query", frame(&[kyrodb_engine::proto::QueryRequest { doc_id: *id, include_embedding: true, namespace: String::new() }])),
                Rpc::Delete { id, ns, .. } => ("/kyrodb.v1.KyroDBService/Delete", frame(&[kyrodb_engine::proto::DeleteRequest { doc_id: *id, namespace: ns.clone() }])),
                Rpc::Search { q, k, ef, flt, .. } => {
                    #[allow(deprecated)]
                    let m = kyrodb_engine::proto::SearchRequest { query_embedding: q.clone(), k: *k, min_score: 0.0, namespace: String::new(), include_embeddings: false, ef_search: *ef, filter: flt_to_proto(flt), metadata_filters: Default::default() };
                    ("/kyrodb.v1.KyroDBService/Search", frame(&[m]))
                }
                _ => continue,
            };
            st.tower_requests += 1;
            let (status, hung) = rt.block_on(raw_grpc(&srv, path, Some(0), body));
            if hung || status.is_none() {
                st.viol.push((format!("C15|tower|{}|no-grpc-status", rpc_name(rpc)), json!({"engine":"srvmc","check":"C15","request":label,"detail":format!("status {status:?} hung {hung}")})));
            }
        }
        if wi == 0 {
            let good = kyrodb_engine::proto::InsertRequest { doc_id: 1, embedding: vec![1.0, 0.0, 0.0], metadata: Default::default(), namespace: String::new() }.encode_to_vec();
            let mut cases: Vec<(String, Vec<u8>)> = Vec::new();
            cases.push(("empty body".into(), vec![]));
            cases.push(("header only".into(), vec![0, 0, 0, 0]));
            for cut in 0..(good.len() + 5) {
                let mut f = vec![0u8];
                f.extend_from_slice(&(good.len() as u32).to_be_bytes());
                f.extend_from_slice(&good);
                f.truncate(cut);
                cases.push((format!("frame truncated to {cut}"), f));
            }
            for lenf in [0u32, 1, (good.len() as u32) + 7, u32::MAX] {
                let mut f = vec![0u8];
                f.extend_from_slice(&lenf.to_be_bytes());
                f.extend_from_slice(&good);
                cases.push((format!("length field {lenf}"), f));
            }
            let mut f = vec![1u8];
            f.extend_from_slice(&(good.len() as u32).to_be_bytes());
            f.extend_from_slice(&good);
            cases.push(("compressed flag without encoding".into(), f));
            for i in 0..good.len() {
                let mut g = good.clone();
                g[i] ^= 0xff;
                let mut f = vec![0u8];
                f.extend_from_slice(&(g.len() as u32).to_be_bytes());
                f.extend_from_slice(&g);
                cases.push((format!("payload byte {i} inverted"), f));
            }
            for path in ["/kyrodb.v1.KyroDBService/Insert", "/kyrodb.v1.KyroDBService/BulkInsert", "/kyrodb.v1.KyroDBService/Search", "/kyrodb.v1.KyroDBService/NoSuchMethod"] {
                for (label, body) in &cases {
                    st.tower_malformed += 1;
                    let (status, hung) = rt.block_on(raw_grpc(&srv, path, Some(0), body.clone()));
                    if hung || status.is_none() {
                        st.viol.push(("C15|tower|malformed-frame|no-grpc-status".into(), json!({"engine":"srvmc","check":"C15","path":path,"case":label,"detail":format!("status {status:?} hung {hung}")})));
                    }
                }
            }
            // the server still answers a valid request afterwards
            let c = rt.block_on(call(&srv, &Rpc::Insert { t: 0, item: item(777, &[0.0, 0.6, 0.8], "", 0) }));
            if is_refusal(&c) {
                st.viol.push(("C15|tower|server-stops-serving-valid-requests".into(), json!({"detail": format!("{c}")})));
            }
        }
    }
    vcore::par::worker_emit(&json!({"requests":st.requests,"refused":st.refused,"accepted":st.accepted,"streams":st.streams,"tower":st.tower_requests,"malformed":st.tower_malformed,"restarts":st.restarts,
        "outcomes":st.outcomes.iter().collect::<Vec<_>>(),"violations":st.viol.to_json()}));
}

pub fn run(tier: &str, replay: Option<&str>) -> i32 {
    if replay.is_some() {
        println!("C15 replay files name the request / stream class; re-run bin/check C15 to reproduce");
        return 0;
    }
    if let Some((i, n)) = vcore::par::worker_id() {
        worker(i, n, tier);
        return 0;
    }
    let res = vcore::par::run_workers(vcore::par::jobs(), &[("KSCHED_QUIET_PANICS", "1".to_string())]);
    let mut ev = vcore::evidence::Evidence::new("C15", tier, "exploration");
    let mut rep = vcore::findings::Reporter::new("C15");
    let mut tot: BTreeMap<&str, u64> = BTreeMap::new();
    let mut outcomes: BTreeSet<String> = BTreeSet::new();
    for r in &res {
        for k in ["requests", "refused", "accepted", "streams", "tower", "malformed", "restarts"] {
            *tot.entry(k).or_insert(0) += r[k].as_u64().unwrap_or(0);
        }
        for o in r["outcomes"].as_array().unwrap() {
            outcomes.insert(o.as_str().unwrap().chars().take(80).collect());
        }
        rep.report_bag(&r["violations"]);
    }
    ev.set("evaluations", tot["requests"] + tot["tower"] + tot["malformed"]);
    ev.set("distinct_nontrivial", tot["refused"]);
    ev.set("rule", "per RPC the cross product of per-field boundary lists (vector: valid/empty/dim-1/dim+1/4097/zero/NaN/+-Inf/1e30/f32::MAX/subnormal; id: 0,1,2^32-1,2^32,2^64-1; k: 0,1,1000,1001,2^32-1; ef: 0,1,10000,10001; filters: empty forms, 200/201-deep NOT, 10^4-value IN, NaN range, reserved key; namespace: empty/5000 chars; metadata: plain/reserved-key spoof/300 keys; batch sizes 0,1,10000,10001), singly on a persistent server with pre-existing documents, and every BulkInsert / BulkLoadHnsw stream of length <= 3 over 9 item classes (valid, duplicate, NaN, +Inf, 1e30, dim+1, id 0, id 2^32); oracle: an answer within the horizon, refused => canonical census unchanged, accepted => stored exactly as given, no non-finite vector ever stored, a following valid insert succeeds, census after restart equals the live one; every single request also goes through the tower stack (panic containment layer + generated server) as raw frames, plus truncated / mis-sized / corrupted frames on four paths: a grpc-status must come back. non-trivial = refused requests; 18 structurally malformed filters as unary Search and as the middle item of a BulkSearch stream [valid, malformed, valid] (answered; the stream never ends cleanly with fewer answers than requests); 14 structurally malformed filters (NotFilter without operand, filter without type, range without bound, empty AND/OR, singly and nested) sent BARE as BatchDelete{filter} to a populated persistent server: answered, refused => unchanged, accepted => only documents the reference matcher metadata_filter::matches selects are removed, census after restart == live");
    ev.set("samples", json!([single_requests()[7].0, single_requests()[200].0, {"stream": ["valid-a", "nan", "valid-b"]}]));
    ev.set("exhaustive", true);
    ev.set("requests_refused", tot["refused"]);
    ev.set("requests_accepted", tot["accepted"]);
    ev.set("streams", tot["streams"]);
    ev.set("tower_stack_requests", tot["tower"]);
    ev.set("tower_stack_malformed_frames", tot["malformed"]);
    ev.set("restart_census_checks", tot["restarts"]);
    ev.set("distinct_outcomes", outcomes.len() as u64);
    ev.assume("in-process handlers with the TenantContext attached (auth on, one tenant); Restart = TieredEngine::recover");
    ev.assume("a handler panic in a direct call is counted as the INTERNAL answer the containment layer produces; the tower-stack pass checks that layer for real");
    ev.violations = rep.violations as i64;
    ev.write();
    println!("C15 {tier}: requests={} refused={} accepted={} streams={} tower={} malformed={} restarts={} outcomes={} violations={}", tot["requests"], tot["refused"], tot["accepted"], tot["streams"], tot["tower"], tot["malformed"], tot["restarts"], outcomes.len(), rep.violations);
    rep.finish()
}
