//! C13, server-level slice: the REAL server binary started on a damaged data directory either
//! refuses to start (process exits before its port opens) or serves exactly the pre-damage
//! collection. The directory itself is produced by the real server (client writes over gRPC,
//! then SIGTERM = clean shutdown). Every single fault = file x {deletion, truncation to 0 and to
//! half, bit flip at first / middle / last byte (thorough: at every byte)}; truncations of the newest log segment are the
//! excluded crash case and are skipped.
//!
//! Output: one line `C13S-RESULT <json>` on stdout (merged into C13's evidence by crashmc).

use crate::realbin::*;
use serde_json::{json, Value};
use std::collections::BTreeMap;
use std::path::{Path, PathBuf};
use vcore::findings::SigBag;

fn cfg_toml(data_dir: &Path, snap: u64, rotation: u64) -> String {
    format!(
        "[environment]\ntype = \"production\"\n[server]\nhost = \"127.0.0.1\"\n[persistence]\ndata_dir = {:?}\nfsync_policy = \"data_only\"\nsnapshot_interval_mutations = {snap}\nmax_wal_size_bytes = {rotation}\n[hnsw]\ndimension = 3\nmax_elements = 64\ndistance = \"euclidean\"\n[cache]\nenable_training_task = false\n[logging]\nlevel = \"warn\"\n",
        data_dir.to_string_lossy()
    )
}

const MAX_ID: u64 = 12;

fn vec_of(id: u64, w: u32) -> Vec<f32> {
    vec![id as f32, w as f32, 1.0]
}

/// The history that produces a directory; returns the acknowledged collection.
fn write_history(c: &mut Client, variant: usize) -> Result<Census, String> {
    let mut model = Census::new();
    let mut put = |c: &mut Client, id: u64, w: u32, model: &mut Census| -> Result<(), String> {
        let ws = w.to_string();
        let ok = c.insert(id, &vec_of(id, w), &[("w", &ws)])?;
        if !ok {
            return Err(format!("insert {id} not acknowledged"));
        }
        model.insert(id, (vec_of(id, w).iter().map(|x| x.to_bits()).collect(), [("w".to_string(), ws)].into_iter().collect()));
        Ok(())
    };
    for id in 1..=7u64 {
        put(c, id, 1, &mut model)?;
    }
    c.delete(2)?;
    model.remove(&2);
    c.update_metadata(3, &[("u", "x")], true)?;
    model.get_mut(&3).unwrap().1.insert("u".into(), "x".into());
    put(c, 8, 1, &mut model)?;
    put(c, 1, 2, &mut model)?; // overwrite
    if variant > 0 {
        put(c, 9, 1, &mut model)?;
        c.delete(5)?;
        model.remove(&5);
        put(c, 2, 3, &mut model)?; // re-insert of a deleted id
        put(c, 10, 1, &mut model)?;
    }
    Ok(model)
}

fn copy_dir(src: &Path, dst: &Path) {
    let _ = std::fs::remove_dir_all(dst);
    vcore::copy_dir(src, dst);
}

fn roles(dir: &Path) -> Vec<(String, String)> {
    // (file name, role)
    let man: Value = std::fs::read(dir.join("MANIFEST")).ok().and_then(|b| serde_json::from_slice(&b).ok()).unwrap_or(Value::Null);
    let latest = man["latest_snapshot"].as_str().unwrap_or("").to_string();
    let segs: Vec<String> = man["wal_segments"].as_array().map(|a| a.iter().filter_map(|x| x.as_str().map(|s| s.to_string())).collect()).unwrap_or_default();
    let newest = segs.last().cloned().unwrap_or_default();
    let mut names: Vec<String> = std::fs::read_dir(dir).unwrap().filter_map(|e| e.ok()).filter(|e| e.path().is_file()).map(|e| e.file_name().to_string_lossy().to_string()).collect();
    names.sort();
    names
        .into_iter()
        .map(|n| {
            let role = if n == "MANIFEST" {
                "manifest".to_string()
            } else if n == latest {
                "snapshot:latest".to_string()
            } else if n.starts_with("snapshot_") {
                "snapshot:older".to_string()
            } else if n == newest {
                "wal:newest".to_string()
            } else if segs.contains(&n) {
                "wal:non-newest".to_string()
            } else if n.ends_with(".wal") {
                "wal:unlisted".to_string()
            } else {
                format!("other:{n}")
            };
            (n, role)
        })
        .collect()
}

#[derive(Clone, Debug)]
struct Fault {
    dir_idx: usize,
    file: String,
    role: String,
    kind: String, // delete | truncate:<n> | bitflip:<off>
}

fn apply_fault(dir: &Path, f: &Fault) {
    let p = dir.join(&f.file);
    if f.kind == "delete" {
        let _ = std::fs::remove_file(&p);
    } else if let Some(n) = f.kind.strip_prefix("truncate:") {
        let n: u64 = n.parse().unwrap();
        let fh = std::fs::OpenOptions::new().write(true).open(&p).unwrap();
        fh.set_len(n).unwrap();
    } else if let Some(o) = f.kind.strip_prefix("bitflip:") {
        let o: usize = o.parse().unwrap();
        let mut b = std::fs::read(&p).unwrap();
        if o < b.len() {
            b[o] ^= 0x01;
            std::fs::write(&p, b).unwrap();
        }
    }
}

/// Structural field of a WAL byte offset: header magic, or the length / payload / checksum of
/// the frame it falls into ([u32 len][payload][u32 crc] after a 4-byte magic).
fn wal_field(bytes: &[u8], off: usize) -> &'static str {
    if off < 4 {
        return "magic";
    }
    let mut p = 4usize;
    while p + 4 <= bytes.len() {
        let l = u32::from_le_bytes([bytes[p], bytes[p + 1], bytes[p + 2], bytes[p + 3]]) as usize;
        if off < p + 4 {
            return "frame.len";
        }
        if off < p + 4 + l {
            return "frame.payload";
        }
        if off < p + 4 + l + 4 {
            return "frame.crc";
        }
        p += 4 + l + 4;
    }
    "trailing"
}

fn kind_class(k: &str, len: u64, role: &str, original: &[u8]) -> String {
    if k == "delete" {
        "deleted".into()
    } else if let Some(n) = k.strip_prefix("truncate:") {
        if n == "0" { "truncated-to-0".into() } else { "truncated-to-half".into() }
    } else {
        let o: u64 = k["bitflip:".len()..].parse().unwrap();
        if role.starts_with("wal:") {
            format!("bitflip|{}", wal_field(original, o as usize))
        } else if o == 0 {
            "bitflip-first-byte".into()
        } else if o + 1 == len {
            "bitflip-last-byte".into()
        } else {
            "bitflip-middle".into()
        }
    }
}

pub fn run(tier: &str) -> i32 {
    let scratch = vcore::Scratch::new("c13s");
    let mut viol = SigBag::default();
    let mut launches = 0u64;
    let mut refused = 0u64;
    let mut started_equal = 0u64;
    let variants: Vec<(usize, u64, u64)> = if tier == "thorough" { vec![(0, 4, 700), (1, 3, 400), (1, 5, 1 << 20)] } else { vec![(1, 4, 600)] };
    // 1. produce the directories with the real server
    let mut dirs: Vec<(PathBuf, PathBuf, Census)> = Vec::new(); // (config, data dir, reference census)
    for (di, (variant, snap, rot)) in variants.iter().enumerate() {
        let data = scratch.path.join(format!("d{di}"));
        std::fs::create_dir_all(&data).unwrap();
        let cfgp = scratch.path.join(format!("c{di}.toml"));
        std::fs::write(&cfgp, cfg_toml(&data, *snap, *rot)).unwrap();
        launches += 1;
        let srv = match launch(&cfgp, free_port(), free_port(), &[], &scratch.path) {
            Launch::Started(s) => s,
            Launch::Refused { code, log_tail } => {
                eprintln!("C13S: machinery error: the real server does not start on an empty directory (exit {code:?}): {log_tail}");
                return 2;
            }
            Launch::Hung { log_tail } => {
                eprintln!("C13S: machinery error: the real server hangs on an empty directory: {log_tail}");
                return 2;
            }
        };
        let mut cl = match Client::connect(srv.port) {
            Ok(c) => c,
            Err(e) => {
                eprintln!("C13S: machinery error: cannot connect: {e}");
                srv.kill();
                return 2;
            }
        };
        let model = match write_history(&mut cl, *variant) {
            Ok(m) => m,
            Err(e) => {
                eprintln!("C13S: machinery error: history failed: {e}; {}", srv.log_tail(4));
                srv.kill();
                return 2;
            }
        };
        drop(cl);
        let code = srv.stop();
        if code != Some(0) {
            eprintln!("C13S: machinery error: clean shutdown exit code {code:?}");
            return 2;
        }
        // reference: what the real server serves from the undamaged directory
        launches += 1;
        let refc = match launch(&cfgp, free_port(), free_port(), &[], &scratch.path) {
            Launch::Started(s) => {
                let r = census_retry(s.port, MAX_ID);
                s.kill();
                match r {
                    Ok(c) => c,
                    Err(e) => {
                        eprintln!("C13S: machinery error: reference census failed: {e}");
                        return 2;
                    }
                }
            }
            _ => {
                viol.push(("C13|server|undamaged-directory|refuses-to-restart-after-clean-shutdown".into(), json!({"engine":"srvmc","check":"C13S","variant":variant})));
                continue;
            }
        };
        if refc != model {
            viol.push((
                "C13|server|undamaged-directory|restart-differs-from-acknowledged-history".into(),
                json!({"engine":"srvmc","check":"C13S","variant":variant,"detail":format!("acknowledged ids {:?}, served after restart {:?}", model.keys().collect::<Vec<_>>(), refc.keys().collect::<Vec<_>>())}),
            ));
            continue;
        }
        // the reference launch may itself have written (e.g. a new WAL segment): keep the
        // directory exactly as the clean shutdown left it by re-copying from a pristine copy
        dirs.push((cfgp, data, refc));
    }
    // pristine copies (the reference launch above ran on the live dir; take the copy after it,
    // which is again a cleanly shut down directory — killed servers leave no unsynced state that
    // matters here because nothing was written)
    // 2. faults
    let mut faults: Vec<Fault> = Vec::new();
    for (di, (_, data, _)) in dirs.iter().enumerate() {
        for (file, role) in roles(data) {
            let len = std::fs::metadata(data.join(&file)).map(|m| m.len()).unwrap_or(0);
            let mut kinds: Vec<String> = vec!["delete".into()];
            if role != "wal:newest" {
                kinds.push("truncate:0".into());
                if len >= 2 {
                    kinds.push(format!("truncate:{}", len / 2));
                }
            }
            if len > 0 {
                kinds.push("bitflip:0".into());
                if role != "wal:newest" {
                    if tier == "thorough" {
                        // every byte of the file (lowest bit)
                        for o in 1..len {
                            kinds.push(format!("bitflip:{o}"));
                        }
                    } else {
                        if len > 2 {
                            kinds.push(format!("bitflip:{}", len / 2));
                        }
                        kinds.push(format!("bitflip:{}", len - 1));
                    }
                }
            }
            for k in kinds {
                faults.push(Fault { dir_idx: di, file: file.clone(), role: role.clone(), kind: k });
            }
        }
    }
    let results = vcore::par::par_map(&faults, |i, f| {
        let (cfgp, data, refc) = &dirs[f.dir_idx];
        let work = scratch.path.join(format!("f{i}"));
        std::fs::create_dir_all(&work).unwrap();
        let dd = work.join("data");
        copy_dir(data, &dd);
        let len = std::fs::metadata(dd.join(&f.file)).map(|m| m.len()).unwrap_or(0);
        let original = std::fs::read(dd.join(&f.file)).unwrap_or_default();
        apply_fault(&dd, f);
        let cfg2 = work.join("c.toml");
        let txt = std::fs::read_to_string(cfgp).unwrap().replace(&data.to_string_lossy().to_string(), &dd.to_string_lossy().to_string());
        std::fs::write(&cfg2, txt).unwrap();
        let class = kind_class(&f.kind, len, &f.role, &original);
        let out = match launch(&cfg2, free_port(), free_port(), &[], &work) {
            Launch::Refused { .. } => ("refused".to_string(), None),
            Launch::Hung { log_tail } => ("hung".to_string(), Some(format!("neither listening nor exited within 30 s: {log_tail}"))),
            Launch::Started(mut s) => {
                let r = census_retry(s.port, MAX_ID);
                let lt = s.log_tail(3);
                let died = s.exited();
                s.kill();
                match r {
                    // the port opened but the process exited before it served anything: it did
                    // not start successfully, which is a refusal
                    Err(_) if died.is_some() => ("refused".to_string(), None),
                    Err(e) => ("started-but-does-not-answer".to_string(), Some(format!("{e}; server log: {lt}"))),
                    Ok(c) => {
                        if &c == refc {
                            ("started-equal".to_string(), None)
                        } else {
                            let sym = if refc.keys().any(|k| !c.contains_key(k)) {
                                "docs-missing"
                            } else if c.keys().any(|k| !refc.contains_key(k)) {
                                "docs-resurrected"
                            } else {
                                "docs-altered"
                            };
                            (sym.to_string(), Some(format!("pre-damage ids {:?}, served {:?}; server log: {lt}", refc.keys().collect::<Vec<_>>(), c.keys().collect::<Vec<_>>())))
                        }
                    }
                }
            }
        };
        let _ = std::fs::remove_dir_all(&work);
        (f.clone(), class, out)
    });
    let mut outcomes: BTreeMap<String, u64> = BTreeMap::new();
    for (f, class, (verdict, detail)) in results {
        launches += 1;
        *outcomes.entry(format!("{}|{}|{}", f.role, class, verdict)).or_insert(0) += 1;
        match verdict.as_str() {
            "refused" => refused += 1,
            "started-equal" => started_equal += 1,
            v => {
                viol.push((
                    format!("C13|server|{}|{}|{}", f.role, class, v),
                    json!({"engine":"srvmc","check":"C13S","file_role":f.role,"fault":f.kind,"class":class,"directory":f.dir_idx,"detail":detail}),
                ));
            }
        }
    }
    release_ports();
    println!(
        "C13S-RESULT {}",
        json!({"launches":launches,"faults":faults.len(),"refused":refused,"started_equal":started_equal,"directories":dirs.len(),"outcomes":outcomes,"violations":viol.to_json()})
    );
    0
}
