//! C10 / C14, server-level slice through the REAL binary with authentication enabled: the API-key
//! interceptor, the persistent tenant-index map and the start-up quota recount all live inside
//! main() and are only reachable this way.
//!
//!  (a) key matrix: {no key, unknown key, disabled key, empty key, "Bearer " + unknown} x every
//!      data RPC => UNAUTHENTICATED, and nothing is stored;
//!  (b) two tenants (one with two keys) use the SAME local ids and vectors: each sees only its
//!      own documents through Query / BulkQuery / Search, cannot update or delete the other's,
//!      and both keys of one tenant see the same collection;
//!  (c) restart of the real binary (SIGTERM, relaunch on the same directory, with one more tenant
//!      appended to the key file): every tenant still sees exactly its documents (tenant-index
//!      map stable), and quotas are exact: a tenant at max_vectors is refused
//!      (RESOURCE_EXHAUSTED) before and after the restart, admitted again after one delete, and
//!      refused again after that insert.
//!
//! Output: one line `C10S-RESULT <json>`; signatures are prefixed C10| or C14|.

use crate::realbin::*;
use kyrodb_engine::proto::kyro_db_service_client::KyroDbServiceClient;
use kyrodb_engine::proto::*;
use serde_json::{json, Value};
use std::collections::BTreeMap;
use vcore::findings::SigBag;

const KEY_A1: &str = "kyro_acme_00000000000000000000000000000001";
const KEY_A2: &str = "kyro_acme_00000000000000000000000000000002";
const KEY_B: &str = "kyro_beta_00000000000000000000000000000001";
const KEY_DIS: &str = "kyro_dis_00000000000000000000000000000001";
const KEY_C: &str = "kyro_gamma_00000000000000000000000000000001";

fn keys_yaml(with_gamma: bool) -> String {
    let mut s = String::from("api_keys:\n");
    for (k, t, maxv, en) in [(KEY_A1, "acme", 3, true), (KEY_A2, "acme", 3, true), (KEY_B, "beta", 100, true), (KEY_DIS, "dis", 100, false)] {
        s += &format!("  - key: {k}\n    tenant_id: {t}\n    tenant_name: {t}\n    max_qps: 100000\n    max_vectors: {maxv}\n    enabled: {en}\n");
    }
    if with_gamma {
        s += &format!("  - key: {KEY_C}\n    tenant_id: gamma\n    tenant_name: gamma\n    max_qps: 100000\n    max_vectors: 100\n    enabled: true\n");
    }
    s
}

fn cfg_toml(data: &std::path::Path, keys: &std::path::Path) -> String {
    format!(
        "[environment]\ntype = \"production\"\n[server]\nhost = \"127.0.0.1\"\n[persistence]\ndata_dir = {:?}\nfsync_policy = \"data_only\"\nsnapshot_interval_mutations = 4\n[hnsw]\ndimension = 3\nmax_elements = 256\ndistance = \"euclidean\"\n[cache]\nenable_training_task = false\n[auth]\nenabled = true\napi_keys_file = {:?}\n[rate_limit]\nenabled = false\n[logging]\nlevel = \"warn\"\n",
        data.to_string_lossy(),
        keys.to_string_lossy()
    )
}

struct Kc {
    rt: tokio::runtime::Runtime,
    c: KyroDbServiceClient<tonic::transport::Channel>,
}

fn req<T>(msg: T, key: Option<&str>, bearer: bool) -> tonic::Request<T> {
    let mut r = tonic::Request::new(msg);
    if let Some(k) = key {
        if bearer {
            r.metadata_mut().insert("authorization", format!("Bearer {k}").parse().unwrap());
        } else {
            r.metadata_mut().insert("x-api-key", k.parse().unwrap());
        }
    }
    r
}

fn code<T>(r: &Result<tonic::Response<T>, tonic::Status>) -> String {
    match r {
        Ok(_) => "OK".into(),
        Err(s) => format!("{:?}", s.code()),
    }
}

impl Kc {
    fn connect(port: u16) -> Result<Kc, String> {
        // connect + warm-up with retry: a loaded machine can reset a fresh HTTP/2 connection; the
        // warm-up request carries no key, so any gRPC status (UNAUTHENTICATED) proves the channel
        let mut last = String::new();
        for attempt in 0..5u64 {
            let rt = tokio::runtime::Builder::new_current_thread().enable_all().build().unwrap();
            match rt.block_on(async { KyroDbServiceClient::connect(format!("http://127.0.0.1:{port}")).await }) {
                Ok(c) => {
                    let mut k = Kc { rt, c };
                    let r = k.rt.block_on(k.c.query(req(QueryRequest { doc_id: 1, include_embedding: false, namespace: String::new() }, None, false)));
                    match r {
                        Err(s) if s.code() == tonic::Code::Unknown || s.code() == tonic::Code::Unavailable => last = format!("warm-up: {:?}: {}", s.code(), s.message()),
                        _ => return Ok(k),
                    }
                }
                Err(e) => last = format!("{e}"),
            }
            std::thread::sleep(std::time::Duration::from_millis(100 * (attempt + 1)));
        }
        Err(last)
    }
    fn insert(&mut self, key: Option<&str>, id: u64, v: [f32; 3], tag: &str) -> (String, bool) {
        let m = InsertRequest { doc_id: id, embedding: v.to_vec(), metadata: [("tag".to_string(), tag.to_string())].into_iter().collect(), namespace: String::new() };
        let r = self.rt.block_on(self.c.insert(req(m, key, false)));
        (code(&r), r.map(|x| x.get_ref().success).unwrap_or(false))
    }
    fn query(&mut self, key: Option<&str>, bearer: bool, id: u64) -> (String, Option<(Vec<u32>, String)>) {
        let r = self.rt.block_on(self.c.query(req(QueryRequest { doc_id: id, include_embedding: true, namespace: String::new() }, key, bearer)));
        let c = code(&r);
        let v = r.ok().map(|x| x.into_inner()).filter(|x| x.found).map(|x| (x.embedding.iter().map(|f| f.to_bits()).collect(), x.metadata.get("tag").cloned().unwrap_or_default()));
        (c, v)
    }
    fn delete(&mut self, key: Option<&str>, id: u64) -> (String, bool) {
        let r = self.rt.block_on(self.c.delete(req(DeleteRequest { doc_id: id, namespace: String::new() }, key, false)));
        (code(&r), r.map(|x| x.get_ref().success).unwrap_or(false))
    }
    fn update(&mut self, key: Option<&str>, id: u64, tag: &str) -> (String, bool) {
        let m = UpdateMetadataRequest { doc_id: id, metadata: [("tag".to_string(), tag.to_string())].into_iter().collect(), merge: true, namespace: String::new() };
        let r = self.rt.block_on(self.c.update_metadata(req(m, key, false)));
        (code(&r), r.map(|x| x.get_ref().success && x.get_ref().existed).unwrap_or(false))
    }
    fn search_ids(&mut self, key: Option<&str>, q: [f32; 3], k: u32) -> (String, Vec<u64>) {
        #[allow(deprecated)]
        let m = SearchRequest { query_embedding: q.to_vec(), k, min_score: 0.0, namespace: String::new(), include_embeddings: false, ef_search: 0, filter: None, metadata_filters: Default::default() };
        let r = self.rt.block_on(self.c.search(req(m, key, false)));
        (code(&r), r.map(|x| x.get_ref().results.iter().map(|s| s.doc_id).collect()).unwrap_or_default())
    }
    fn bulk_query(&mut self, key: Option<&str>, ids: &[u64]) -> (String, Vec<u64>) {
        let r = self.rt.block_on(self.c.bulk_query(req(BulkQueryRequest { doc_ids: ids.to_vec(), include_embeddings: false, namespace: String::new() }, key, false)));
        (code(&r), r.map(|x| x.get_ref().results.iter().filter(|q| q.found).map(|q| q.doc_id).collect()).unwrap_or_default())
    }
    fn batch_delete(&mut self, key: Option<&str>, ids: &[u64]) -> String {
        let m = BatchDeleteRequest { delete_criteria: Some(batch_delete_request::DeleteCriteria::Ids(IdList { doc_ids: ids.to_vec() })), namespace: String::new() };
        code(&self.rt.block_on(self.c.batch_delete(req(m, key, false))))
    }
    fn flush(&mut self, key: Option<&str>) -> String {
        code(&self.rt.block_on(self.c.flush_hot_tier(req(FlushRequest { force: true }, key, false))))
    }
    fn bulk_insert(&mut self, key: Option<&str>, id: u64) -> String {
        let item = InsertRequest { doc_id: id, embedding: vec![0.5, 0.5, 0.5], metadata: Default::default(), namespace: String::new() };
        let stream = tokio_stream::iter(vec![item]);
        code(&self.rt.block_on(self.c.bulk_insert(req(stream, key, false))))
    }
}

fn vec_for(t: &str, id: u64) -> [f32; 3] {
    // the SAME vector for both tenants on purpose (collisions must not matter)
    let _ = t;
    [id as f32, 1.0, 0.0]
}

/// what tenant `key` sees for local ids 1..=6: id -> tag
fn view(k: &mut Kc, key: &str) -> BTreeMap<u64, String> {
    let mut m = BTreeMap::new();
    for id in 1..=6u64 {
        if let (_, Some((_, tag))) = k.query(Some(key), false, id) {
            m.insert(id, tag);
        }
    }
    m
}

pub fn run(_tier: &str) -> i32 {
    let scratch = vcore::Scratch::new("c10s");
    let data = scratch.path.join("data");
    std::fs::create_dir_all(&data).unwrap();
    let keys = scratch.path.join("keys.yaml");
    std::fs::write(&keys, keys_yaml(false)).unwrap();
    let cfgp = scratch.path.join("c.toml");
    std::fs::write(&cfgp, cfg_toml(&data, &keys)).unwrap();
    let mut viol = SigBag::default();
    let mut checks = 0u64;
    let mut launches = 0u64;
    let mut v = |viol: &mut SigBag, sig: &str, detail: String| {
        viol.push((sig.to_string(), json!({"engine":"srvmc","check":"C10S","detail":detail})));
    };
    macro_rules! start {
        () => {{
            launches += 1;
            match launch(&cfgp, free_port(), free_port(), &[], &scratch.path) {
                Launch::Started(s) => s,
                Launch::Refused { code, log_tail } => {
                    eprintln!("C10S: machinery error: server does not start (exit {code:?}): {log_tail}");
                    return 2;
                }
                Launch::Hung { log_tail } => {
                    eprintln!("C10S: machinery error: server hangs: {log_tail}");
                    return 2;
                }
            }
        }};
    }
    let srv = start!();
    let mut k = match Kc::connect(srv.port) {
        Ok(k) => k,
        Err(e) => {
            eprintln!("C10S: machinery error: connect: {e}");
            srv.kill();
            return 2;
        }
    };
    // ---- (b) two tenants, same local ids
    for id in 1..=3u64 {
        let (c, ok) = k.insert(Some(if id == 2 { KEY_A2 } else { KEY_A1 }), id, vec_for("a", id), &format!("acme-{id}"));
        if !ok {
            eprintln!("C10S: machinery error: acme insert {id}: {c}");
            srv.kill();
            return 2;
        }
    }
    for id in 1..=4u64 {
        let (c, ok) = k.insert(Some(KEY_B), id, vec_for("b", id), &format!("beta-{id}"));
        if !ok {
            eprintln!("C10S: machinery error: beta insert {id}: {c}");
            srv.kill();
            return 2;
        }
    }
    let expect_a: BTreeMap<u64, String> = (1..=3u64).map(|i| (i, format!("acme-{i}"))).collect();
    let mut expect_b: BTreeMap<u64, String> = (1..=4u64).map(|i| (i, format!("beta-{i}"))).collect();
    let isolation = |k: &mut Kc, viol: &mut SigBag, phase: &str, expect_a: &BTreeMap<u64, String>, expect_b: &BTreeMap<u64, String>, checks: &mut u64| {
        for (key, name, exp) in [(KEY_A1, "acme(key1)", expect_a), (KEY_A2, "acme(key2)", expect_a), (KEY_B, "beta", expect_b)] {
            *checks += 1;
            let got = view(k, key);
            if &got != exp {
                viol.push((format!("C10|server|{phase}|tenant-sees-wrong-collection"), json!({"engine":"srvmc","check":"C10S","detail":format!("{name} sees {got:?}, expected {exp:?}")})));
            }
            *checks += 1;
            let (c, ids) = k.bulk_query(Some(key), &[1, 2, 3, 4, 5, 6]);
            if c != "OK" || ids != exp.keys().cloned().collect::<Vec<_>>() {
                viol.push((format!("C10|server|{phase}|bulk-query-sees-wrong-collection"), json!({"engine":"srvmc","check":"C10S","detail":format!("{name}: BulkQuery {c} found {ids:?}, expected {:?}", exp.keys().collect::<Vec<_>>())})));
            }
            *checks += 1;
            let (c, mut ids) = k.search_ids(Some(key), [2.0, 1.0, 0.0], 10);
            ids.sort_unstable();
            if c != "OK" || ids.iter().any(|i| !exp.contains_key(i)) || ids.len() != exp.len() {
                viol.push((format!("C10|server|{phase}|search-sees-wrong-collection"), json!({"engine":"srvmc","check":"C10S","detail":format!("{name}: Search {c} returned local ids {ids:?}, expected exactly {:?}", exp.keys().collect::<Vec<_>>())})));
            }
        }
    };
    isolation(&mut k, &mut viol, "first-boot", &expect_a, &expect_b, &mut checks);
    // cross-tenant writes on a local id only the other tenant holds
    checks += 1;
    let (c, existed) = k.update(Some(KEY_A1), 4, "hijack");
    if existed {
        v(&mut viol, "C10|server|first-boot|update-reaches-other-tenants-document", format!("acme UpdateMetadata(4) -> {c}, existed=true (only beta holds local id 4)"));
    }
    // (Delete answers success for an absent document too; whether it reached beta's document is
    // decided by the views below)
    let _ = k.delete(Some(KEY_A1), 4);
    let _ = k.batch_delete(Some(KEY_A1), &[4, 5]);
    isolation(&mut k, &mut viol, "after-cross-tenant-writes", &expect_a, &expect_b, &mut checks);
    // ---- (a) key matrix
    let before_b = view(&mut k, KEY_B);
    for (kname, key, bearer) in [("no-key", None, false), ("unknown-key", Some("kyro_acme_ffffffffffffffffffffffffffffffff"), false), ("disabled-key", Some(KEY_DIS), false), ("empty-key", Some(""), false), ("bearer-unknown", Some("kyro_beta_ffffffffffffffffffffffffffffffff"), true)] {
        let mut outcomes: Vec<(&str, String)> = Vec::new();
        outcomes.push(("Insert", { let m = InsertRequest { doc_id: 5, embedding: vec![5.0, 1.0, 0.0], metadata: Default::default(), namespace: String::new() }; code(&k.rt.block_on(k.c.insert(req(m, key, bearer)))) }));
        outcomes.push(("Query", k.query(key, bearer, 1).0));
        outcomes.push(("BulkQuery", k.bulk_query(key, &[1, 2]).0));
        outcomes.push(("Search", k.search_ids(key, [1.0, 1.0, 0.0], 2).0));
        outcomes.push(("UpdateMetadata", k.update(key, 1, "x").0));
        outcomes.push(("Delete", k.delete(key, 1).0));
        outcomes.push(("BatchDelete", k.batch_delete(key, &[1, 2])));
        outcomes.push(("FlushHotTier", k.flush(key)));
        outcomes.push(("BulkInsert", k.bulk_insert(key, 6)));
        for (rpc, c) in outcomes {
            checks += 1;
            if c != "Unauthenticated" {
                v(&mut viol, &format!("C10|server|{kname}|{rpc}|not-refused-as-unauthenticated"), format!("{rpc} with {kname} answered {c}"));
            }
        }
    }
    checks += 2;
    if view(&mut k, KEY_B) != before_b || view(&mut k, KEY_A1) != expect_a {
        v(&mut viol, "C10|server|unauthenticated-request-changed-a-collection", format!("beta before {before_b:?} after {:?}", view(&mut k, KEY_B)));
    }
    // ---- (c) quotas: acme is at max_vectors = 3
    let quota_probe = |k: &mut Kc, viol: &mut SigBag, phase: &str, checks: &mut u64| {
        *checks += 4;
        let (c, ok) = k.insert(Some(KEY_A1), 5, [5.0, 1.0, 0.0], "acme-5");
        if ok || c != "ResourceExhausted" {
            viol.push((format!("C14|server|{phase}|insert-at-limit-not-refused"), json!({"engine":"srvmc","check":"C10S","detail":format!("acme holds 3 of 3, Insert(5) answered {c} success={ok}")})));
            let _ = k.delete(Some(KEY_A1), 5);
        }
        // overwrite at the limit is allowed
        let (c, ok) = k.insert(Some(KEY_A2), 2, vec_for("a", 2), "acme-2");
        if !ok {
            viol.push((format!("C14|server|{phase}|overwrite-at-limit-refused"), json!({"engine":"srvmc","check":"C10S","detail":format!("overwrite of a live document at the limit answered {c}")})));
        }
        let (_, ok) = k.delete(Some(KEY_A1), 3);
        let (c2, ok2) = k.insert(Some(KEY_A1), 6, [6.0, 1.0, 0.0], "acme-6");
        if !ok || !ok2 {
            viol.push((format!("C14|server|{phase}|refused-below-limit"), json!({"engine":"srvmc","check":"C10S","detail":format!("after deleting one of 3, Insert(6) answered {c2} success={ok2} (delete success={ok})")})));
        }
        let (c3, ok3) = k.insert(Some(KEY_A1), 5, [5.0, 1.0, 0.0], "acme-5");
        if ok3 || c3 != "ResourceExhausted" {
            viol.push((format!("C14|server|{phase}|insert-at-limit-not-refused"), json!({"engine":"srvmc","check":"C10S","detail":format!("acme holds 3 of 3 again, Insert(5) answered {c3} success={ok3}")})));
            let _ = k.delete(Some(KEY_A1), 5);
        }
        // restore {1,2,3}
        let _ = k.delete(Some(KEY_A1), 6);
        let _ = k.insert(Some(KEY_A1), 3, vec_for("a", 3), "acme-3");
    };
    quota_probe(&mut k, &mut viol, "first-boot", &mut checks);
    isolation(&mut k, &mut viol, "after-quota-probe", &expect_a, &expect_b, &mut checks);
    // ---- restart through the real main(), with one more tenant in the key file
    drop(k);
    let codex = srv.stop();
    if codex != Some(0) {
        v(&mut viol, "C10|server|graceful-shutdown-exit-code", format!("{codex:?}"));
    }
    std::fs::write(&keys, keys_yaml(true)).unwrap();
    let srv = start!();
    let mut k = match Kc::connect(srv.port) {
        Ok(k) => k,
        Err(e) => {
            eprintln!("C10S: machinery error: connect after restart: {e}");
            srv.kill();
            return 2;
        }
    };
    isolation(&mut k, &mut viol, "after-restart", &expect_a, &expect_b, &mut checks);
    // the new tenant starts empty and cannot reach anybody
    checks += 1;
    let g = view(&mut k, KEY_C);
    if !g.is_empty() {
        v(&mut viol, "C10|server|after-restart|new-tenant-sees-existing-documents", format!("gamma sees {g:?}"));
    }
    for id in 1..=2u64 {
        let _ = k.insert(Some(KEY_C), id, vec_for("c", id), &format!("gamma-{id}"));
    }
    let _ = k.delete(Some(KEY_C), 3);
    let _ = k.update(Some(KEY_C), 4, "hijack");
    isolation(&mut k, &mut viol, "after-new-tenant-writes", &expect_a, &expect_b, &mut checks);
    quota_probe(&mut k, &mut viol, "after-restart", &mut checks);
    // second restart: the new tenant keeps its own documents too
    expect_b.insert(5, "beta-5".into());
    let _ = k.insert(Some(KEY_B), 5, vec_for("b", 5), "beta-5");
    drop(k);
    let _ = srv.stop();
    let srv = start!();
    let mut k = match Kc::connect(srv.port) {
        Ok(k) => k,
        Err(e) => {
            eprintln!("C10S: machinery error: connect after second restart: {e}");
            srv.kill();
            return 2;
        }
    };
    isolation(&mut k, &mut viol, "after-second-restart", &expect_a, &expect_b, &mut checks);
    checks += 1;
    let g = view(&mut k, KEY_C);
    let eg: BTreeMap<u64, String> = (1..=2u64).map(|i| (i, format!("gamma-{i}"))).collect();
    if g != eg {
        v(&mut viol, "C10|server|after-second-restart|tenant-sees-wrong-collection", format!("gamma sees {g:?}, expected {eg:?}"));
    }
    quota_probe(&mut k, &mut viol, "after-second-restart", &mut checks);
    drop(k);
    srv.kill();
    release_ports();
    println!("C10S-RESULT {}", json!({"launches":launches,"checks":checks,"violations":viol.to_json()}));
    0
}
