//! C18, server-level slice: "the server refuses to start on a rejected configuration". The REAL
//! binary is launched with one configuration per (environment, single violated condition) and
//! per delivery route (TOML file, YAML file, environment overrides); an unsafe configuration
//! must make the process exit with a non-zero status before its gRPC port opens. Safe
//! configurations are launched too, to show the slice is not vacuous (they must start).
//!
//! Output: one line `C18S-RESULT <json>`.

use crate::realbin::*;
use serde_json::{json, Value};
use std::collections::BTreeMap;
use vcore::findings::SigBag;

type Settings = Vec<(String, Value)>;

fn base(env: &str, data_dir: &str, keys: &str) -> Settings {
    let mut v: Settings = vec![
        ("environment.type".into(), json!(env)),
        ("server.host".into(), json!("127.0.0.1")),
        ("persistence.data_dir".into(), json!(data_dir)),
        ("persistence.fsync_policy".into(), json!("data_only")),
        ("persistence.snapshot_interval_mutations".into(), json!(5)),
        ("persistence.recovery_mode".into(), json!("strict")),
        ("persistence.allow_fresh_start_on_recovery_failure".into(), json!(false)),
        ("cache.strategy".into(), json!("learned")),
        ("cache.enable_training_task".into(), json!(false)),
        ("hnsw.dimension".into(), json!(3)),
        ("hnsw.max_elements".into(), json!(64)),
        ("logging.level".into(), json!("warn")),
    ];
    if env == "pilot" {
        v.push(("auth.enabled".into(), json!(true)));
        v.push(("auth.api_keys_file".into(), json!(keys)));
        v.push(("rate_limit.enabled".into(), json!(true)));
        v.push(("server.observability_auth".into(), json!("metrics_and_slo")));
    }
    v
}

fn with(mut s: Settings, over: &[(&str, Value)]) -> Settings {
    for (k, val) in over {
        if let Some(e) = s.iter_mut().find(|(kk, _)| kk == k) {
            e.1 = val.clone();
        } else {
            s.push((k.to_string(), val.clone()));
        }
    }
    s
}

fn nest(settings: &Settings) -> serde_json::Map<String, Value> {
    let mut root = serde_json::Map::new();
    for (path, val) in settings {
        let parts: Vec<&str> = path.split('.').collect();
        let mut cur = &mut root;
        for p in &parts[..parts.len() - 1] {
            cur = cur.entry(p.to_string()).or_insert_with(|| Value::Object(Default::default())).as_object_mut().unwrap();
        }
        cur.insert(parts[parts.len() - 1].to_string(), val.clone());
    }
    root
}

fn scalar(v: &Value) -> String {
    match v {
        Value::String(s) => format!("{s:?}"),
        other => other.to_string(),
    }
}

fn toml_emit(prefix: &str, obj: &serde_json::Map<String, Value>, out: &mut String) {
    if !prefix.is_empty() {
        out.push_str(&format!("[{prefix}]\n"));
    }
    for (k, v) in obj {
        if !v.is_object() {
            out.push_str(&format!("{k} = {}\n", scalar(v)));
        }
    }
    for (k, v) in obj {
        if let Some(o) = v.as_object() {
            let p = if prefix.is_empty() { k.clone() } else { format!("{prefix}.{k}") };
            toml_emit(&p, o, out);
        }
    }
}

fn yaml_emit(indent: usize, obj: &serde_json::Map<String, Value>, out: &mut String) {
    for (k, v) in obj {
        if let Some(o) = v.as_object() {
            out.push_str(&format!("{}{k}:\n", " ".repeat(indent)));
            yaml_emit(indent + 2, o, out);
        } else {
            out.push_str(&format!("{}{k}: {}\n", " ".repeat(indent), scalar(v)));
        }
    }
}

struct Case {
    name: String,
    env: String,
    unsafe_reason: Option<&'static str>,
    over: Vec<(&'static str, Value)>,
}

fn cases() -> Vec<Case> {
    let mut v = Vec::new();
    for env in ["production", "pilot"] {
        v.push(Case { name: format!("{env}: safe baseline"), env: env.into(), unsafe_reason: None, over: vec![] });
        for (reason, over) in [
            ("fsync-disabled", vec![("persistence.fsync_policy", json!("none"))]),
            ("snapshots-disabled", vec![("persistence.snapshot_interval_mutations", json!(0))]),
            ("recovery-not-strict", vec![("persistence.recovery_mode", json!("best_effort"))]),
            ("cache-strategy-not-learned", vec![("cache.strategy", json!("lru"))]),
            ("cache-strategy-not-learned", vec![("cache.strategy", json!("abtest"))]),
        ] {
            v.push(Case { name: format!("{env}: {reason} {:?}", over[0].1), env: env.into(), unsafe_reason: Some(reason), over });
        }
    }
    for (reason, over) in [
        ("pilot-without-auth", vec![("auth.enabled", json!(false)), ("server.observability_auth", json!("disabled"))]),
        ("pilot-without-rate-limit", vec![("rate_limit.enabled", json!(false))]),
        ("pilot-unprotected-observability", vec![("server.observability_auth", json!("disabled"))]),
        ("pilot-fresh-start-after-failed-recovery", vec![("persistence.allow_fresh_start_on_recovery_failure", json!(true))]),
        ("pilot-non-loopback-without-tls", vec![("server.host", json!("0.0.0.0"))]),
        ("pilot-non-loopback-without-tls", vec![("server.host", json!("0.0.0.0")), ("server.http_host", json!("127.0.0.1"))]),
    ] {
        v.push(Case { name: format!("pilot: {reason} {:?}", over.iter().map(|x| x.0).collect::<Vec<_>>()), env: "pilot".into(), unsafe_reason: Some(reason), over });
    }
    v.push(Case { name: "production: non-loopback without auth".into(), env: "production".into(), unsafe_reason: Some("production-non-loopback-without-auth"), over: vec![("server.host", json!("0.0.0.0"))] });
    v.push(Case { name: "unknown environment".into(), env: "staging".into(), unsafe_reason: Some("unknown-environment-accepted"), over: vec![] });
    // benchmark accepts everything
    v.push(Case { name: "benchmark: everything off".into(), env: "benchmark".into(), unsafe_reason: None, over: vec![("persistence.fsync_policy", json!("none")), ("persistence.snapshot_interval_mutations", json!(0)), ("persistence.recovery_mode", json!("best_effort")), ("cache.strategy", json!("lru"))] });
    v
}

pub fn run(_tier: &str) -> i32 {
    let scratch = vcore::Scratch::new("c18s");
    let keys = scratch.path.join("keys.yaml");
    std::fs::write(&keys, "api_keys:\n  - key: kyro_verif_00000000000000000000000000000001\n    tenant_id: verif\n    tenant_name: Verif\n    max_qps: 1000\n    max_vectors: 1000\n    enabled: true\n").unwrap();
    let cs = cases();
    let mut jobs: Vec<(usize, &str)> = Vec::new();
    for i in 0..cs.len() {
        for route in ["toml", "yaml", "env"] {
            jobs.push((i, route));
        }
    }
    let results = vcore::par::par_map(&jobs, |ji, (ci, route)| {
        let c = &cs[*ci];
        let work = scratch.path.join(format!("w{ji}"));
        std::fs::create_dir_all(work.join("data")).unwrap();
        let s = with(base(&c.env, &work.join("data").to_string_lossy(), &keys.to_string_lossy()), &c.over.iter().map(|(k, v)| (*k, v.clone())).collect::<Vec<_>>());
        let mut envs: Vec<(String, String)> = Vec::new();
        let cfgp = match *route {
            "toml" => {
                let mut t = String::new();
                toml_emit("", &nest(&s), &mut t);
                let p = work.join("c.toml");
                std::fs::write(&p, t).unwrap();
                p
            }
            "yaml" => {
                let mut t = String::new();
                yaml_emit(0, &nest(&s), &mut t);
                let p = work.join("c.yaml");
                std::fs::write(&p, t).unwrap();
                p
            }
            _ => {
                for (k, v) in &s {
                    let val = match v {
                        Value::String(x) => x.clone(),
                        o => o.to_string(),
                    };
                    envs.push((format!("KYRODB__{}", k.to_ascii_uppercase().replace('.', "__")), val));
                }
                // an empty file: everything arrives through the environment
                let p = work.join("empty.toml");
                std::fs::write(&p, "").unwrap();
                p
            }
        };
        let out = match launch(&cfgp, free_port(), free_port(), &envs, &work) {
            Launch::Refused { code, log_tail } => ("refused", code, log_tail),
            Launch::Hung { log_tail } => ("hung", None, log_tail),
            Launch::Started(srv) => {
                let lt = srv.log_tail(2);
                srv.kill();
                ("started", None, lt)
            }
        };
        let _ = std::fs::remove_dir_all(&work);
        (*ci, route.to_string(), out)
    });
    let mut viol = SigBag::default();
    let mut outcomes: BTreeMap<String, u64> = BTreeMap::new();
    let mut refused_unsafe = 0u64;
    let mut started_safe = 0u64;
    for (ci, route, (verdict, code, logt)) in results {
        let c = &cs[ci];
        *outcomes.entry(format!("{}|{}|{}", c.unsafe_reason.unwrap_or("safe"), route, verdict)).or_insert(0) += 1;
        match (c.unsafe_reason, verdict) {
            (Some(_), "refused") => {
                if code == Some(0) {
                    viol.push((format!("C18|server|rejected-configuration-exits-with-status-0|via={route}"), json!({"engine":"srvmc","check":"C18S","case":c.name,"route":route,"detail":logt})));
                } else {
                    refused_unsafe += 1;
                }
            }
            (Some(reason), v) => {
                viol.push((format!("C18|server|starts-on-unsafe-configuration|{reason}|via={route}"), json!({"engine":"srvmc","check":"C18S","case":c.name,"route":route,"verdict":v,"detail":logt})));
            }
            (None, "started") => started_safe += 1,
            (None, v) => {
                // a safe configuration that does not start is not a C18 violation, but the slice
                // must know (vacuity guard below)
                eprintln!("C18S: note: safe configuration {:?} via {route} did not start ({v}, exit {code:?}): {logt}", c.name);
            }
        }
    }
    if started_safe == 0 {
        eprintln!("C18S: machinery error: no safe configuration started; the slice cannot tell refusal from breakage");
        return 2;
    }
    release_ports();
    println!("C18S-RESULT {}", json!({"launches":jobs.len(),"cases":cs.len(),"unsafe_refused":refused_unsafe,"safe_started":started_safe,"outcomes":outcomes,"violations":viol.to_json()}));
    0
}
