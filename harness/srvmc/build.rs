// Copies /repo/engine/src/bin/kyrodb_server.rs (current working tree) into src/gen/ and appends
// the verification driver as a child module: a child module sees the parent's private items, so
// the driver constructs ServerState / KyroDBServiceImpl and calls the real handlers directly.
use std::fs;
fn main() {
    let src = "/repo/engine/src/bin/kyrodb_server.rs";
    println!("cargo:rerun-if-changed={src}");
    println!("cargo:rerun-if-changed=src/driver_tail.rs");
    println!("cargo:rerun-if-changed=build.rs");
    let mut s = fs::read_to_string(src).expect("read kyrodb_server.rs");
    let tail = fs::read_to_string("src/driver_tail.rs").expect("read driver_tail.rs");
    s.push_str("\n\n// ===== appended by /verif/harness/srvmc/build.rs =====\n");
    s.push_str(&tail);
    fs::create_dir_all("src/gen").unwrap();
    let out = "src/gen/kyrodb_server.rs";
    let same = fs::read_to_string(out).map(|o| o == s).unwrap_or(false);
    if !same {
        fs::write(out, s).unwrap();
    }
    println!("cargo:rustc-env=GIT_COMMIT_HASH=verif");
    println!("cargo:rustc-env=GIT_BRANCH=verif");
    println!("cargo:rustc-env=TARGET_TRIPLE=x86_64-unknown-linux-gnu");
    println!("cargo:rustc-env=CARGO_FEATURES=");
}
