//! API-compatible stand-in for the subset of `parking_lot` 0.12.5 that kyrodb-engine uses.
//!
//! Every lock is a small explicit state machine (`raw::RawRw`) whose transition rules follow
//! parking_lot's writer-preferring `RawRwLock`:
//!   * a writer first *claims* the writer bit (possible when no writer bit / upgradable holder),
//!     then waits for the readers to drain;
//!   * a (non-recursive) reader is blocked while the writer bit is set — i.e. also while a
//!     writer is merely waiting for older readers;
//!   * upgradable readers exclude each other and writers, not plain readers.
//! Threads that are not registered with the scheduler (`sched`) block on a condvar with exactly
//! those rules ("pass-through"). Threads registered with the scheduler never block: every
//! acquire is a scheduling point and is granted only when the state machine enables it.

pub mod raw;
pub mod sched;

use raw::{Kind, RawRw};
use std::cell::UnsafeCell;
use std::ops::{Deref, DerefMut};

pub mod deadlock {
    //! Stub of `parking_lot::deadlock` (feature `deadlock_detection`). Deadlocks are found by
    //! the scheduler, not by this background detector.
    pub struct DeadlockedThread {
        bt: std::backtrace::Backtrace,
    }
    impl DeadlockedThread {
        pub fn thread_id(&self) -> usize {
            0
        }
        pub fn backtrace(&self) -> &std::backtrace::Backtrace {
            &self.bt
        }
    }
    pub fn check_deadlock() -> Vec<Vec<DeadlockedThread>> {
        Vec::new()
    }
}

// ---------------------------------------------------------------------------------------------
// Mutex
// ---------------------------------------------------------------------------------------------

pub struct Mutex<T: ?Sized> {
    raw: RawRw,
    data: UnsafeCell<T>,
}
unsafe impl<T: ?Sized + Send> Send for Mutex<T> {}
unsafe impl<T: ?Sized + Send> Sync for Mutex<T> {}

pub struct MutexGuard<'a, T: ?Sized> {
    m: &'a Mutex<T>,
    tok: raw::HoldToken,
    _not_send: std::marker::PhantomData<*const ()>,
}
unsafe impl<'a, T: ?Sized + Sync> Sync for MutexGuard<'a, T> {}

impl<T> Mutex<T> {
    #[track_caller]
    pub fn new(v: T) -> Self {
        Mutex {
            raw: RawRw::new(std::panic::Location::caller(), true),
            data: UnsafeCell::new(v),
        }
    }
    pub fn into_inner(self) -> T {
        self.data.into_inner()
    }
}
impl<T: ?Sized> Mutex<T> {
    pub fn lock(&self) -> MutexGuard<'_, T> {
        let tok = self.raw.acquire(Kind::Write);
        MutexGuard { m: self, tok, _not_send: std::marker::PhantomData }
    }
    pub fn try_lock(&self) -> Option<MutexGuard<'_, T>> {
        self.raw
            .try_acquire(Kind::TryWrite)
            .map(|tok| MutexGuard { m: self, tok, _not_send: std::marker::PhantomData })
    }
    pub fn get_mut(&mut self) -> &mut T {
        self.data.get_mut()
    }
    pub fn is_locked(&self) -> bool {
        self.raw.is_write_locked()
    }
}
impl<T: Default> Default for Mutex<T> {
    #[track_caller]
    fn default() -> Self {
        Mutex::new(T::default())
    }
}
impl<T: ?Sized + std::fmt::Debug> std::fmt::Debug for Mutex<T> {
    fn fmt(&self, f: &mut std::fmt::Formatter<'_>) -> std::fmt::Result {
        f.write_str("Mutex { .. }")
    }
}
impl<'a, T: ?Sized> Deref for MutexGuard<'a, T> {
    type Target = T;
    fn deref(&self) -> &T {
        unsafe { &*self.m.data.get() }
    }
}
impl<'a, T: ?Sized> DerefMut for MutexGuard<'a, T> {
    fn deref_mut(&mut self) -> &mut T {
        unsafe { &mut *self.m.data.get() }
    }
}
impl<'a, T: ?Sized> Drop for MutexGuard<'a, T> {
    fn drop(&mut self) {
        self.m.raw.release(Kind::Write, &self.tok);
    }
}

// ---------------------------------------------------------------------------------------------
// RwLock
// ---------------------------------------------------------------------------------------------

pub struct RwLock<T: ?Sized> {
    raw: RawRw,
    data: UnsafeCell<T>,
}
unsafe impl<T: ?Sized + Send> Send for RwLock<T> {}
unsafe impl<T: ?Sized + Send + Sync> Sync for RwLock<T> {}

pub struct RwLockReadGuard<'a, T: ?Sized> {
    l: &'a RwLock<T>,
    tok: raw::HoldToken,
    _not_send: std::marker::PhantomData<*const ()>,
}
pub struct RwLockWriteGuard<'a, T: ?Sized> {
    l: &'a RwLock<T>,
    tok: raw::HoldToken,
    _not_send: std::marker::PhantomData<*const ()>,
}
pub struct RwLockUpgradableReadGuard<'a, T: ?Sized> {
    l: &'a RwLock<T>,
    tok: raw::HoldToken,
    _not_send: std::marker::PhantomData<*const ()>,
}
unsafe impl<'a, T: ?Sized + Sync> Sync for RwLockReadGuard<'a, T> {}
unsafe impl<'a, T: ?Sized + Sync> Sync for RwLockWriteGuard<'a, T> {}
unsafe impl<'a, T: ?Sized + Sync> Sync for RwLockUpgradableReadGuard<'a, T> {}

impl<T> RwLock<T> {
    #[track_caller]
    pub fn new(v: T) -> Self {
        RwLock {
            raw: RawRw::new(std::panic::Location::caller(), false),
            data: UnsafeCell::new(v),
        }
    }
    pub fn into_inner(self) -> T {
        self.data.into_inner()
    }
}
impl<T: ?Sized> RwLock<T> {
    pub fn read(&self) -> RwLockReadGuard<'_, T> {
        let tok = self.raw.acquire(Kind::Read);
        RwLockReadGuard { l: self, tok, _not_send: std::marker::PhantomData }
    }
    pub fn write(&self) -> RwLockWriteGuard<'_, T> {
        let tok = self.raw.acquire(Kind::Write);
        RwLockWriteGuard { l: self, tok, _not_send: std::marker::PhantomData }
    }
    pub fn upgradable_read(&self) -> RwLockUpgradableReadGuard<'_, T> {
        let tok = self.raw.acquire(Kind::Upgradable);
        RwLockUpgradableReadGuard { l: self, tok, _not_send: std::marker::PhantomData }
    }
    pub fn try_read(&self) -> Option<RwLockReadGuard<'_, T>> {
        self.raw
            .try_acquire(Kind::TryRead)
            .map(|tok| RwLockReadGuard { l: self, tok, _not_send: std::marker::PhantomData })
    }
    pub fn try_write(&self) -> Option<RwLockWriteGuard<'_, T>> {
        self.raw
            .try_acquire(Kind::TryWrite)
            .map(|tok| RwLockWriteGuard { l: self, tok, _not_send: std::marker::PhantomData })
    }
    pub fn get_mut(&mut self) -> &mut T {
        self.data.get_mut()
    }
    pub fn is_locked(&self) -> bool {
        self.raw.is_locked()
    }
}
impl<T: Default> Default for RwLock<T> {
    #[track_caller]
    fn default() -> Self {
        RwLock::new(T::default())
    }
}
impl<T: ?Sized + std::fmt::Debug> std::fmt::Debug for RwLock<T> {
    fn fmt(&self, f: &mut std::fmt::Formatter<'_>) -> std::fmt::Result {
        f.write_str("RwLock { .. }")
    }
}

impl<'a, T: ?Sized> Deref for RwLockReadGuard<'a, T> {
    type Target = T;
    fn deref(&self) -> &T {
        unsafe { &*self.l.data.get() }
    }
}
impl<'a, T: ?Sized> Drop for RwLockReadGuard<'a, T> {
    fn drop(&mut self) {
        self.l.raw.release(Kind::Read, &self.tok);
    }
}
impl<'a, T: ?Sized> Deref for RwLockWriteGuard<'a, T> {
    type Target = T;
    fn deref(&self) -> &T {
        unsafe { &*self.l.data.get() }
    }
}
impl<'a, T: ?Sized> DerefMut for RwLockWriteGuard<'a, T> {
    fn deref_mut(&mut self) -> &mut T {
        unsafe { &mut *self.l.data.get() }
    }
}
impl<'a, T: ?Sized> Drop for RwLockWriteGuard<'a, T> {
    fn drop(&mut self) {
        self.l.raw.release(Kind::Write, &self.tok);
    }
}
impl<'a, T: ?Sized> Deref for RwLockUpgradableReadGuard<'a, T> {
    type Target = T;
    fn deref(&self) -> &T {
        unsafe { &*self.l.data.get() }
    }
}
impl<'a, T: ?Sized> Drop for RwLockUpgradableReadGuard<'a, T> {
    fn drop(&mut self) {
        self.l.raw.release(Kind::Upgradable, &self.tok);
    }
}
impl<'a, T: ?Sized> RwLockUpgradableReadGuard<'a, T> {
    /// Atomically upgrades an upgradable read lock into an exclusive write lock, blocking until
    /// the other readers have left.
    pub fn upgrade(s: Self) -> RwLockWriteGuard<'a, T> {
        let l = s.l;
        let tok = s.tok.clone();
        std::mem::forget(s);
        let tok = l.raw.upgrade(tok);
        RwLockWriteGuard { l, tok, _not_send: std::marker::PhantomData }
    }
    pub fn try_upgrade(s: Self) -> Result<RwLockWriteGuard<'a, T>, Self> {
        let l = s.l;
        match l.raw.try_upgrade(&s.tok) {
            Some(tok) => {
                std::mem::forget(s);
                Ok(RwLockWriteGuard { l, tok, _not_send: std::marker::PhantomData })
            }
            None => Err(s),
        }
    }
}
impl<'a, T: ?Sized> RwLockWriteGuard<'a, T> {
    pub fn downgrade(s: Self) -> RwLockReadGuard<'a, T> {
        let l = s.l;
        let tok = s.tok.clone();
        std::mem::forget(s);
        let tok = l.raw.downgrade(tok);
        RwLockReadGuard { l, tok, _not_send: std::marker::PhantomData }
    }
}
