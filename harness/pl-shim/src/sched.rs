//! CHESS-style controlled scheduler: real OS threads, one baton, scheduling points before every
//! lock acquisition step, choices driven by a prefix (replay) + default policy.
//!
//! An execution is a deterministic function of its choice list as long as the thread bodies are
//! deterministic between lock operations.

use crate::raw::{Applied, Kind, Phase, RawRw};
use std::cell::Cell;
use std::collections::{BTreeMap, BTreeSet};
use std::sync::atomic::{AtomicU64, Ordering};
use std::sync::{Arc, Condvar, Mutex as StdMutex};
use std::time::{Duration, Instant};

thread_local! {
    static TID: Cell<Option<usize>> = const { Cell::new(None) };
    static LOCAL_KEYS: Cell<u64> = const { Cell::new(0) };
}
static GLOBAL_KEYS: AtomicU64 = AtomicU64::new(1);

/// Reset the creation counter used to name locks created by uncontrolled threads (the harness
/// calls this before constructing a fresh engine so that lock keys repeat across executions).
pub fn reset_lock_keys() {
    GLOBAL_KEYS.store(1, Ordering::SeqCst);
}

pub(crate) fn next_lock_key() -> u64 {
    match TID.with(|t| t.get()) {
        Some(tid) => LOCAL_KEYS.with(|c| {
            let v = c.get() + 1;
            c.set(v);
            ((tid as u64 + 1) << 40) | v
        }),
        None => GLOBAL_KEYS.fetch_add(1, Ordering::SeqCst),
    }
}

pub fn is_controlled() -> bool {
    TID.with(|t| t.get()).is_some()
}
pub fn current_tid() -> Option<usize> {
    TID.with(|t| t.get())
}

#[derive(Clone, Copy, Debug, PartialEq, Eq, Hash, PartialOrd, Ord)]
pub enum Mode {
    R,
    W,
    U,
}

#[derive(Clone, Debug)]
pub enum LockEvt {
    /// (lock key, phase, result ok)
    Acq(u64, Phase, bool),
    Rel(u64, Kind),
    Downgrade(u64),
    Mark(String),
}

#[derive(Clone, Debug)]
pub struct PointRec {
    /// tids enabled at this point in canonical order (current first if enabled)
    pub enabled: Vec<u8>,
    pub chosen: u8,
    /// whether the thread that was running is in `enabled` (switching away then costs 1)
    pub cur_enabled: bool,
    /// preemptions used *before* this point
    pub preempt_before: u16,
    /// false for points where no branching is allowed (independent op of the running thread)
    pub branching: bool,
}

#[derive(Clone, Debug, PartialEq, Eq)]
pub enum Outcome {
    Completed,
    /// (tid, lock key, phase, site) for every blocked thread
    Deadlock(Vec<(usize, u64, String, String)>),
    Horizon,
    Stalled,
}

#[derive(Clone, Debug, Default)]
pub struct Touch {
    pub tids: u32,
    pub nonread: bool,
    pub site: String,
    pub is_mutex: bool,
}

#[derive(Clone, Debug)]
pub struct ExecResult {
    pub outcome: Outcome,
    pub points: Vec<PointRec>,
    pub choices: Vec<u8>,
    pub steps: usize,
    pub preemptions: usize,
    pub touches: BTreeMap<u64, Touch>,
    /// lock-order edges: (held key, held mode, requested key, requested mode)
    pub edges: BTreeSet<(u64, Mode, u64, Mode)>,
    pub optrace: Vec<Vec<LockEvt>>,
    /// global grant order (thread, lock key, phase) when record_trace is on
    pub order: Vec<(usize, u64, String)>,
    pub panics: Vec<(usize, String)>,
    pub diverged: bool,
}

#[derive(Clone, Copy)]
struct Pending {
    raw: usize, // *const RawRw, 0 for Start
    phase: Phase,
    start: bool,
}

#[derive(Clone, Copy, PartialEq, Eq, Debug)]
enum ThState {
    NotStarted,
    Pending,
    Running,
    Finished,
}

struct Th {
    state: ThState,
    pending: Option<Pending>,
    grant: Applied,
    held: Vec<(u64, Mode)>,
}

struct Exec {
    threads: Vec<Th>,
    prefix: Vec<u8>,
    pos: usize,
    points: Vec<PointRec>,
    choices: Vec<u8>,
    steps: usize,
    max_steps: usize,
    preemptions: usize,
    outcome: Option<Outcome>,
    abort: bool,
    stamp: u64,
    touches: BTreeMap<u64, Touch>,
    edges: BTreeSet<(u64, Mode, u64, Mode)>,
    optrace: Vec<Vec<LockEvt>>,
    order: Vec<(usize, u64, String)>,
    /// keys on which branching is allowed; None = branch everywhere
    conflict: Option<Arc<BTreeSet<u64>>>,
    diverged: bool,
    record_trace: bool,
}

static EXEC: StdMutex<Option<Exec>> = StdMutex::new(None);
static CV: Condvar = Condvar::new();

pub struct SchedAbort;

fn lock_exec() -> std::sync::MutexGuard<'static, Option<Exec>> {
    match EXEC.lock() {
        Ok(g) => g,
        Err(p) => p.into_inner(),
    }
}

fn mode_of(phase: Phase) -> Mode {
    match phase {
        Phase::Read | Phase::TryRead => Mode::R,
        Phase::Upgradable => Mode::U,
        _ => Mode::W,
    }
}

impl Exec {
    fn pending_enabled(&self, t: usize) -> bool {
        let th = &self.threads[t];
        if th.state != ThState::Pending {
            return false;
        }
        let p = th.pending.unwrap();
        if p.start {
            return true;
        }
        let raw = unsafe { &*(p.raw as *const RawRw) };
        let s = raw.st.lock().unwrap_or_else(|e| e.into_inner());
        s.can(p.phase)
    }

    fn blocked_by_uncontrolled(&self) -> bool {
        for th in &self.threads {
            if th.state == ThState::Pending {
                let p = th.pending.unwrap();
                if p.start {
                    continue;
                }
                let raw = unsafe { &*(p.raw as *const RawRw) };
                let s = raw.st.lock().unwrap_or_else(|e| e.into_inner());
                if s.unc > 0 {
                    return true;
                }
            }
        }
        false
    }

    /// Pick and grant the next thread. Returns false if the execution ended (outcome set) or a
    /// stall on an uncontrolled holder needs a retry (outcome None and nothing granted).
    fn reschedule(&mut self, me: Option<usize>) -> bool {
        let n = self.threads.len();
        let mut enabled: Vec<usize> = Vec::with_capacity(n);
        let me_enabled = me.map(|m| self.pending_enabled(m)).unwrap_or(false);
        if me_enabled {
            enabled.push(me.unwrap());
        }
        for t in 0..n {
            if Some(t) != me && self.pending_enabled(t) {
                enabled.push(t);
            }
        }
        if enabled.is_empty() {
            if self.threads.iter().all(|t| t.state == ThState::Finished) {
                self.outcome = Some(Outcome::Completed);
                return false;
            }
            if self.blocked_by_uncontrolled() {
                return false; // caller polls
            }
            let mut blocked = Vec::new();
            for (i, th) in self.threads.iter().enumerate() {
                if th.state == ThState::Pending {
                    let p = th.pending.unwrap();
                    let raw = unsafe { &*(p.raw as *const RawRw) };
                    blocked.push((
                        i,
                        raw.key,
                        format!("{:?}", p.phase),
                        format!("{}:{}", raw.site.file(), raw.site.line()),
                    ));
                }
            }
            self.outcome = Some(Outcome::Deadlock(blocked));
            self.abort = true;
            return false;
        }
        // Is branching allowed here?
        let mut branching = true;
        if me_enabled {
            if let (Some(conf), Some(m)) = (&self.conflict, me) {
                let p = self.threads[m].pending.unwrap();
                if !p.start {
                    let raw = unsafe { &*(p.raw as *const RawRw) };
                    if !conf.contains(&raw.key) {
                        branching = false;
                    }
                }
            }
        }
        let idx = if !branching || enabled.len() == 1 {
            0usize
        } else if self.pos < self.prefix.len() {
            let c = self.prefix[self.pos] as usize;
            if c >= enabled.len() {
                self.diverged = true;
                0
            } else {
                c
            }
        } else {
            0
        };
        if branching && enabled.len() > 1 {
            self.pos += 1;
            self.choices.push(idx as u8);
        }
        self.points.push(PointRec {
            enabled: enabled.iter().map(|&t| t as u8).collect(),
            chosen: idx as u8,
            cur_enabled: me_enabled,
            preempt_before: self.preemptions as u16,
            branching: branching && enabled.len() > 1,
        });
        let chosen = enabled[idx];
        if me_enabled && Some(chosen) != me {
            self.preemptions += 1;
        }
        // grant
        let p = self.threads[chosen].pending.take().unwrap();
        let mut applied = Applied::Done;
        if !p.start {
            let raw = unsafe { &*(p.raw as *const RawRw) };
            {
                let mut s = raw.st.lock().unwrap_or_else(|e| e.into_inner());
                applied = s.apply(p.phase);
            }
            let key = raw.key;
            let mode = mode_of(p.phase);
            let t = self.touches.entry(key).or_insert_with(|| Touch {
                tids: 0,
                nonread: false,
                site: format!("{}:{}", raw.site.file(), raw.site.line()),
                is_mutex: raw.is_mutex,
            });
            t.tids |= 1 << chosen;
            if mode != Mode::R {
                t.nonread = true;
            }
            if applied != Applied::Failed && p.phase != Phase::Drain {
                match p.phase {
                    Phase::UpgradeClaim | Phase::TryUpgrade => {
                        // replace U by W in held
                        if let Some(pos) =
                            self.threads[chosen].held.iter().rposition(|h| h.0 == key && h.1 == Mode::U)
                        {
                            self.threads[chosen].held.remove(pos);
                        }
                        let held = self.threads[chosen].held.clone();
                        for h in held {
                            self.edges.insert((h.0, h.1, key, Mode::W));
                        }
                        self.threads[chosen].held.push((key, Mode::W));
                    }
                    _ => {
                        let held = self.threads[chosen].held.clone();
                        for h in held {
                            self.edges.insert((h.0, h.1, key, mode));
                        }
                        self.threads[chosen].held.push((key, mode));
                    }
                }
            } else if applied == Applied::Failed {
                // a failed try-acquire still orders after the held locks for cycle purposes? No:
                // try-locks cannot participate in a deadlock. Not recorded as an edge.
            }
            if self.record_trace {
                self.optrace[chosen].push(LockEvt::Acq(key, p.phase, applied != Applied::Failed));
                self.order.push((chosen, key, format!("{:?}", p.phase)));
            }
        }
        self.threads[chosen].grant = applied;
        self.threads[chosen].state = ThState::Running;
        self.steps += 1;
        if self.steps > self.max_steps {
            self.outcome = Some(Outcome::Horizon);
            self.abort = true;
            return false;
        }
        true
    }
}

/// Block the calling controlled thread at a scheduling point with `pending`; returns the grant.
fn point(pending: Pending) -> Applied {
    let me = current_tid().expect("controlled thread");
    let mut g = lock_exec();
    let stall_start = Instant::now();
    {
        let ex = match g.as_mut() {
            Some(e) => e,
            None => {
                drop(g);
                std::panic::panic_any(SchedAbort);
            }
        };
        if ex.abort {
            drop(g);
            std::panic::panic_any(SchedAbort);
        }
        ex.threads[me].state = ThState::Pending;
        ex.threads[me].pending = Some(pending);
    }
    loop {
        let ex = g.as_mut().unwrap();
        let granted = ex.reschedule(Some(me));
        if granted || ex.outcome.is_some() {
            CV.notify_all();
            break;
        }
        // stalled on an uncontrolled holder: poll
        if stall_start.elapsed() > Duration::from_secs(20) {
            ex.outcome = Some(Outcome::Stalled);
            ex.abort = true;
            CV.notify_all();
            break;
        }
        drop(g);
        std::thread::sleep(Duration::from_micros(100));
        g = lock_exec();
        // someone else may have been granted meanwhile? No: only the baton holder (me) reschedules.
    }
    // wait for my turn
    loop {
        let ex = g.as_mut().unwrap();
        if ex.abort {
            drop(g);
            std::panic::panic_any(SchedAbort);
        }
        if ex.threads[me].state == ThState::Running {
            let r = ex.threads[me].grant;
            return r;
        }
        g = match CV.wait(g) {
            Ok(x) => x,
            Err(e) => e.into_inner(),
        };
    }
}

pub(crate) fn controlled_acquire(raw: &RawRw, kind: Kind) {
    let first = match kind {
        Kind::Read => Phase::Read,
        Kind::Write => Phase::WriteClaim,
        Kind::Upgradable => Phase::Upgradable,
        _ => unreachable!(),
    };
    let r = point(Pending { raw: raw as *const RawRw as usize, phase: first, start: false });
    if r == Applied::NeedDrain {
        point(Pending { raw: raw as *const RawRw as usize, phase: Phase::Drain, start: false });
    }
}

pub(crate) fn controlled_try(raw: &RawRw, phase: Phase) -> bool {
    point(Pending { raw: raw as *const RawRw as usize, phase, start: false }) == Applied::Done
}

pub(crate) fn controlled_upgrade(raw: &RawRw) {
    let r = point(Pending { raw: raw as *const RawRw as usize, phase: Phase::UpgradeClaim, start: false });
    if r == Applied::NeedDrain {
        point(Pending { raw: raw as *const RawRw as usize, phase: Phase::Drain, start: false });
    }
}

pub(crate) fn on_release(raw: &RawRw, kind: Kind) {
    let Some(me) = current_tid() else { return };
    let mut g = lock_exec();
    if let Some(ex) = g.as_mut() {
        let mode = match kind {
            Kind::Read | Kind::TryRead => Mode::R,
            Kind::Upgradable => Mode::U,
            _ => Mode::W,
        };
        if let Some(pos) = ex.threads[me].held.iter().rposition(|h| h.0 == raw.key && h.1 == mode) {
            ex.threads[me].held.remove(pos);
        }
        if ex.record_trace {
            ex.optrace[me].push(LockEvt::Rel(raw.key, kind));
        }
    }
}

pub(crate) fn on_downgrade(raw: &RawRw) {
    let Some(me) = current_tid() else { return };
    let mut g = lock_exec();
    if let Some(ex) = g.as_mut() {
        if let Some(pos) = ex.threads[me].held.iter().rposition(|h| h.0 == raw.key && h.1 == Mode::W) {
            ex.threads[me].held[pos].1 = Mode::R;
        }
        if ex.record_trace {
            ex.optrace[me].push(LockEvt::Downgrade(raw.key));
        }
    }
}

/// Totally ordered event stamp (only the baton holder runs, so stamps order real events).
pub fn stamp() -> u64 {
    let mut g = lock_exec();
    match g.as_mut() {
        Some(ex) => {
            ex.stamp += 1;
            ex.stamp
        }
        None => 0,
    }
}

/// Put a marker into the calling thread's lock trace (operation boundaries).
pub fn mark(label: &str) {
    let Some(me) = current_tid() else { return };
    let mut g = lock_exec();
    if let Some(ex) = g.as_mut() {
        if ex.record_trace {
            ex.optrace[me].push(LockEvt::Mark(label.to_string()));
        }
    }
}

pub struct RunConfig {
    pub prefix: Vec<u8>,
    pub max_steps: usize,
    pub conflict: Option<Arc<BTreeSet<u64>>>,
    pub record_trace: bool,
    pub wall_limit: Duration,
}

impl Default for RunConfig {
    fn default() -> Self {
        RunConfig {
            prefix: Vec::new(),
            max_steps: 20_000,
            conflict: None,
            record_trace: false,
            wall_limit: Duration::from_secs(60),
        }
    }
}

static HOOK: std::sync::Once = std::sync::Once::new();

pub fn install_quiet_abort_hook() {
    HOOK.call_once(|| {
        let prev = std::panic::take_hook();
        std::panic::set_hook(Box::new(move |info| {
            if info.payload().downcast_ref::<SchedAbort>().is_some() {
                return;
            }
            if std::env::var_os("KSCHED_QUIET_PANICS").is_some() {
                return;
            }
            prev(info);
        }));
    });
}

pub type Body = Box<dyn FnOnce() + Send + 'static>;

/// Run one execution of `bodies` (one controlled OS thread each) under `cfg`.
pub fn run_one(bodies: Vec<Body>, cfg: RunConfig) -> ExecResult {
    install_quiet_abort_hook();
    let n = bodies.len();
    assert!(n > 0 && n <= 8);
    {
        let mut g = lock_exec();
        assert!(g.is_none(), "nested scheduled execution");
        *g = Some(Exec {
            threads: (0..n)
                .map(|_| Th { state: ThState::NotStarted, pending: None, grant: Applied::Done, held: Vec::new() })
                .collect(),
            prefix: cfg.prefix.clone(),
            pos: 0,
            points: Vec::new(),
            choices: Vec::new(),
            steps: 0,
            max_steps: cfg.max_steps,
            preemptions: 0,
            outcome: None,
            abort: false,
            stamp: 0,
            touches: BTreeMap::new(),
            edges: BTreeSet::new(),
            optrace: vec![Vec::new(); n],
            order: Vec::new(),
            conflict: cfg.conflict.clone(),
            diverged: false,
            record_trace: cfg.record_trace,
        });
    }
    let panics: Arc<StdMutex<Vec<(usize, String)>>> = Arc::new(StdMutex::new(Vec::new()));
    let mut handles = Vec::new();
    for (tid, body) in bodies.into_iter().enumerate() {
        let panics = panics.clone();
        let h = std::thread::Builder::new()
            .name(format!("ksched-{tid}"))
            .stack_size(4 << 20)
            .spawn(move || {
                TID.with(|t| t.set(Some(tid)));
                LOCAL_KEYS.with(|c| c.set(0));
                let r = std::panic::catch_unwind(std::panic::AssertUnwindSafe(|| {
                    // start point
                    {
                        let mut g = lock_exec();
                        let ex = g.as_mut().unwrap();
                        ex.threads[tid].state = ThState::Pending;
                        ex.threads[tid].pending = Some(Pending { raw: 0, phase: Phase::Read, start: true });
                        CV.notify_all();
                        loop {
                            let ex = g.as_mut().unwrap();
                            if ex.abort {
                                drop(g);
                                std::panic::panic_any(SchedAbort);
                            }
                            if ex.threads[tid].state == ThState::Running {
                                break;
                            }
                            g = match CV.wait(g) {
                                Ok(x) => x,
                                Err(e) => e.into_inner(),
                            };
                        }
                    }
                    body();
                }));
                if let Err(p) = r {
                    if p.downcast_ref::<SchedAbort>().is_none() {
                        let msg = if let Some(s) = p.downcast_ref::<String>() {
                            s.clone()
                        } else if let Some(s) = p.downcast_ref::<&str>() {
                            s.to_string()
                        } else {
                            "non-string panic".to_string()
                        };
                        panics.lock().unwrap().push((tid, msg));
                    }
                }
                // finish
                TID.with(|t| t.set(None));
                let mut g = lock_exec();
                if let Some(ex) = g.as_mut() {
                    ex.threads[tid].state = ThState::Finished;
                    ex.threads[tid].pending = None;
                    ex.threads[tid].held.clear();
                    if !ex.abort && ex.outcome.is_none() {
                        let stall_start = Instant::now();
                        loop {
                            let ex = g.as_mut().unwrap();
                            let granted = ex.reschedule(None);
                            if granted || ex.outcome.is_some() {
                                break;
                            }
                            if stall_start.elapsed() > Duration::from_secs(20) {
                                ex.outcome = Some(Outcome::Stalled);
                                ex.abort = true;
                                break;
                            }
                            drop(g);
                            std::thread::sleep(Duration::from_micros(100));
                            g = lock_exec();
                        }
                    }
                    CV.notify_all();
                }
            })
            .expect("spawn controlled thread");
        handles.push(h);
    }
    // wait until all threads reached the start point, then grant the first one
    let t0 = Instant::now();
    {
        let mut g = lock_exec();
        loop {
            let ex = g.as_mut().unwrap();
            if ex.threads.iter().all(|t| t.state == ThState::Pending) {
                break;
            }
            let (ng, _) = CV.wait_timeout(g, Duration::from_millis(50)).unwrap_or_else(|e| e.into_inner());
            g = ng;
            if t0.elapsed() > cfg.wall_limit {
                eprintln!("ksched: threads failed to start");
                std::process::exit(2);
            }
        }
        let ex = g.as_mut().unwrap();
        ex.reschedule(None);
        CV.notify_all();
        // wait for outcome
        loop {
            let ex = g.as_mut().unwrap();
            if ex.outcome.is_some() {
                break;
            }
            let (ng, _) = CV.wait_timeout(g, Duration::from_millis(200)).unwrap_or_else(|e| e.into_inner());
            g = ng;
            if t0.elapsed() > cfg.wall_limit {
                eprintln!("ksched: execution exceeded wall limit (uncontrolled blocking?)");
                std::process::exit(2);
            }
        }
        CV.notify_all();
    }
    for h in handles {
        let _ = h.join();
    }
    let ex = lock_exec().take().unwrap();
    let panics = std::mem::take(&mut *panics.lock().unwrap());
    ExecResult {
        outcome: ex.outcome.unwrap(),
        points: ex.points,
        choices: ex.choices,
        steps: ex.steps,
        preemptions: ex.preemptions,
        touches: ex.touches,
        edges: ex.edges,
        optrace: ex.optrace,
        order: ex.order,
        panics,
        diverged: ex.diverged,
    }
}
