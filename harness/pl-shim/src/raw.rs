//! Explicit reader/writer lock state machine with parking_lot's writer-preferring rules.

use crate::sched;
use std::panic::Location;
use std::sync::{Condvar, Mutex as StdMutex};

#[derive(Clone, Copy, Debug, PartialEq, Eq, Hash)]
pub enum Kind {
    Read,
    Write,
    Upgradable,
    TryRead,
    TryWrite,
}

/// Atomic steps of the lock protocol. A blocking `write()` is `WriteClaim` (+ `Drain` when
/// readers are still inside); `upgrade()` is `UpgradeClaim` (+ `Drain`).
#[derive(Clone, Copy, Debug, PartialEq, Eq, Hash)]
pub enum Phase {
    Read,
    WriteClaim,
    Drain,
    Upgradable,
    UpgradeClaim,
    TryRead,
    TryWrite,
    TryUpgrade,
}

#[derive(Clone, Copy, Debug, PartialEq, Eq)]
pub enum Applied {
    Done,
    NeedDrain,
    Failed,
}

#[derive(Default, Debug, Clone)]
pub struct St {
    pub readers: u32,
    pub writer_bit: bool,
    pub upgr: bool,
    /// holds (or claims) currently owned by threads the scheduler does not control
    pub unc: u32,
}

impl St {
    pub fn can(&self, p: Phase) -> bool {
        match p {
            Phase::Read => !self.writer_bit,
            Phase::WriteClaim => !self.writer_bit && !self.upgr,
            Phase::Drain => self.readers == 0,
            Phase::Upgradable => !self.writer_bit && !self.upgr,
            Phase::UpgradeClaim => true,
            Phase::TryRead | Phase::TryWrite | Phase::TryUpgrade => true,
        }
    }
    pub fn apply(&mut self, p: Phase) -> Applied {
        match p {
            Phase::Read => {
                self.readers += 1;
                Applied::Done
            }
            Phase::WriteClaim => {
                self.writer_bit = true;
                if self.readers == 0 {
                    Applied::Done
                } else {
                    Applied::NeedDrain
                }
            }
            Phase::Drain => Applied::Done,
            Phase::Upgradable => {
                self.upgr = true;
                self.readers += 1;
                Applied::Done
            }
            Phase::UpgradeClaim => {
                debug_assert!(self.upgr && self.readers >= 1);
                self.upgr = false;
                self.readers -= 1;
                self.writer_bit = true;
                if self.readers == 0 {
                    Applied::Done
                } else {
                    Applied::NeedDrain
                }
            }
            Phase::TryRead => {
                if !self.writer_bit {
                    self.readers += 1;
                    Applied::Done
                } else {
                    Applied::Failed
                }
            }
            Phase::TryWrite => {
                if !self.writer_bit && !self.upgr && self.readers == 0 {
                    self.writer_bit = true;
                    Applied::Done
                } else {
                    Applied::Failed
                }
            }
            Phase::TryUpgrade => {
                if self.readers == 1 {
                    self.upgr = false;
                    self.readers = 0;
                    self.writer_bit = true;
                    Applied::Done
                } else {
                    Applied::Failed
                }
            }
        }
    }
}

#[derive(Clone, Debug)]
pub struct HoldToken {
    pub controlled: bool,
}

pub struct RawRw {
    pub(crate) st: StdMutex<St>,
    cv: Condvar,
    pub key: u64,
    pub site: &'static Location<'static>,
    pub is_mutex: bool,
}

impl RawRw {
    pub fn new(site: &'static Location<'static>, is_mutex: bool) -> Self {
        RawRw {
            st: StdMutex::new(St::default()),
            cv: Condvar::new(),
            key: sched::next_lock_key(),
            site,
            is_mutex,
        }
    }

    fn st(&self) -> std::sync::MutexGuard<'_, St> {
        match self.st.lock() {
            Ok(g) => g,
            Err(p) => p.into_inner(),
        }
    }

    pub fn is_locked(&self) -> bool {
        let s = self.st();
        s.writer_bit || s.readers > 0
    }
    pub fn is_write_locked(&self) -> bool {
        self.st().writer_bit
    }

    fn block_until(&self, p: Phase, count_unc: bool) -> Applied {
        let mut s = self.st();
        loop {
            if s.can(p) {
                let r = s.apply(p);
                if count_unc && r != Applied::Failed {
                    s.unc += 1;
                }
                return r;
            }
            s = match self.cv.wait(s) {
                Ok(g) => g,
                Err(e) => e.into_inner(),
            };
        }
    }

    pub fn acquire(&self, kind: Kind) -> HoldToken {
        if sched::is_controlled() {
            sched::controlled_acquire(self, kind);
            return HoldToken { controlled: true };
        }
        match kind {
            Kind::Read => {
                self.block_until(Phase::Read, true);
            }
            Kind::Upgradable => {
                self.block_until(Phase::Upgradable, true);
            }
            Kind::Write => {
                if self.block_until(Phase::WriteClaim, true) == Applied::NeedDrain {
                    self.block_until(Phase::Drain, false);
                }
            }
            Kind::TryRead | Kind::TryWrite => unreachable!("use try_acquire"),
        }
        HoldToken { controlled: false }
    }

    pub fn try_acquire(&self, kind: Kind) -> Option<HoldToken> {
        let phase = match kind {
            Kind::TryRead => Phase::TryRead,
            Kind::TryWrite => Phase::TryWrite,
            _ => unreachable!(),
        };
        if sched::is_controlled() {
            return if sched::controlled_try(self, phase) {
                Some(HoldToken { controlled: true })
            } else {
                None
            };
        }
        let mut s = self.st();
        if s.apply(phase) == Applied::Done {
            s.unc += 1;
            Some(HoldToken { controlled: false })
        } else {
            None
        }
    }

    pub fn upgrade(&self, tok: HoldToken) -> HoldToken {
        if tok.controlled && sched::is_controlled() {
            sched::controlled_upgrade(self);
            return tok;
        }
        if self.block_until(Phase::UpgradeClaim, false) == Applied::NeedDrain {
            self.block_until(Phase::Drain, false);
        }
        tok
    }

    pub fn try_upgrade(&self, tok: &HoldToken) -> Option<HoldToken> {
        if tok.controlled && sched::is_controlled() {
            return if sched::controlled_try(self, Phase::TryUpgrade) {
                Some(tok.clone())
            } else {
                None
            };
        }
        let mut s = self.st();
        if s.apply(Phase::TryUpgrade) == Applied::Done {
            Some(tok.clone())
        } else {
            None
        }
    }

    pub fn downgrade(&self, tok: HoldToken) -> HoldToken {
        {
            let mut s = self.st();
            s.writer_bit = false;
            s.readers += 1;
        }
        self.cv.notify_all();
        if tok.controlled {
            sched::on_downgrade(self);
        }
        tok
    }

    pub fn release(&self, kind: Kind, tok: &HoldToken) {
        {
            let mut s = self.st();
            match kind {
                Kind::Read | Kind::TryRead => {
                    s.readers = s.readers.saturating_sub(1);
                }
                Kind::Write | Kind::TryWrite => {
                    s.writer_bit = false;
                }
                Kind::Upgradable => {
                    s.upgr = false;
                    s.readers = s.readers.saturating_sub(1);
                }
            }
            if !tok.controlled {
                s.unc = s.unc.saturating_sub(1);
            }
        }
        self.cv.notify_all();
        if tok.controlled {
            sched::on_release(self, kind);
        }
    }
}
