//! Shared pieces of the KyroDB verification harness: reference model, canonical dumps,
//! evidence / violation / known-finding plumbing, small parallel driver.

pub mod evidence;
pub mod exec;
pub mod findings;
pub mod model;
pub mod par;
pub mod shimctl;

use kyrodb_engine::config::DistanceMetric;
use kyrodb_engine::HnswBackend;
use std::collections::{BTreeMap, HashMap};

pub type Meta = BTreeMap<String, String>;

/// Canonical dump of a collection: id -> (vector bit patterns, sorted metadata).
pub type Dump = BTreeMap<u64, (Vec<u32>, Meta)>;

pub fn bits(v: &[f32]) -> Vec<u32> {
    v.iter().map(|x| x.to_bits()).collect()
}
pub fn unbits(v: &[u32]) -> Vec<f32> {
    v.iter().map(|x| f32::from_bits(*x)).collect()
}
pub fn to_meta(m: &HashMap<String, String>) -> Meta {
    m.iter().map(|(k, v)| (k.clone(), v.clone())).collect()
}
pub fn to_hash(m: &Meta) -> HashMap<String, String> {
    m.iter().map(|(k, v)| (k.clone(), v.clone())).collect()
}

/// Dump the canonical store of a backend through its public read API.
pub fn dump_backend(b: &HnswBackend) -> Dump {
    let mut ids = b.scan(|_| true);
    ids.sort_unstable();
    let mut d = Dump::new();
    for id in ids {
        let v = b.fetch_document(id).unwrap_or_default();
        let m = b.fetch_metadata(id).unwrap_or_default();
        d.insert(id, (bits(&v), to_meta(&m)));
    }
    d
}

pub fn dump_to_json(d: &Dump) -> serde_json::Value {
    let mut o = serde_json::Map::new();
    for (id, (v, m)) in d {
        o.insert(
            id.to_string(),
            serde_json::json!({"vec": unbits(v).iter().map(|x| if x.is_finite() { serde_json::json!(x) } else { serde_json::json!(format!("{x}")) }).collect::<Vec<_>>(), "meta": m}),
        );
    }
    serde_json::Value::Object(o)
}

pub fn metric_name(m: DistanceMetric) -> &'static str {
    match m {
        DistanceMetric::Cosine => "cosine",
        DistanceMetric::Euclidean => "euclidean",
        DistanceMetric::InnerProduct => "inner_product",
    }
}
/// A trailing '!' on a metric name ("cosine!") means hnsw.disable_normalization_check = true.
pub fn metric_from(s: &str) -> DistanceMetric {
    match s.trim_end_matches('!') {
        "cosine" => DistanceMetric::Cosine,
        "euclidean" => DistanceMetric::Euclidean,
        "inner_product" => DistanceMetric::InnerProduct,
        _ => panic!("unknown metric {s}"),
    }
}

/// Scratch directory root on tmpfs; removed by `Scratch::drop`.
pub struct Scratch {
    pub path: std::path::PathBuf,
}
impl Scratch {
    pub fn new(tag: &str) -> Scratch {
        use std::sync::atomic::{AtomicU64, Ordering};
        static N: AtomicU64 = AtomicU64::new(0);
        let base = if std::path::Path::new("/dev/shm").is_dir() { "/dev/shm" } else { "/tmp" };
        let p = std::path::PathBuf::from(format!(
            "{}/kyverif.{}.{}.{}",
            base,
            std::process::id(),
            tag,
            N.fetch_add(1, Ordering::SeqCst)
        ));
        let _ = std::fs::remove_dir_all(&p);
        std::fs::create_dir_all(&p).expect("create scratch");
        Scratch { path: p }
    }
}
impl Drop for Scratch {
    fn drop(&mut self) {
        let _ = std::fs::remove_dir_all(&self.path);
    }
}

pub fn copy_dir(src: &std::path::Path, dst: &std::path::Path) {
    std::fs::create_dir_all(dst).unwrap();
    for e in std::fs::read_dir(src).unwrap() {
        let e = e.unwrap();
        let p = e.path();
        let t = dst.join(e.file_name());
        if p.is_dir() {
            copy_dir(&p, &t);
        } else {
            std::fs::copy(&p, &t).unwrap();
        }
    }
}

/// Silence `tracing` output of the engine unless VERIF_TRACE is set.
pub fn quiet_logs() {
    // The engine logs through `tracing`; with no subscriber installed nothing is printed.
}

pub fn tier_from_env_or(arg: Option<&str>) -> String {
    if let Some(a) = arg {
        return a.to_string();
    }
    std::env::var("VERIF_TIER").unwrap_or_else(|_| "quick".to_string())
}
pub fn seed_from_env() -> i64 {
    std::env::var("VERIF_SEED").ok().and_then(|s| s.parse().ok()).unwrap_or(0)
}
