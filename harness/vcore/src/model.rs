//! Reference model of the collection: a boring ordered map with the documented semantics.

use crate::{bits, Dump, Meta};
use kyrodb_engine::config::DistanceMetric;
use serde::{Deserialize, Serialize};
use std::collections::BTreeMap;

#[derive(Clone, Debug, Serialize, Deserialize, PartialEq)]
pub enum Op {
    Ins { id: u64, v: Vec<f32>, m: Meta },
    Del { id: u64 },
    BatchDel { ids: Vec<u64> },
    UpdMeta { id: u64, m: Meta, merge: bool },
    Snap,
    Restart,
}

impl Op {
    pub fn short(&self) -> String {
        match self {
            Op::Ins { id, v, m } => format!("I({id},{v:?},{m:?})"),
            Op::Del { id } => format!("D({id})"),
            Op::BatchDel { ids } => format!("BD{ids:?}"),
            Op::UpdMeta { id, m, merge } => {
                format!("UM({id},{m:?},{})", if *merge { "merge" } else { "replace" })
            }
            Op::Snap => "SNAP".into(),
            Op::Restart => "RESTART".into(),
        }
    }
    pub fn is_write(&self) -> bool {
        !matches!(self, Op::Snap | Op::Restart)
    }
}

/// What the model says an operation returns.
#[derive(Clone, Debug, PartialEq)]
pub enum Ret {
    Unit,
    Bool(bool),
    Count(u64),
}

#[derive(Clone, Debug, Default, PartialEq)]
pub struct RefModel {
    /// id -> (input vector as given by the client, metadata)
    pub docs: BTreeMap<u64, (Vec<f32>, Meta)>,
}

impl RefModel {
    pub fn apply(&mut self, op: &Op) -> Ret {
        match op {
            Op::Ins { id, v, m } => {
                self.docs.insert(*id, (v.clone(), m.clone()));
                Ret::Unit
            }
            Op::Del { id } => Ret::Bool(self.docs.remove(id).is_some()),
            Op::BatchDel { ids } => {
                let mut n = 0;
                for id in ids {
                    if self.docs.remove(id).is_some() {
                        n += 1;
                    }
                }
                Ret::Count(n)
            }
            Op::UpdMeta { id, m, merge } => match self.docs.get_mut(id) {
                None => Ret::Bool(false),
                Some((_, cur)) => {
                    if *merge {
                        for (k, v) in m {
                            cur.insert(k.clone(), v.clone());
                        }
                    } else {
                        *cur = m.clone();
                    }
                    Ret::Bool(true)
                }
            },
            Op::Snap | Op::Restart => Ret::Unit,
        }
    }
}

/// Does `stored` (bit patterns) represent what the engine must store for client input `input`?
/// Euclidean: the input bit-for-bit. Cosine / inner product: the input if its squared norm is
/// inside the engine's documented pass-through band [0.98, 1.02] (a margin around the band edges
/// accepts either form), else the L2-normalised input within 2e-6 per component.
pub fn stored_matches_input(metric: DistanceMetric, stored: &[u32], input: &[f32]) -> bool {
    if stored.len() != input.len() {
        return false;
    }
    let exact = bits(input) == stored;
    if matches!(metric, DistanceMetric::Euclidean) {
        return exact;
    }
    let n2: f64 = input.iter().map(|x| (*x as f64) * (*x as f64)).sum();
    let normalised_ok = || {
        let inv = 1.0 / n2.sqrt();
        stored
            .iter()
            .zip(input.iter())
            .all(|(s, i)| ((f32::from_bits(*s) as f64) - (*i as f64) * inv).abs() <= 2e-6)
    };
    if (0.981..=1.019).contains(&n2) {
        exact
    } else if !(0.979..=1.021).contains(&n2) {
        normalised_ok()
    } else {
        exact || normalised_ok()
    }
}

/// Compare an engine dump against the model; `Err` explains the first difference.
pub fn dump_vs_model(metric: DistanceMetric, dump: &Dump, model: &RefModel) -> Result<(), String> {
    for (id, (v, m)) in &model.docs {
        match dump.get(id) {
            None => return Err(format!("doc {id} missing (model has it)")),
            Some((sv, sm)) => {
                if !stored_matches_input(metric, sv, v) {
                    return Err(format!(
                        "doc {id} vector differs: stored {:?} model input {:?}",
                        crate::unbits(sv),
                        v
                    ));
                }
                if sm != m {
                    return Err(format!("doc {id} metadata differs: stored {sm:?} model {m:?}"));
                }
            }
        }
    }
    for id in dump.keys() {
        if !model.docs.contains_key(id) {
            return Err(format!("doc {id} present but model says absent"));
        }
    }
    Ok(())
}

pub fn meta1(k: &str, v: &str) -> Meta {
    let mut m = Meta::new();
    m.insert(k.to_string(), v.to_string());
    m
}
