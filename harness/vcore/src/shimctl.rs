//! Access to the LD_PRELOADed `kvshim` control entry points through dlsym (no link-time
//! dependency: when the shim is not loaded every call reports `None`).

use std::ffi::CString;

fn sym(name: &str) -> Option<*mut libc::c_void> {
    let c = CString::new(name).unwrap();
    let p = unsafe { libc::dlsym(libc::RTLD_DEFAULT, c.as_ptr()) };
    if p.is_null() {
        None
    } else {
        Some(p)
    }
}

pub fn loaded() -> bool {
    sym("kvshim_ctl").is_some()
}

/// kvshim_ctl(cmd, a, b) -> long
pub fn ctl(cmd: i64, a: i64, b: i64) -> Option<i64> {
    let p = sym("kvshim_ctl")?;
    let f: extern "C" fn(i64, i64, i64) -> i64 = unsafe { std::mem::transmute(p) };
    Some(f(cmd, a, b))
}

/// kvshim_set_root(path)
pub fn set_root(path: &str) -> bool {
    let Some(p) = sym("kvshim_set_root") else { return false };
    let f: extern "C" fn(*const libc::c_char) -> i64 = unsafe { std::mem::transmute(p) };
    let c = CString::new(path).unwrap();
    f(c.as_ptr()) == 0
}

/// Copy the effect log out of the shim: returns raw bytes (see kvshim.c for the record format).
pub fn take_log() -> Option<Vec<u8>> {
    let p = sym("kvshim_log_ptr")?;
    let f: extern "C" fn(*mut usize) -> *const u8 = unsafe { std::mem::transmute(p) };
    let mut len: usize = 0;
    let ptr = f(&mut len as *mut usize);
    if ptr.is_null() {
        return Some(Vec::new());
    }
    let v = unsafe { std::slice::from_raw_parts(ptr, len) }.to_vec();
    Some(v)
}

pub const CMD_LOG_ON: i64 = 1;
pub const CMD_LOG_OFF: i64 = 2;
pub const CMD_LOG_CLEAR: i64 = 3;
pub const CMD_CLOCK_MODE: i64 = 4; // a=1 logical, a=0 real
pub const CMD_CLOCK_ADVANCE_NS: i64 = 5; // a = ns
pub const CMD_CLOCK_SET_NS: i64 = 6; // a = ns since epoch
pub const CMD_FAULT_ARM: i64 = 7; // a = slot(0/1) ; b = packed spec (see kvshim.c)
pub const CMD_FAULT_CLEAR: i64 = 8;
pub const CMD_RAND_MODE: i64 = 9; // a=1 deterministic
pub const CMD_RAND_EPOCH: i64 = 10; // a = epoch
pub const CMD_COUNT_CALLS: i64 = 11; // returns number of matching fs calls since last clear
pub const CMD_FAULT_FIRED: i64 = 12; // a = slot -> 1 if fired
pub const CMD_CLOCK_NOW_NS: i64 = 13;
pub const CMD_CLOCK_TICK_NS: i64 = 14; // a = per-call auto advance

pub fn clear_root() {
    let Some(p) = sym("kvshim_set_root") else { return };
    let f: extern "C" fn(*const libc::c_char) -> i64 = unsafe { std::mem::transmute(p) };
    f(std::ptr::null());
}

/// Arm fault slot: fail (errno) or shorten (short_len >= 0) the nth call matching `classes`.
pub fn fault_arm(slot: i64, classes: i64, nth: i64, err: i64, short_len: i64) -> bool {
    let Some(p) = sym("kvshim_fault_arm") else { return false };
    let f: extern "C" fn(i64, i64, i64, i64, i64) -> i64 = unsafe { std::mem::transmute(p) };
    f(slot, classes, nth, err, short_len) == 0
}

pub const C_WRITE: i64 = 1;
pub const C_FSYNC: i64 = 2;
pub const C_FDATASYNC: i64 = 4;
pub const C_FTRUNCATE: i64 = 8;
pub const C_RENAME: i64 = 16;
pub const C_OPEN: i64 = 32;
pub const C_UNLINK: i64 = 64;
pub const C_MKDIR: i64 = 128;
pub const C_FSYNC_DIR: i64 = 256;
pub const CMD_TRACE_CLASS_AT: i64 = 17;
pub const CMD_TRACE_LEN: i64 = 18;
pub const CMD_TRACE_CLEAR: i64 = 19;
pub const C_AFTER_SLOT0: i64 = 0x1000;
pub const C_ALL: i64 = 0x17f; // write|fsync|fdatasync|ftruncate|rename|open|unlink|fsync_dir (no mkdir)
pub const CMD_MTIME_MODE: i64 = 20;
