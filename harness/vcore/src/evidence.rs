//! Evidence file writer (schema: /root/.vp/EVIDENCE.schema.json).

use serde_json::{json, Value};
use std::time::Instant;

pub struct Evidence {
    pub property_id: String,
    pub tier: String,
    pub seed: i64,
    pub level: String,
    pub coverage: serde_json::Map<String, Value>,
    pub assumptions: Vec<String>,
    pub violations: i64,
    pub started: Instant,
}

impl Evidence {
    pub fn new(property_id: &str, tier: &str, level: &str) -> Evidence {
        Evidence {
            property_id: property_id.to_string(),
            tier: if tier == "thorough" { "thorough".into() } else { "quick".into() },
            seed: crate::seed_from_env(),
            level: level.to_string(),
            coverage: serde_json::Map::new(),
            assumptions: Vec::new(),
            violations: 0,
            started: Instant::now(),
        }
    }
    pub fn set(&mut self, k: &str, v: impl Into<Value>) {
        self.coverage.insert(k.to_string(), v.into());
    }
    pub fn assume(&mut self, s: &str) {
        self.assumptions.push(s.to_string());
    }
    pub fn write(&self) {
        let dir = std::env::var("VERIF_EVIDENCE_DIR").unwrap_or_else(|_| "/verif/evidence".into());
        let _ = std::fs::create_dir_all(&dir);
        let mut coverage = self.coverage.clone();
        let ex = crate::par::KSCHED_EXECS.load(std::sync::atomic::Ordering::Relaxed);
        if ex > 0 {
            let dv = crate::par::KSCHED_DIVERGED.load(std::sync::atomic::Ordering::Relaxed);
            coverage.insert("scheduled_executions".into(), ex.into());
            coverage.insert("scheduled_executions_whose_replayed_prefix_diverged".into(), dv.into());
            if dv > 0 {
                coverage.insert("exhaustive".into(), false.into());
                eprintln!("warning: {dv} of {ex} scheduled executions diverged from their replayed prefix (nondeterminism outside the scheduler); the exploration is reported as not exhaustive");
            }
        }
        let v = json!({
            "property_id": self.property_id,
            "tier": self.tier,
            "seed": self.seed,
            "level": self.level,
            "coverage": Value::Object(coverage),
            "assumptions": self.assumptions,
            "wall_s": self.started.elapsed().as_secs_f64(),
            "violations": self.violations,
        });
        let path = format!("{}/{}.json", dir, self.property_id);
        let tmp = format!("{}.tmp.{}", path, std::process::id());
        std::fs::write(&tmp, serde_json::to_string_pretty(&v).unwrap()).expect("write evidence");
        std::fs::rename(&tmp, &path).expect("rename evidence");
    }
}
