//! Known-findings file and violation reporting.
//!
//! `/verif/known_findings.txt` is committed and read-only at run time. Lines:
//!   known: property=<id> signature=<sig> :: <what fails>
//!   fixed: property=<id> <commit> signature=<sig> :: <what failed>
//! Only `known:` lines suppress; a signature is structural (operation, call site, fault class,
//! symptom) so a different violation of the same property is still reported.

use serde_json::Value;
use std::collections::{BTreeMap, BTreeSet};

pub struct Reporter {
    pub property: String,
    known: BTreeMap<String, String>,
    pub known_hit: BTreeMap<String, u64>,
    pub new_sigs: BTreeSet<String>,
    pub violations: u64,
    pub replay_paths: Vec<String>,
    max_replays: usize,
}

pub fn findings_path() -> String {
    std::env::var("VERIF_KNOWN_FINDINGS").unwrap_or_else(|_| "/verif/known_findings.txt".into())
}

impl Reporter {
    pub fn new(property: &str) -> Reporter {
        let mut known = BTreeMap::new();
        if let Ok(txt) = std::fs::read_to_string(findings_path()) {
            for line in txt.lines() {
                let line = line.trim();
                if let Some(rest) = line.strip_prefix("known:") {
                    let rest = rest.trim();
                    let (head, what) = match rest.split_once("::") {
                        Some((h, w)) => (h.trim(), w.trim()),
                        None => (rest, ""),
                    };
                    let mut prop = "";
                    let mut sig = "";
                    for tok in head.split_whitespace() {
                        if let Some(p) = tok.strip_prefix("property=") {
                            prop = p;
                        } else if let Some(s) = tok.strip_prefix("signature=") {
                            sig = s;
                        }
                    }
                    if prop == property && !sig.is_empty() {
                        known.insert(sig.to_string(), what.to_string());
                    }
                }
            }
        }
        Reporter {
            property: property.to_string(),
            known,
            known_hit: BTreeMap::new(),
            new_sigs: BTreeSet::new(),
            violations: 0,
            replay_paths: Vec::new(),
            max_replays: 5,
        }
    }

    pub fn is_known(&self, sig: &str) -> bool {
        self.known.contains_key(sig)
    }

    /// Report one violating case. Returns true if it is a listed known finding.
    pub fn report(&mut self, sig: &str, replay: Value) -> bool {
        if self.known.contains_key(sig) {
            *self.known_hit.entry(sig.to_string()).or_insert(0) += 1;
            return true;
        }
        self.violations += 1;
        let first_of_sig = self.new_sigs.insert(sig.to_string());
        if first_of_sig && self.replay_paths.len() < self.max_replays {
            let dir = std::env::var("VERIF_REPLAY_DIR").unwrap_or_else(|_| "/verif/replays".into());
            let _ = std::fs::create_dir_all(&dir);
            let safe: String = sig
                .chars()
                .map(|c| if c.is_ascii_alphanumeric() || c == '-' || c == '_' { c } else { '_' })
                .take(80)
                .collect();
            let path = format!("{}/{}_{}_{}.json", dir, self.property, safe, self.replay_paths.len());
            let mut obj = serde_json::Map::new();
            obj.insert("property".into(), Value::String(self.property.clone()));
            obj.insert("signature".into(), Value::String(sig.to_string()));
            obj.insert("case".into(), replay);
            let _ = std::fs::write(&path, serde_json::to_string_pretty(&Value::Object(obj)).unwrap());
            println!("VIOLATION property={} replay={}", self.property, path);
            self.replay_paths.push(path);
        }
        false
    }

    pub fn merge(&mut self, other: Reporter) {
        for (k, v) in other.known_hit {
            *self.known_hit.entry(k).or_insert(0) += v;
        }
        self.violations += other.violations;
        for s in other.new_sigs {
            self.new_sigs.insert(s);
        }
        self.replay_paths.extend(other.replay_paths);
    }

    /// Print KNOWN-FINDING lines and return the process exit code (0 or 1).
    pub fn finish(&self) -> i32 {
        for (sig, n) in &self.known_hit {
            println!(
                "KNOWN-FINDING: property={} {} ({} cases) :: {}",
                self.property,
                sig,
                n,
                self.known.get(sig).cloned().unwrap_or_default()
            );
        }
        if self.violations > 0 {
            if self.replay_paths.is_empty() {
                println!("VIOLATION property={} replay=none", self.property);
            }
            eprintln!(
                "{}: {} violating cases, {} distinct new signatures: {:?}",
                self.property,
                self.violations,
                self.new_sigs.len(),
                self.new_sigs
            );
            1
        } else {
            0
        }
    }
}

/// Violations grouped by signature: exact count plus the first few replay cases per signature,
/// so that frequent known findings can never crowd out a new signature.
#[derive(Default, Clone)]
pub struct SigBag {
    pub map: BTreeMap<String, (u64, Vec<Value>)>,
}
impl SigBag {
    pub fn push(&mut self, item: (String, Value)) {
        let e = self.map.entry(item.0).or_insert((0, Vec::new()));
        e.0 += 1;
        if e.1.len() < 2 {
            e.1.push(item.1);
        }
    }
    pub fn len(&self) -> usize {
        self.map.len()
    }
    pub fn is_empty(&self) -> bool {
        self.map.is_empty()
    }
    pub fn total(&self) -> u64 {
        self.map.values().map(|v| v.0).sum()
    }
    pub fn first_of(&self, sig: &str) -> Option<&Value> {
        self.map.get(sig).and_then(|v| v.1.first())
    }
    pub fn any_first(&self) -> Option<(&String, &Value)> {
        self.map.iter().next().and_then(|(k, v)| v.1.first().map(|r| (k, r)))
    }
    pub fn merge(&mut self, other: SigBag) {
        for (k, (n, rs)) in other.map {
            let e = self.map.entry(k).or_insert((0, Vec::new()));
            e.0 += n;
            for r in rs {
                if e.1.len() < 2 {
                    e.1.push(r);
                }
            }
        }
    }
    /// Merge another bag given as its `to_json()` form.
    pub fn merge_json(&mut self, bag: &Value) {
        for e in bag.as_array().map(|a| a.as_slice()).unwrap_or(&[]) {
            let sig = e["sig"].as_str().unwrap_or("").to_string();
            let ent = self.map.entry(sig).or_insert((0, Vec::new()));
            ent.0 += e["count"].as_u64().unwrap_or(1);
            for r in e["replays"].as_array().map(|a| a.as_slice()).unwrap_or(&[]) {
                if ent.1.len() < 2 {
                    ent.1.push(r.clone());
                }
            }
        }
    }
    pub fn to_json(&self) -> Value {
        Value::Array(
            self.map
                .iter()
                .map(|(k, (n, rs))| serde_json::json!({"sig": k, "count": n, "replays": rs}))
                .collect(),
        )
    }
}

impl Reporter {
    /// Merge a worker's `SigBag::to_json()` output.
    pub fn report_bag(&mut self, bag: &Value) {
        for e in bag.as_array().map(|a| a.as_slice()).unwrap_or(&[]) {
            let sig = e["sig"].as_str().unwrap_or("");
            let n = e["count"].as_u64().unwrap_or(1);
            let first = e["replays"].get(0).cloned().unwrap_or(Value::Null);
            let known = self.report(sig, first);
            if n > 1 {
                if known {
                    *self.known_hit.entry(sig.to_string()).or_insert(0) += n - 1;
                } else {
                    self.violations += n - 1;
                }
            }
        }
    }
    pub fn report_sigbag(&mut self, bag: &SigBag) {
        self.report_bag(&bag.to_json());
    }
}
