//! Driving a persistent `HnswBackend` with model operations.

use crate::model::{Op, Ret};
use crate::to_hash;
use kyrodb_engine::config::DistanceMetric;
use kyrodb_engine::metrics::MetricsCollector;
use kyrodb_engine::persistence::FsyncPolicy;
use kyrodb_engine::HnswBackend;
use serde::{Deserialize, Serialize};
use std::path::Path;

#[derive(Clone, Debug, Serialize, Deserialize, PartialEq)]
pub struct BackendCfg {
    pub metric: String,
    pub dim: usize,
    pub capacity: usize,
    pub snap_interval: usize,
    pub rotation: u64,
    /// "always" | "never" | "periodic:<ms>"
    pub fsync: String,
}

impl BackendCfg {
    pub fn metric(&self) -> DistanceMetric {
        crate::metric_from(&self.metric)
    }
    pub fn fsync(&self) -> FsyncPolicy {
        match self.fsync.as_str() {
            "always" => FsyncPolicy::Always,
            "never" => FsyncPolicy::Never,
            s if s.starts_with("periodic:") => FsyncPolicy::Periodic(s[9..].parse().unwrap()),
            s => panic!("bad fsync {s}"),
        }
    }
    pub fn label(&self) -> String {
        format!(
            "{}/d{}/cap{}/snap{}/rot{}/{}",
            self.metric, self.dim, self.capacity, self.snap_interval, self.rotation, self.fsync
        )
    }
    /// hnsw.disable_normalization_check (metric name ending in '!')
    pub fn no_norm_check(&self) -> bool {
        self.metric.ends_with('!')
    }
    pub fn open_fresh(&self, dir: &Path) -> anyhow::Result<HnswBackend> {
        if self.no_norm_check() {
            return HnswBackend::with_persistence_with_hnsw_params(self.dim, self.metric(), vec![], vec![], self.capacity, dir, self.fsync(), self.snap_interval, self.rotation, 16, 200, true);
        }
        HnswBackend::with_persistence(
            self.dim,
            self.metric(),
            vec![],
            vec![],
            self.capacity,
            dir,
            self.fsync(),
            self.snap_interval,
            self.rotation,
        )
    }
    /// The server's start-up decision (transcription of main()): MANIFEST present, or the
    /// directory still holds a snapshot / a WAL segment longer than its 4-byte header => strict
    /// recover; else fresh start.
    pub fn start(&self, dir: &Path) -> anyhow::Result<HnswBackend> {
        let holds_state = std::fs::read_dir(dir)
            .map(|rd| {
                rd.flatten().any(|e| {
                    let n = e.file_name().to_string_lossy().to_string();
                    let len = e.metadata().map(|m| m.len()).unwrap_or(0);
                    (n.starts_with("snapshot_") && len > 0) || (n.starts_with("wal_") && n.ends_with(".wal") && len > 4)
                })
            })
            .unwrap_or(false);
        if dir.join("MANIFEST").exists() || holds_state {
            self.recover(dir)
        } else {
            self.open_fresh(dir)
        }
    }
    pub fn recover(&self, dir: &Path) -> anyhow::Result<HnswBackend> {
        if self.no_norm_check() {
            return HnswBackend::recover_with_hnsw_params(self.dim, self.metric(), dir, self.capacity, self.fsync(), self.snap_interval, self.rotation, MetricsCollector::new(), 16, 200, true);
        }
        HnswBackend::recover(
            self.dim,
            self.metric(),
            dir,
            self.capacity,
            self.fsync(),
            self.snap_interval,
            self.rotation,
            MetricsCollector::new(),
        )
    }
}

/// Apply a (non-restart) model operation to a backend. A panic inside the engine is reported as
/// an error string starting with "engine panicked" (a verdict for the caller's oracle, with a
/// replay file), not left to take the checking process down.
pub fn apply_backend(b: &HnswBackend, op: &Op) -> Result<Ret, String> {
    if matches!(op, Op::Restart) {
        panic!("restart is handled by the caller");
    }
    match std::panic::catch_unwind(std::panic::AssertUnwindSafe(|| apply_backend_inner(b, op))) {
        Ok(r) => r,
        Err(p) => {
            let msg = p.downcast_ref::<String>().cloned().or_else(|| p.downcast_ref::<&str>().map(|s| s.to_string())).unwrap_or_else(|| "?".into());
            Err(format!("engine panicked: {msg}"))
        }
    }
}

fn apply_backend_inner(b: &HnswBackend, op: &Op) -> Result<Ret, String> {
    match op {
        Op::Ins { id, v, m } => b.insert(*id, v.clone(), to_hash(m)).map(|_| Ret::Unit).map_err(|e| format!("{e:#}")),
        Op::Del { id } => b.delete(*id).map(Ret::Bool).map_err(|e| format!("{e:#}")),
        Op::BatchDel { ids } => b.batch_delete(ids).map(Ret::Count).map_err(|e| format!("{e:#}")),
        Op::UpdMeta { id, m, merge } => {
            b.update_metadata(*id, to_hash(m), *merge).map(Ret::Bool).map_err(|e| format!("{e:#}"))
        }
        Op::Snap => b.create_snapshot().map(|_| Ret::Unit).map_err(|e| format!("{e:#}")),
        Op::Restart => panic!("restart is handled by the caller"),
    }
}

/// The standard alphabet plus edge input shapes: replace-with-empty metadata, empty batch, batch
/// naming absent ids around a present one, a third id carrying the same vector as id 1.
pub fn edge_alphabet(dim: usize) -> Vec<Op> {
    let mut v = std_alphabet(dim);
    let same_as_first = match &v[0] {
        Op::Ins { v, .. } => v.clone(),
        _ => unreachable!(),
    };
    v.push(Op::UpdMeta { id: 1, m: Default::default(), merge: false });
    v.push(Op::BatchDel { ids: vec![] });
    v.push(Op::BatchDel { ids: vec![9, 2, 9] });
    v.push(Op::Ins { id: 3, v: same_as_first, m: crate::model::meta1("a", "1") });
    v
}

/// Standard small alphabet over ids {1,2} with unique payloads, for dimension `dim`.
pub fn std_alphabet(dim: usize) -> Vec<Op> {
    use crate::model::meta1;
    let mut v1 = vec![0.0f32; dim];
    v1[0] = 1.0;
    let mut v2 = vec![0.0f32; dim];
    v2[dim - 1] = 0.8;
    v2[dim.saturating_sub(2)] += 0.6;
    if dim == 1 {
        v2 = vec![-1.0];
    }
    let mut v3 = vec![0.0f32; dim];
    v3[dim - 1] = 4.0;
    v3[dim.saturating_sub(2)] += 3.0;
    let mut m2 = meta1("a", "2");
    m2.insert("b".into(), "x".into());
    vec![
        Op::Ins { id: 1, v: v1, m: meta1("a", "1") },
        Op::Ins { id: 1, v: v2, m: m2 },
        Op::Ins { id: 2, v: v3, m: Default::default() },
        Op::Del { id: 1 },
        Op::BatchDel { ids: vec![1, 2, 1] },
        Op::UpdMeta { id: 1, m: meta1("b", "2"), merge: true },
        Op::UpdMeta { id: 1, m: meta1("c", "3"), merge: false },
        Op::Snap,
        Op::Restart,
    ]
}

/// Enumerate all sequences of exactly `depth` indices over an alphabet of size `n` that start
/// with `prefix`.
pub fn sequences(n: usize, depth: usize, prefix: &[usize]) -> Vec<Vec<usize>> {
    let mut out = Vec::new();
    let mut cur = prefix.to_vec();
    fn rec(n: usize, depth: usize, cur: &mut Vec<usize>, out: &mut Vec<Vec<usize>>) {
        if cur.len() == depth {
            out.push(cur.clone());
            return;
        }
        for i in 0..n {
            cur.push(i);
            rec(n, depth, cur, out);
            cur.pop();
        }
    }
    if prefix.len() > depth {
        return out;
    }
    rec(n, depth, &mut cur, &mut out);
    out
}
