//! Deterministic work sharing: run `f` over `items` on up to `VERIF_JOBS` (default 16) OS threads.
//! Results come back in item order, so the explored set and every count are independent of timing.

use std::sync::atomic::{AtomicUsize, Ordering};
use std::sync::Mutex;

pub fn jobs() -> usize {
    std::env::var("VERIF_JOBS").ok().and_then(|s| s.parse().ok()).unwrap_or_else(|| {
        std::thread::available_parallelism().map(|n| n.get()).unwrap_or(8).min(16)
    })
}

pub fn par_map<T: Sync, R: Send, F: Fn(usize, &T) -> R + Sync>(items: &[T], f: F) -> Vec<R> {
    let n = items.len();
    let next = AtomicUsize::new(0);
    let out: Mutex<Vec<Option<R>>> = Mutex::new((0..n).map(|_| None).collect());
    let workers = jobs().min(n.max(1));
    std::thread::scope(|s| {
        for _ in 0..workers {
            s.spawn(|| loop {
                let i = next.fetch_add(1, Ordering::SeqCst);
                if i >= n {
                    break;
                }
                let r = f(i, &items[i]);
                out.lock().unwrap()[i] = Some(r);
            });
        }
    });
    out.into_inner().unwrap().into_iter().map(|x| x.expect("worker result")).collect()
}

/// Process-level sharding for engines that use process-global shim state (effect log, fault
/// slots, logical clock). The parent re-executes the current binary `n` times with
/// `VERIF_WORKER=<i>/<n>`; each worker writes one JSON value to the file named by
/// `VERIF_WORKER_OUT`. Returns the workers' values in shard order; a worker that dies is a
/// machinery error (exit 2), never a verdict.
pub fn worker_id() -> Option<(usize, usize)> {
    let v = std::env::var("VERIF_WORKER").ok()?;
    let (a, b) = v.split_once('/')?;
    Some((a.parse().ok()?, b.parse().ok()?))
}

pub fn run_workers(n: usize, extra_env: &[(&str, String)]) -> Vec<serde_json::Value> {
    let exe = self_exe();
    let args: Vec<String> = std::env::args().skip(1).collect();
    let dir = format!("/dev/shm/kyverif.workers.{}", std::process::id());
    let _ = std::fs::create_dir_all(&dir);
    let mut children = Vec::new();
    for i in 0..n {
        let out = format!("{dir}/w{i}.json");
        let mut c = std::process::Command::new(&exe);
        c.args(&args)
            .env("VERIF_WORKER", format!("{i}/{n}"))
            .env("VERIF_WORKER_OUT", &out)
            .env("RAYON_NUM_THREADS", "1");
        for (k, v) in extra_env {
            c.env(k, v);
        }
        let child = spawn_retry(&mut c).expect("spawn worker");
        children.push((child, out));
    }
    let mut res = Vec::new();
    let mut failed = false;
    for (i, (mut child, out)) in children.into_iter().enumerate() {
        let st = child.wait().expect("wait worker");
        if !st.success() {
            eprintln!("worker {i} exited with {st:?} (machinery error)");
            failed = true;
            continue;
        }
        match std::fs::read_to_string(&out).ok().and_then(|s| serde_json::from_str::<serde_json::Value>(&s).ok()) {
            Some(v) => {
                KSCHED_EXECS.fetch_add(v["ksched_executions"].as_u64().unwrap_or(0), std::sync::atomic::Ordering::Relaxed);
                KSCHED_DIVERGED.fetch_add(v["ksched_diverged"].as_u64().unwrap_or(0), std::sync::atomic::Ordering::Relaxed);
                res.push(v)
            }
            None => {
                eprintln!("worker {i} produced no result (machinery error)");
                failed = true;
            }
        }
    }
    let _ = std::fs::remove_dir_all(&dir);
    if failed {
        std::process::exit(2);
    }
    res
}

/// Path of this executable, robust against the file having been replaced on disk by a rebuild
/// while the process runs (Linux then reports "<path> (deleted)").
pub fn self_exe() -> std::path::PathBuf {
    let p = std::env::current_exe().expect("current_exe");
    let s = p.to_string_lossy().to_string();
    match s.strip_suffix(" (deleted)") {
        Some(x) => std::path::PathBuf::from(x),
        None => p,
    }
}

/// Spawn, retrying while the executable is momentarily missing or being written (a concurrent
/// `cargo build` relinks the harness binaries: kyrodb-engine's build script is always stale).
pub fn spawn_retry(cmd: &mut std::process::Command) -> std::io::Result<std::process::Child> {
    let t0 = std::time::Instant::now();
    loop {
        match cmd.spawn() {
            Ok(c) => return Ok(c),
            Err(e) if (e.kind() == std::io::ErrorKind::NotFound || e.raw_os_error() == Some(26)) && t0.elapsed() < std::time::Duration::from_secs(30) => {
                std::thread::sleep(std::time::Duration::from_millis(200));
            }
            Err(e) => return Err(e),
        }
    }
}

pub fn output_retry(cmd: &mut std::process::Command) -> std::io::Result<std::process::Output> {
    cmd.stdin(std::process::Stdio::null()).stdout(std::process::Stdio::piped()).stderr(std::process::Stdio::piped());
    spawn_retry(cmd)?.wait_with_output()
}

pub fn worker_emit(v: &serde_json::Value) {
    let out = std::env::var("VERIF_WORKER_OUT").expect("VERIF_WORKER_OUT");
    // schedule-exploration bookkeeping travels with every worker result
    let mut v = v.clone();
    if let Some(o) = v.as_object_mut() {
        o.insert("ksched_executions".into(), KSCHED_EXECS.load(std::sync::atomic::Ordering::Relaxed).into());
        o.insert("ksched_diverged".into(), KSCHED_DIVERGED.load(std::sync::atomic::Ordering::Relaxed).into());
    }
    std::fs::write(&out, serde_json::to_string(&v).unwrap()).expect("write worker result");
}

/// Executions run by the ksched explorer in this process / summed over the workers of the last
/// `run_workers`, and how many of them diverged from their replayed prefix (nondeterminism the
/// scheduler does not own).
pub static KSCHED_EXECS: std::sync::atomic::AtomicU64 = std::sync::atomic::AtomicU64::new(0);
pub static KSCHED_DIVERGED: std::sync::atomic::AtomicU64 = std::sync::atomic::AtomicU64::new(0);

// ---------------------------------------------------------------------------------------------
// Chunked, abort-tolerant work distribution. Items are global indices 0..total. A child handles
// `VERIF_RANGE=a..b` minus `VERIF_SKIP`, writes the index it is about to process to
// `<out>.progress`, and emits one JSON result. If a child dies (e.g. the engine aborts on an
// allocation failure), the index it was processing is recorded as `aborted` and the chunk is
// re-run without it.
// ---------------------------------------------------------------------------------------------

pub fn range_from_env() -> Option<(usize, usize, Vec<usize>)> {
    let r = std::env::var("VERIF_RANGE").ok()?;
    let (a, b) = r.split_once("..")?;
    let skip = std::env::var("VERIF_SKIP")
        .unwrap_or_default()
        .split(',')
        .filter_map(|s| s.parse().ok())
        .collect();
    Some((a.parse().ok()?, b.parse().ok()?, skip))
}

pub fn progress(idx: usize) {
    if let Ok(out) = std::env::var("VERIF_WORKER_OUT") {
        let _ = std::fs::write(format!("{out}.progress"), idx.to_string());
    }
}

pub fn run_chunked(total: usize, chunk: usize) -> (Vec<serde_json::Value>, Vec<usize>) {
    let exe = self_exe();
    let args: Vec<String> = std::env::args().skip(1).collect();
    let dir = format!("/dev/shm/kyverif.chunks.{}", std::process::id());
    let _ = std::fs::create_dir_all(&dir);
    let mut queue: std::collections::VecDeque<(usize, usize, Vec<usize>)> = std::collections::VecDeque::new();
    let mut a = 0;
    while a < total {
        let b = (a + chunk).min(total);
        queue.push_back((a, b, Vec::new()));
        a = b;
    }
    let maxj = jobs();
    let mut running: Vec<(std::process::Child, String, (usize, usize, Vec<usize>))> = Vec::new();
    let mut results = Vec::new();
    let mut aborted = Vec::new();
    let mut serial = 0usize;
    loop {
        while running.len() < maxj {
            let Some(job) = queue.pop_front() else { break };
            serial += 1;
            let out = format!("{dir}/c{serial}.json");
            let mut c = std::process::Command::new(&exe);
            c.args(&args)
                .env("VERIF_RANGE", format!("{}..{}", job.0, job.1))
                .env("VERIF_SKIP", job.2.iter().map(|x| x.to_string()).collect::<Vec<_>>().join(","))
                .env("VERIF_WORKER_OUT", &out)
                .env("RAYON_NUM_THREADS", "1")
                .stderr(std::process::Stdio::null());
            running.push((spawn_retry(&mut c).expect("spawn chunk worker"), out, job));
        }
        if running.is_empty() {
            break;
        }
        // wait for any child
        let mut done_idx = None;
        for (i, (child, _, _)) in running.iter_mut().enumerate() {
            if let Ok(Some(_)) = child.try_wait() {
                done_idx = Some(i);
                break;
            }
        }
        let Some(i) = done_idx else {
            std::thread::sleep(std::time::Duration::from_millis(5));
            continue;
        };
        let (mut child, out, job) = running.swap_remove(i);
        let st = child.wait().expect("wait");
        if std::env::var("VERIF_CHUNK_TRACE").is_ok() {
            let up = std::fs::read_to_string("/proc/uptime").unwrap_or_default();
            eprintln!("chunk {}..{} done at {} ok={} queue={} running={}", job.0, job.1, up.split(' ').next().unwrap_or(""), st.success(), queue.len(), running.len());
        }
        if st.success() {
            match std::fs::read_to_string(&out).ok().and_then(|s| serde_json::from_str(&s).ok()) {
                Some(v) => results.push(v),
                None => {
                    eprintln!("chunk {}..{} produced no result (machinery error)", job.0, job.1);
                    std::process::exit(2);
                }
            }
        } else {
            let k: Option<usize> = std::fs::read_to_string(format!("{out}.progress")).ok().and_then(|s| s.trim().parse().ok());
            match k {
                Some(k) if k >= job.0 && k < job.1 && !job.2.contains(&k) => {
                    aborted.push(k);
                    if aborted.len() > 20_000 {
                        eprintln!("chunk {}..{}: too many aborts (machinery error)", job.0, job.1);
                        std::process::exit(2);
                    }
                    // the process died at item k before it could report: re-run the part before k
                    // (which is known to finish) and the part after k as two jobs, instead of the
                    // whole chunk again with k skipped (quadratic in the number of aborts per chunk)
                    if k > job.0 {
                        queue.push_front((job.0, k, job.2.clone()));
                    }
                    if k + 1 < job.1 {
                        queue.push_front((k + 1, job.1, job.2.clone()));
                    }
                }
                _ => {
                    eprintln!("chunk {}..{} died with {st:?} without usable progress (machinery error)", job.0, job.1);
                    std::process::exit(2);
                }
            }
        }
    }
    let _ = std::fs::remove_dir_all(&dir);
    aborted.sort_unstable();
    (results, aborted)
}
