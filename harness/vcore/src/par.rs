//! Deterministic work sharing: run `f` over `items` on up to `VERIF_JOBS` (default 16) OS threads.
//! Results come back in item order, so the explored set and every count are independent of timing.

use std::sync::atomic::{AtomicUsize, Ordering};
use std::sync::Mutex;

pub fn jobs() -> usize {
    std::env::var("VERIF_JOBS").ok().and_then(|s| s.parse().ok()).unwrap_or_else(|| {
        std::thread::available_parallelism().map(|n| n.get()).unwrap_or(8).min(16)
    })
}

pub fn par_map<T: Sync, R: Send, F: Fn(usize, &T) -> R + Sync>(items: &[T], f: F) -> Vec<R> {
    let n = items.len();
    let next = AtomicUsize::new(0);
    let out: Mutex<Vec<Option<R>>> = Mutex::new((0..n).map(|_| None).collect());
    let workers = jobs().min(n.max(1));
    std::thread::scope(|s| {
        for _ in 0..workers {
            s.spawn(|| loop {
                let i = next.fetch_add(1, Ordering::SeqCst);
                if i >= n {
                    break;
                }
                let r = f(i, &items[i]);
                out.lock().unwrap()[i] = Some(r);
            });
        }
    });
    out.into_inner().unwrap().into_iter().map(|x| x.expect("worker result")).collect()
}
