//! racecheck: the free-running ThreadSanitizer pass. The schedule explorers (ksched) place their
//! scheduling points at lock operations, which is sufficient only if no shared memory is touched
//! outside a lock; this binary runs the same kinds of client operations on real, free-running
//! threads with the production parking_lot, compiled with -Zsanitizer=thread and an instrumented
//! std (-Zbuild-std), so that an unsynchronised access is reported as a data race.
//! Schedules here are whatever the OS produces: this is a complementary detector, not an
//! exhaustive exploration.
use kyrodb_engine::config::DistanceMetric;
use kyrodb_engine::persistence::FsyncPolicy;
use kyrodb_engine::{HnswBackend, LruCacheStrategy, QueryHashCache, TieredEngine, TieredEngineConfig};
use std::collections::HashMap;
use std::sync::{Arc, Barrier};
use std::time::Duration;

fn v(dim: usize, s: u32) -> Vec<f32> {
    (0..dim).map(|i| (((i as u32).wrapping_mul(2654435761).wrapping_add(s.wrapping_mul(40503)) % 2001) as f32) / 1000.0 - 1.0 + 0.001).collect()
}

fn meta(w: u32) -> HashMap<String, String> {
    [("w".to_string(), w.to_string()), ("k".to_string(), (w % 3).to_string())].into_iter().collect()
}

fn backend_scenario(dim: usize, cap: usize, persistent: bool, rounds: u32) -> u64 {
    let dir = format!("/dev/shm/racecheck-{}-{dim}-{cap}", std::process::id());
    let _ = std::fs::remove_dir_all(&dir);
    let b = Arc::new(if persistent {
        HnswBackend::with_persistence(dim, DistanceMetric::Euclidean, vec![], vec![], cap, &dir, FsyncPolicy::Never, 7, 2048).expect("backend")
    } else {
        HnswBackend::new(dim, DistanceMetric::Euclidean, vec![], vec![], cap).expect("backend")
    });
    let n = 7usize;
    let bar = Arc::new(Barrier::new(n));
    let mut hs = Vec::new();
    for t in 0..n {
        let b = b.clone();
        let bar = bar.clone();
        hs.push(std::thread::spawn(move || {
            bar.wait();
            let mut ops = 0u64;
            for i in 0..rounds {
                let id = ((i + t as u32) % 6) as u64 + 1;
                match t {
                    0 | 1 => {
                        let _ = b.insert(id, v(dim, i * 7 + t as u32), meta(i));
                    }
                    2 => {
                        if i % 3 == 0 {
                            let _ = b.delete(id);
                        } else if i % 3 == 1 {
                            let _ = b.update_metadata(id, meta(i + 1000), i % 2 == 0);
                        } else {
                            let _ = b.batch_delete(&[id, id + 1]);
                        }
                    }
                    3 => {
                        let _ = b.knn_search(&v(dim, i), 3);
                        let _ = b.knn_search_batch(&[v(dim, i + 1), v(dim, i + 2)], 2, Some(16));
                    }
                    4 => {
                        let _ = b.fetch_document(id);
                        let _ = b.fetch_metadata(id);
                        let _ = b.exists(id);
                        let _ = b.len();
                    }
                    5 => {
                        use kyrodb_engine::proto::{metadata_filter::FilterType, ExactMatch, MetadataFilter, NotFilter};
                        let f = MetadataFilter { filter_type: Some(FilterType::Exact(ExactMatch { key: "k".into(), value: (i % 3).to_string() })) };
                        let _ = b.ids_for_metadata_filter(&f);
                        let nf = MetadataFilter { filter_type: Some(FilterType::NotFilter(Box::new(NotFilter { filter: None }))) };
                        let _ = b.ids_for_metadata_filter(&nf);
                    }
                    _ => {
                        if persistent && i % 5 == 0 {
                            let _ = b.create_snapshot();
                        } else {
                            let _ = b.bulk_fetch(&[1, 2, 3]);
                        }
                    }
                }
                ops += 1;
            }
            ops
        }));
    }
    let total: u64 = hs.into_iter().map(|h| h.join().unwrap()).sum();
    drop(b);
    let _ = std::fs::remove_dir_all(&dir);
    total
}

fn tiered_scenario(dim: usize, rounds: u32) -> u64 {
    let cfg = TieredEngineConfig {
        hot_tier_max_size: 3,
        hot_tier_hard_limit: 6,
        hot_tier_max_age: Duration::from_secs(3600),
        hnsw_max_elements: 8,
        embedding_dimension: dim,
        hnsw_distance: DistanceMetric::Euclidean,
        ..TieredEngineConfig::default()
    };
    let te = Arc::new(TieredEngine::new(Box::new(LruCacheStrategy::new(2)), Arc::new(QueryHashCache::new(2, 0.95)), vec![], vec![], cfg).expect("engine"));
    let n = 7usize;
    let bar = Arc::new(Barrier::new(n));
    let mut hs = Vec::new();
    for t in 0..n {
        let te = te.clone();
        let bar = bar.clone();
        hs.push(std::thread::spawn(move || {
            bar.wait();
            let mut ops = 0u64;
            for i in 0..rounds {
                let id = ((i + t as u32) % 5) as u64 + 1;
                match t {
                    0 | 1 => {
                        let _ = te.insert(id, v(dim, i * 5 + t as u32), meta(i));
                    }
                    2 => {
                        if i % 2 == 0 {
                            let _ = te.delete(id);
                        } else {
                            let _ = te.update_metadata(id, meta(i + 500), true);
                        }
                    }
                    3 => {
                        let _ = te.knn_search(&v(dim, i), 2);
                        let _ = te.knn_search_batch_with_ef(&[v(dim, i), v(dim, i + 1)], 2, None);
                    }
                    4 => {
                        let _ = te.query(id, None);
                        let _ = te.get_document_with_metadata(id);
                        let _ = te.bulk_query(&[1, 2, 3], true);
                    }
                    5 => {
                        let _ = te.flush_hot_tier(i % 4 == 0);
                        let _ = te.stats();
                    }
                    _ => {
                        let _ = te.bulk_load_cold_tier(vec![(id, v(dim, i + 77), meta(i + 900))]);
                        let _ = te.batch_delete(&[id]);
                    }
                }
                ops += 1;
            }
            ops
        }));
    }
    hs.into_iter().map(|h| h.join().unwrap()).sum()
}

fn main() {
    let rounds: u32 = std::env::var("RACECHECK_ROUNDS").ok().and_then(|s| s.parse().ok()).unwrap_or(150);
    let mut ops = 0u64;
    let mut scenarios = 0u64;
    for dim in [3usize, 17] {
        for (cap, persistent) in [(4usize, false), (64, false), (6, true)] {
            ops += backend_scenario(dim, cap, persistent, rounds);
            scenarios += 1;
        }
        ops += tiered_scenario(dim, rounds);
        scenarios += 1;
    }
    println!("{{\"scenarios\":{scenarios},\"threads_per_scenario\":7,\"operations\":{ops},\"rounds\":{rounds}}}");
}
